//! Generic shell main (the glue of yash-cli's `run_as_shell_process`, generic in the system type)
//! and the `Sys` trait alias used by probes.

use std::cell::RefCell;
use std::ops::ControlFlow::{Break, Continue};
use yash_cli::startup::args::{Parse, Source};
use yash_cli::startup::input::prepare_input;
use yash_env::Env;
use yash_env::semantics::{Divert, ExitStatus};
use yash_env::system::resource::GetRlimit;
use yash_env::system::{Chdir, Errno, GetCwd, GetUid, Sysconf, TcGetPgrp, Times, Umask, Write};
use yash_semantics::trap::run_exit_trap;
use yash_semantics::{Runtime, read_eval_loop};

pub trait Sys:
    Runtime + Chdir + GetCwd + GetRlimit + GetUid + Sysconf + TcGetPgrp + Times + Umask + Write + yash_env::system::Seek + 'static
{
}
impl<S> Sys for S where
    S: Runtime + Chdir + GetCwd + GetRlimit + GetUid + Sysconf + TcGetPgrp + Times + Umask + Write + yash_env::system::Seek + 'static
{
}

/// What the shell should run: mirrors the command line of `yash3`.
pub fn parse_argv(argv: &[String]) -> Result<yash_cli::startup::args::Run, String> {
    match yash_cli::startup::args::parse(argv.iter().cloned()) {
        Ok(Parse::Run(run)) => Ok(run),
        Ok(_) => Err("help/version".into()),
        Err(e) => Err(format!("{e}")),
    }
}

/// Replica of `yash_cli::run_as_shell_process` (private there), generic over the system, without
/// rcfile handling. `prepare` is called after
/// `configure_environment` (built-ins and variables are set up) and before input is prepared.
pub async fn shell_main<S: Sys>(
    env: &mut Env<S>,
    argv: &[String],
    env_vars: &[(String, String)],
    prepare: &dyn Fn(&mut Env<S>),
) {
    let run = match parse_argv(argv) {
        Ok(run) => run,
        Err(e) => {
            env.system.print_error(&format!("{}: {e}\n", argv.first().map_or("yash", |s| s))).await;
            env.exit_status = ExitStatus::ERROR;
            return;
        }
    };
    env.variables.extend_env(env_vars.iter().cloned());
    let work = yash_cli::startup::configure_environment(env, run).await;
    prepare(env);
    let source: Source = work.source;
    let ref_env = RefCell::new(env);
    let lexer = match prepare_input(&ref_env, &source).await {
        Ok(lexer) => lexer,
        Err(e) => {
            let message = format!("{}: {e}\n", argv.first().map_or("yash", |s| s));
            #[allow(clippy::await_holding_refcell_ref)]
            {
                let mut env = ref_env.borrow_mut();
                env.system.print_error(&message).await;
                env.exit_status = match e.errno {
                    Errno::ENOENT | Errno::ENOTDIR | Errno::EILSEQ => ExitStatus::NOT_FOUND,
                    _ => ExitStatus::NOEXEC,
                };
            }
            return;
        }
    };
    let is_interactive = ref_env.borrow().options.get(yash_env::option::Interactive) == yash_env::option::On;
    let result = if is_interactive {
        yash_semantics::interactive_read_eval_loop(&ref_env, &mut { lexer }).await
    } else {
        read_eval_loop(&ref_env, &mut { lexer }).await
    };
    let env = ref_env.into_inner();
    env.apply_result(result);
    match result {
        Continue(())
        | Break(Divert::Continue { .. })
        | Break(Divert::Break { .. })
        | Break(Divert::Return(_))
        | Break(Divert::Interrupt(_))
        | Break(Divert::Exit(_)) => run_exit_trap(env).await,
        Break(Divert::Abort(_)) => (),
    }
}
