//! Probe built-ins, generic over the system type, plus the harness-side (thread-local) stores they
//! write to: trace, sink data, snapshots.

use crate::sys::Sys;
use std::cell::RefCell;
use std::collections::BTreeMap;
use std::future::ready;
use yash_env::Env;
use yash_env::builtin::{Builtin, Result as BResult, Type};
use yash_env::io::Fd;
use yash_env::semantics::{ExitStatus, Field};
use yash_env::variable::{Scope, Value};

#[derive(Clone, Debug, PartialEq, Eq, serde::Serialize)]
pub struct TraceEntry {
    pub pid: i32,
    /// `$?` on entry to the probe
    pub status: i32,
    pub args: Vec<String>,
}

#[derive(Clone, Debug, PartialEq, Eq)]
pub struct SinkEntry {
    pub pid: i32,
    pub tag: String,
    pub data: Vec<u8>,
}

#[derive(Clone, Debug, PartialEq, Eq, Default, serde::Serialize)]
pub struct Snap {
    pub tag: String,
    pub pid: i32,
    pub status: i32,
    /// name -> (value, exported, read-only)
    pub vars: BTreeMap<String, (Option<Vec<String>>, bool, bool, bool)>,
    pub positional: Vec<String>,
    pub functions: BTreeMap<String, (String, bool)>,
    pub aliases: BTreeMap<String, (String, bool)>,
    pub options: Vec<(String, bool)>,
    /// condition -> action text ("-" default, "" ignore, else command)
    pub traps: BTreeMap<String, String>,
    pub arg0: String,
}

thread_local! {
    pub static TRACE: RefCell<Vec<TraceEntry>> = const { RefCell::new(Vec::new()) };
    pub static SINKS: RefCell<Vec<SinkEntry>> = const { RefCell::new(Vec::new()) };
    pub static SNAPS: RefCell<Vec<Snap>> = const { RefCell::new(Vec::new()) };
    /// extra hook invoked by `snap` and `fds` (the virtual runner installs one that records the
    /// simulated process state)
    pub static PROC_HOOK: RefCell<Option<Box<dyn Fn(&str, i32)>>> = const { RefCell::new(None) };
    /// set by `release`, awaited by `hold`
    pub static RELEASED: std::cell::Cell<bool> = const { std::cell::Cell::new(false) };
}

pub fn reset_stores() {
    TRACE.with(|t| t.borrow_mut().clear());
    SINKS.with(|t| t.borrow_mut().clear());
    SNAPS.with(|t| t.borrow_mut().clear());
    RELEASED.with(|r| r.set(false));
}

fn values(args: &[Field]) -> Vec<String> {
    args.iter().map(|f| f.value.clone()).collect()
}

pub fn snapshot<S: Sys>(env: &Env<S>, tag: &str) -> Snap {
    let mut s = Snap {
        tag: tag.to_string(),
        pid: env.system.getpid().0,
        status: env.exit_status.0,
        arg0: env.arg0.clone(),
        ..Default::default()
    };
    for (name, var) in env.variables.iter(Scope::Global) {
        let v = match &var.value {
            None => None,
            Some(Value::Scalar(x)) => Some(vec![x.clone()]),
            Some(Value::Array(xs)) => Some(xs.clone()),
        };
        let is_array = matches!(var.value, Some(Value::Array(_)));
        s.vars.insert(name.to_string(), (v, var.is_exported, var.is_read_only(), is_array));
    }
    s.positional = env.variables.positional_params().values.clone();
    for f in env.functions.iter() {
        s.functions.insert(f.name.clone(), (f.body.to_string(), f.read_only_location.is_some()));
    }
    for a in env.aliases.iter() {
        s.aliases.insert(a.0.name.clone(), (a.0.replacement.clone(), a.0.global));
    }
    for o in yash_env::option::Option::iter() {
        s.options.push((o.to_string(), env.options.get(o) == yash_env::option::State::On));
    }
    for (cond, state, _parent) in env.traps.iter() {
        let text = match &state.action {
            yash_env::trap::Action::Default => "-".to_string(),
            yash_env::trap::Action::Ignore => "".to_string(),
            yash_env::trap::Action::Command(c) => c.to_string(),
        };
        s.traps.insert(format!("{cond:?}"), text);
    }
    s
}

async fn out<S: Sys>(env: &mut Env<S>, text: &str) -> BResult {
    yash_builtin::common::output(env, text).await
}

async fn echo_main<S: Sys>(env: &mut Env<S>, args: Vec<Field>) -> BResult {
    let text = values(&args).join(" ") + "\n";
    out(env, &text).await
}

async fn probe_main<S: Sys>(env: &mut Env<S>, args: Vec<Field>) -> BResult {
    let vals = values(&args);
    let entry = TraceEntry { pid: env.system.getpid().0, status: env.exit_status.0, args: vals.clone() };
    TRACE.with(|t| t.borrow_mut().push(entry));
    let mut text = format!("{}:", env.exit_status.0);
    for v in &vals {
        text.push('[');
        text.push_str(v);
        text.push(']');
    }
    text.push('\n');
    out(env, &text).await
}

/// `mark ID...`: like `probe` but writes nothing (safe inside pipelines), returns 0.
fn mark_main<S: Sys>(env: &mut Env<S>, args: Vec<Field>) -> BResult {
    let entry = TraceEntry { pid: env.system.getpid().0, status: env.exit_status.0, args: values(&args) };
    TRACE.with(|t| t.borrow_mut().push(entry));
    BResult::new(ExitStatus(0))
}

/// `mb`: a mandatory built-in that records `mb` in the trace and returns 5 (command-search tests).
fn mb_main<S: Sys>(env: &mut Env<S>, _args: Vec<Field>) -> BResult {
    let entry = TraceEntry { pid: env.system.getpid().0, status: env.exit_status.0, args: vec!["mb".into()] };
    TRACE.with(|t| t.borrow_mut().push(entry));
    BResult::new(ExitStatus(5))
}

fn st_main<S: Sys>(_env: &mut Env<S>, args: Vec<Field>) -> BResult {
    let n = args.first().and_then(|f| f.value.parse::<i32>().ok()).unwrap_or(0);
    BResult::new(ExitStatus(n))
}

/// `cnt ID N`: succeeds the first N times it is called with this ID in this shell environment
/// (the counter lives in a shell variable, so subshells inherit and do not share it).
fn cnt_main<S: Sys>(env: &mut Env<S>, args: Vec<Field>) -> BResult {
    let id = args.first().map(|f| f.value.clone()).unwrap_or_default();
    let limit = args.get(1).and_then(|f| f.value.parse::<i64>().ok()).unwrap_or(0);
    let name = format!("_cnt_{id}");
    let cur = env.variables.get_scalar(&name).and_then(|v| v.parse::<i64>().ok()).unwrap_or(0);
    if cur < limit {
        let mut var = env.variables.get_or_new(name, Scope::Global);
        let _ = var.assign((cur + 1).to_string(), None);
        BResult::new(ExitStatus(0))
    } else {
        BResult::new(ExitStatus(1))
    }
}

async fn read_all_stdin<S: Sys>(env: &mut Env<S>) -> Result<Vec<u8>, yash_env::system::Errno> {
    let mut data = vec![];
    let mut buf = [0u8; 300];
    loop {
        match env.system.read(Fd::STDIN, &mut buf).await {
            Ok(0) => return Ok(data),
            Ok(n) => data.extend_from_slice(&buf[..n]),
            Err(e) => return Err(e),
        }
    }
}

async fn cat_main<S: Sys>(env: &mut Env<S>, _args: Vec<Field>) -> BResult {
    let mut buf = [0u8; 200];
    loop {
        match env.system.read(Fd::STDIN, &mut buf).await {
            Ok(0) => return BResult::new(ExitStatus(0)),
            Ok(n) => {
                if env.system.write_all(Fd::STDOUT, &buf[..n]).await.is_err() {
                    return BResult::new(ExitStatus(1));
                }
            }
            Err(_) => return BResult::new(ExitStatus(1)),
        }
    }
}

pub fn pattern(n: usize, trailing_newlines: usize) -> Vec<u8> {
    // position-dependent, NUL-free, contains embedded newlines; ends with `trailing_newlines` \n
    let mut v = Vec::with_capacity(n);
    for i in 0..n {
        let b = if i % 61 == 60 { b'\n' } else { b'A' + ((i * 7 + i / 61) % 26) as u8 };
        v.push(b);
    }
    let tn = trailing_newlines.min(n);
    for i in 0..tn {
        v[n - 1 - i] = b'\n';
    }
    if n > tn && tn > 0 && v[n - 1 - tn] == b'\n' {
        v[n - 1 - tn] = b'#';
    }
    if tn == 0 && n > 0 && v[n - 1] == b'\n' {
        v[n - 1] = b'#';
    }
    v
}

/// Like `pattern`, but mostly multi-byte characters (2, 3 and 4 bytes long, in an order that puts
/// character boundaries at every residue of any buffer size); exactly `n` bytes of valid UTF-8.
pub fn pattern_utf8(n: usize, trailing_newlines: usize) -> Vec<u8> {
    const CHARS: [char; 7] = ['\u{e9}', 'a', '\u{20ac}', '\u{1f600}', '\u{3053}', 'z', '\u{df}'];
    let tn = trailing_newlines.min(n);
    let body = n - tn;
    let mut v: Vec<u8> = Vec::with_capacity(n);
    let mut i = 0usize;
    let mut since_nl = 0usize;
    while v.len() < body {
        let left = body - v.len();
        if since_nl >= 53 && left >= 2 {
            v.push(b'\n');
            since_nl = 0;
            continue;
        }
        let c = CHARS[(i * 5 + i / 7) % CHARS.len()];
        i += 1;
        if c.len_utf8() <= left && !(left - c.len_utf8() == 0 && false) {
            let mut buf = [0u8; 4];
            v.extend_from_slice(c.encode_utf8(&mut buf).as_bytes());
            since_nl += 1;
        } else {
            v.push(b'#');
            since_nl += 1;
        }
    }
    if tn > 0 && v.last() == Some(&b'\n') {
        *v.last_mut().unwrap() = b'#';
    }
    v.extend(std::iter::repeat_n(b'\n', tn));
    if tn == 0 && v.last() == Some(&b'\n') {
        *v.last_mut().unwrap() = b'#';
    }
    v
}

/// Like `pattern`, but what precedes the trailing newlines is white space of several kinds (blank,
/// tab, carriage return, vertical tab, form feed, no-break space) and, with two or more trailing
/// newlines, a blank stands between the last two: nothing but the final newlines may be removed
/// by a command substitution.
pub fn pattern_ws(n: usize, trailing_newlines: usize) -> Vec<u8> {
    const WS: [u8; 5] = [b' ', b'\t', b'\r', 0x0b, 0x0c];
    let mut v = pattern(n, trailing_newlines);
    let tn = trailing_newlines.min(n);
    let body_end = n - tn;
    if body_end >= 3 {
        if n % 7 == 0 {
            v[body_end - 2] = 0xC2;
            v[body_end - 1] = 0xA0;
        } else {
            v[body_end - 1] = WS[n % 5];
            v[body_end - 2] = WS[(n / 5) % 5];
        }
    }
    if tn >= 2 && n >= 4 {
        v[n - 2] = b' ';
    }
    v
}

/// `gen N [TRAILING_NEWLINES [u|w]]`
async fn gen_main<S: Sys>(env: &mut Env<S>, args: Vec<Field>) -> BResult {
    let n = args.first().and_then(|f| f.value.parse::<usize>().ok()).unwrap_or(0);
    let tn = args.get(1).and_then(|f| f.value.parse::<usize>().ok()).unwrap_or(0);
    let data = match args.get(2).map(|f| f.value.as_str()) {
        Some("u") => pattern_utf8(n, tn),
        Some("w") => pattern_ws(n, tn),
        _ => pattern(n, tn),
    };
    match env.system.write_all(Fd::STDOUT, &data).await {
        Ok(()) => BResult::new(ExitStatus(0)),
        Err(_) => BResult::new(ExitStatus(1)),
    }
}

/// `selfkill NAME`: sends signal NAME to the process executing the built-in (a subshell cannot
/// learn its own pid from `$$`).
async fn selfkill_main<S: Sys>(env: &mut Env<S>, args: Vec<Field>) -> BResult {
    let name = args.first().map(|f| f.value.as_str()).unwrap_or("TERM");
    let Some(num) = env.system.str2sig(name) else { return BResult::new(ExitStatus(2)) };
    match env.system.raise(num).await {
        Ok(()) => BResult::new(ExitStatus(0)),
        Err(_) => BResult::new(ExitStatus(1)),
    }
}

/// `hold`: keeps the calling (virtual) process busy - yielding to the scheduler at a preemption
/// point in every round - until some process has run `release`. Needs the preemption hooks to be
/// switched on (status 3 otherwise). A process that nobody releases spins until the scheduler's
/// step limit ends the run ("did not finish").
async fn hold_main<S: Sys>(_env: &mut Env<S>, _args: Vec<Field>) -> BResult {
    loop {
        if RELEASED.with(|r| r.get()) {
            return BResult::new(ExitStatus(0));
        }
        let before = yash_env::verif_hooks::yield_count();
        yash_env::verif_hooks::preemption_point().await;
        if yash_env::verif_hooks::yield_count() == before {
            return BResult::new(ExitStatus(3));
        }
    }
}

/// `release`: lets every `hold` return.
fn release_main<S: Sys>(_env: &mut Env<S>, _args: Vec<Field>) -> BResult {
    RELEASED.with(|r| r.set(true));
    BResult::new(ExitStatus(0))
}

pub fn fnv(data: &[u8]) -> u64 {
    let mut h: u64 = 0xcbf29ce484222325;
    for b in data {
        h ^= *b as u64;
        h = h.wrapping_mul(0x100000001b3);
    }
    h
}

/// `sink [TAG]`: reads stdin to EOF and records the bytes in the harness store; writes nothing.
async fn sink_main<S: Sys>(env: &mut Env<S>, args: Vec<Field>) -> BResult {
    let tag = args.first().map(|f| f.value.clone()).unwrap_or_default();
    match read_all_stdin(env).await {
        Ok(data) => {
            SINKS.with(|s| s.borrow_mut().push(SinkEntry { pid: env.system.getpid().0, tag, data }));
            BResult::new(ExitStatus(0))
        }
        Err(_) => BResult::new(ExitStatus(1)),
    }
}

/// `pos [TAG]`: records the offset of fd 0 (`-1` if it is not seekable) and whether fd 0 is in
/// non-blocking mode (`nb=0|1`) in the trace.
fn pos_main<S: Sys>(env: &mut Env<S>, args: Vec<Field>) -> BResult {
    use yash_env::system::Seek as _;
    let off = match env.system.lseek(Fd::STDIN, std::io::SeekFrom::Current(0)) {
        Ok(o) => o as i64,
        Err(_) => -1,
    };
    let mut a = vec!["pos".to_string(), off.to_string()];
    a.extend(values(&args));
    // is fd 0 in non-blocking mode? (what a command reading that input would find)
    {
        use yash_env::system::Fcntl as _;
        let nb = match env.system.get_and_set_nonblocking(Fd::STDIN, false) {
            Ok(true) => {
                let _ = env.system.get_and_set_nonblocking(Fd::STDIN, true);
                "nb=1"
            }
            Ok(false) => "nb=0",
            Err(_) => "nb=?",
        };
        if a.len() == 2 {
            a.push(String::new());
        }
        a.push(nb.to_string());
    }
    let entry = TraceEntry { pid: env.system.getpid().0, status: env.exit_status.0, args: a };
    TRACE.with(|t| t.borrow_mut().push(entry));
    BResult::new(env.exit_status)
}

fn snap_main<S: Sys>(env: &mut Env<S>, args: Vec<Field>) -> BResult {
    let tag = args.first().map(|f| f.value.clone()).unwrap_or_default();
    let s = snapshot(env, &tag);
    let pid = s.pid;
    SNAPS.with(|t| t.borrow_mut().push(s));
    PROC_HOOK.with(|h| {
        if let Some(h) = &*h.borrow() {
            h(&tag, pid)
        }
    });
    // leave $? unchanged so that snapshots are transparent
    BResult::new(env.exit_status)
}

pub fn register<S: Sys>(env: &mut Env<S>) {
    let list: Vec<(&'static str, Builtin<S>)> = vec![
        ("echo", Builtin::new(Type::Mandatory, |env, args| Box::pin(echo_main(env, args)))),
        ("probe", Builtin::new(Type::Mandatory, |env, args| Box::pin(probe_main(env, args)))),
        ("mark", Builtin::new(Type::Mandatory, |env, args| Box::pin(ready(mark_main(env, args))))),
        ("mb", Builtin::new(Type::Mandatory, |env, args| Box::pin(ready(mb_main(env, args))))),
        ("st", Builtin::new(Type::Mandatory, |env, args| Box::pin(ready(st_main(env, args))))),
        ("cnt", Builtin::new(Type::Mandatory, |env, args| Box::pin(ready(cnt_main(env, args))))),
        ("cat", Builtin::new(Type::Mandatory, |env, args| Box::pin(cat_main(env, args)))),
        ("gen", Builtin::new(Type::Mandatory, |env, args| Box::pin(gen_main(env, args)))),
        ("sink", Builtin::new(Type::Mandatory, |env, args| Box::pin(sink_main(env, args)))),
        ("selfkill", Builtin::new(Type::Mandatory, |env, args| Box::pin(selfkill_main(env, args)))),
        ("hold", Builtin::new(Type::Mandatory, |env, args| Box::pin(hold_main(env, args)))),
        ("release", Builtin::new(Type::Mandatory, |env, args| Box::pin(ready(release_main(env, args))))),
        ("pos", Builtin::new(Type::Mandatory, |env, args| Box::pin(ready(pos_main(env, args))))),
        ("snap", Builtin::new(Type::Mandatory, |env, args| Box::pin(ready(snap_main(env, args))))),
    ];
    for (name, b) in list {
        env.builtins.insert(name, b);
    }
}
