//! Coverage-guided tier. The libFuzzer targets in /verif/fuzz are five-line shims around
//! `fuzz_one`; every target decodes the fuzzer's bytes into a case of an existing driver and runs
//! that driver's oracle, so a "crash" is never the deciding signal - the oracle is.
//!
//! Two kinds of decoding:
//! * raw: the bytes are the text (plus one or two leading selector bytes);
//! * pass-through: the bytes are handed to proptest as its random stream
//!   (`RngAlgorithm::PassThrough`), so any proptest strategy of the harness becomes a structured
//!   decoder and libFuzzer mutates the *choices* of the generator.
//!
//! Failing cases are shrunk (value-tree simplification or character deletion), appended as JSON
//! lines to `$VCHECK_FUZZ_FAILS` and the campaign goes on (one report per failure signature);
//! counters go to `$VCHECK_FUZZ_STATS`. `run_stage` (thorough tiers) launches the fuzz binaries and
//! folds their results into the evidence; `replay_corpus` (quick tiers) runs the committed corpus
//! through the same decoders in-process.

use crate::engine::*;
use crate::props::{c03, c04, c06, c07};
use proptest::strategy::{BoxedStrategy, Strategy, ValueTree};
use proptest::test_runner::{Config, RngAlgorithm, TestRng, TestRunner};
use serde::Serialize;
use serde_json::{Value, json};
use std::cell::RefCell;
use std::collections::{BTreeMap, HashSet};
use std::io::Write as _;

pub struct Evaluated {
    pub driver: &'static str,
    pub case: Value,
    pub outcome: Outcome,
    pub known: Option<&'static str>,
}

pub trait Target {
    fn name(&self) -> &'static str;
    fn prop(&self) -> &'static str;
    fn max_len(&self) -> usize;
    /// decode and evaluate; a failing case comes back shrunk
    fn eval_bytes(&self, data: &[u8]) -> Option<Evaluated>;
    /// decode, evaluate and record into `st` (corpus replay)
    fn replay_into(&self, st: &mut Stats, data: &[u8]);
}

/// what the engine's drivers require of a case type
pub trait CaseT: std::fmt::Debug + Clone + Serialize + serde::de::DeserializeOwned + Send + 'static {}
impl<T: std::fmt::Debug + Clone + Serialize + serde::de::DeserializeOwned + Send + 'static> CaseT for T {}

struct Raw<C: 'static> {
    name: &'static str,
    max_len: usize,
    driver: &'static Driver<C>,
    decode: fn(&[u8]) -> Option<C>,
    /// candidate simplifications of a failing case (each strictly smaller)
    shrink: fn(&C) -> Vec<C>,
}

struct Pass<C: 'static> {
    name: &'static str,
    max_len: usize,
    driver: &'static Driver<C>,
    strategy: BoxedStrategy<C>,
}

fn signature(msg: &str) -> String {
    // failure class: the message without digits and quoted payloads, truncated
    let mut s = String::new();
    let mut in_quote = false;
    for ch in msg.chars() {
        if ch == '"' || ch == '`' {
            in_quote = !in_quote;
            continue;
        }
        if in_quote || ch.is_ascii_digit() {
            continue;
        }
        s.push(ch);
        if s.len() >= 60 {
            break;
        }
    }
    s
}

impl<C: CaseT> Raw<C> {
    fn shrunk(&self, c: C, msg: String) -> (C, String) {
        let sig = signature(&msg);
        let (mut best, mut best_msg) = (c, msg);
        let mut budget = 400;
        'outer: loop {
            for cand in (self.shrink)(&best) {
                if budget == 0 {
                    break 'outer;
                }
                budget -= 1;
                let (o, known) = self.driver.eval(&cand);
                if known.is_some() {
                    continue;
                }
                if let Verdict::Fail(m) = o.verdict {
                    if signature(&m) == sig {
                        best = cand;
                        best_msg = m;
                        continue 'outer;
                    }
                }
            }
            break;
        }
        (best, best_msg)
    }
}

impl<C: CaseT> Target for Raw<C> {
    fn name(&self) -> &'static str {
        self.name
    }
    fn prop(&self) -> &'static str {
        self.driver.prop
    }
    fn max_len(&self) -> usize {
        self.max_len
    }
    fn eval_bytes(&self, data: &[u8]) -> Option<Evaluated> {
        let c = (self.decode)(data)?;
        let (out, known) = self.driver.eval(&c);
        if let (Verdict::Fail(m), None) = (&out.verdict, known) {
            let (c2, m2) = self.shrunk(c, m.clone());
            return Some(Evaluated {
                driver: self.driver.name,
                case: serde_json::to_value(&c2).ok()?,
                outcome: Outcome { verdict: Verdict::Fail(m2), nontrivial: false, classes: vec![] },
                known: None,
            });
        }
        Some(Evaluated { driver: self.driver.name, case: serde_json::to_value(&c).ok()?, outcome: out, known })
    }
    fn replay_into(&self, st: &mut Stats, data: &[u8]) {
        if let Some(c) = (self.decode)(data) {
            self.driver.run_list(st, &[c]);
        }
    }
}

const PAD_LEN: usize = 1 << 18;

fn pad() -> &'static [u8] {
    static PAD: std::sync::OnceLock<Vec<u8>> = std::sync::OnceLock::new();
    PAD.get_or_init(|| {
        let mut x: u64 = 0x9E37_79B9_7F4A_7C15;
        (0..PAD_LEN)
            .map(|_| {
                x ^= x << 13;
                x ^= x >> 7;
                x ^= x << 17;
                (x >> 24) as u8
            })
            .collect()
    })
}

impl<C: CaseT> Pass<C> {
    fn tree(&self, data: &[u8]) -> Option<Box<dyn ValueTree<Value = C>>> {
        if data.is_empty() {
            return None;
        }
        // proptest's pass-through generator returns zeros once the bytes are used up, and rand's
        // uniform sampler never accepts a constant zero stream: pad with a fixed pseudo-random tail
        let mut bytes = Vec::with_capacity(data.len() + PAD_LEN);
        bytes.extend_from_slice(data);
        bytes.extend_from_slice(pad());
        let rng = TestRng::from_seed(RngAlgorithm::PassThrough, &bytes);
        let mut runner = TestRunner::new_with_rng(
            // an exhausted byte stream yields zeros for ever: give up on filters quickly
            Config { failure_persistence: None, max_local_rejects: 8, max_global_rejects: 8, ..Config::default() },
            rng,
        );
        self.strategy.new_tree(&mut runner).ok()
    }
}

impl<C: CaseT> Target for Pass<C> {
    fn name(&self) -> &'static str {
        self.name
    }
    fn prop(&self) -> &'static str {
        self.driver.prop
    }
    fn max_len(&self) -> usize {
        self.max_len
    }
    fn eval_bytes(&self, data: &[u8]) -> Option<Evaluated> {
        let mut tree = self.tree(data)?;
        let c = tree.current();
        let (out, known) = self.driver.eval(&c);
        if let (Verdict::Fail(m), None) = (&out.verdict, known) {
            // the standard shrink loop over the value tree
            let (mut best, mut best_msg) = (c, m.clone());
            let mut budget = 2000;
            while budget > 0 && tree.simplify() {
                loop {
                    budget -= 1;
                    let cand = tree.current();
                    let (o, k) = self.driver.eval(&cand);
                    match (o.verdict, k) {
                        (Verdict::Fail(m2), None) => {
                            best = cand;
                            best_msg = m2;
                            break;
                        }
                        _ => {
                            if budget == 0 || !tree.complicate() {
                                break;
                            }
                        }
                    }
                }
            }
            return Some(Evaluated {
                driver: self.driver.name,
                case: serde_json::to_value(&best).ok()?,
                outcome: Outcome { verdict: Verdict::Fail(best_msg), nontrivial: false, classes: vec![] },
                known: None,
            });
        }
        Some(Evaluated { driver: self.driver.name, case: serde_json::to_value(&c).ok()?, outcome: out, known })
    }
    fn replay_into(&self, st: &mut Stats, data: &[u8]) {
        if let Some(t) = self.tree(data) {
            self.driver.run_list(st, &[t.current()]);
        }
    }
}

// ---------------------------------------------------------------------------------------------
// decoders of the raw targets

fn lossy(data: &[u8]) -> String {
    String::from_utf8_lossy(data).into_owned()
}

/// candidate texts with one chunk / one character removed
fn text_shrinks(text: &str) -> Vec<String> {
    let chars: Vec<char> = text.chars().collect();
    let n = chars.len();
    let mut out = vec![];
    let mut size = n / 2;
    while size >= 1 {
        let mut i = 0;
        while i + size <= n {
            let mut v = chars[..i].to_vec();
            v.extend_from_slice(&chars[i + size..]);
            out.push(v.into_iter().collect());
            i += size;
        }
        if size == 1 {
            break;
        }
        size /= 2;
    }
    out
}

fn dec_c06(data: &[u8]) -> Option<c06::TextCase> {
    let (sel, rest) = data.split_first()?;
    Some(c06::TextCase { text: lossy(rest), portable: sel & 1 == 1 })
}
fn shr_c06(c: &c06::TextCase) -> Vec<c06::TextCase> {
    text_shrinks(&c.text).into_iter().map(|text| c06::TextCase { text, portable: c.portable }).collect()
}

const ARITH_VALUES: [&str; 16] =
    ["", "0", "1", "-1", "63", "64", "9223372036854775807", "-9223372036854775808", "9223372036854775808", "010", "0x10", "08", "x", "-9223372036854775809", "-18446744073709551615", "b"];

fn dec_c03(data: &[u8]) -> Option<c03::TextCase> {
    if data.len() < 2 {
        return None;
    }
    let mut env = BTreeMap::new();
    for (i, name) in ["a", "b"].iter().enumerate() {
        let sel = data[i];
        if sel & 0x80 == 0 {
            env.insert(name.to_string(), ARITH_VALUES[(sel & 15) as usize].to_string());
        }
    }
    Some(c03::TextCase { text: lossy(&data[2..]), env })
}
fn shr_c03(c: &c03::TextCase) -> Vec<c03::TextCase> {
    text_shrinks(&c.text).into_iter().map(|text| c03::TextCase { text, env: c.env.clone() }).collect()
}

/// Structured decoding of an expression tree (same shapes as `c03::arb_expr`: any expression
/// may stand left of an assignment operator, `++`/`--` only apply to variables).
struct Bytes<'a>(&'a [u8], usize);
impl Bytes<'_> {
    fn next(&mut self) -> u8 {
        let b = self.0.get(self.1).copied().unwrap_or(0);
        self.1 += 1;
        b
    }
    fn done(&self) -> bool {
        self.1 >= self.0.len()
    }
}

const TREE_VARS: [&str; 5] = ["a", "b", "c", "_x1", "u"];
const TREE_NUMS: [u64; 20] = [
    0, 1, 2, 3, 7, 31, 32, 62, 63, 64, 65, 1 << 31, (1 << 31) - 1, 1 << 32, i64::MAX as u64, i64::MAX as u64 - 1, 1 << 62, 3037000500, u64::MAX, 1 << 63,
];

fn dec_expr(u: &mut Bytes, depth: u32) -> c03::Expr {
    use c03::Expr;
    let b = u.next();
    let var = |x: u8| Expr::Var(TREE_VARS[x as usize % TREE_VARS.len()].to_string());
    if depth == 0 || u.done() || b % 16 < 5 {
        return match b % 16 {
            0 | 1 | 5 | 6 => {
                let k = u.next();
                let radix = [10u8, 10, 10, 8, 16][(k >> 5) as usize % 5];
                Expr::Num(TREE_NUMS[(k & 31) as usize % TREE_NUMS.len()], radix)
            }
            2 | 7 => {
                let mut v = 0u64;
                for _ in 0..8 {
                    v = (v << 8) | u.next() as u64;
                }
                Expr::Num(v >> (b >> 4), 10)
            }
            _ => var(b >> 4),
        };
    }
    match b % 16 {
        5..=9 => {
            let op = c03::BINOPS[u.next() as usize % c03::BINOPS.len()];
            let l = dec_expr(u, depth - 1);
            let r = dec_expr(u, depth - 1);
            Expr::Bin(op, Box::new(l), Box::new(r))
        }
        10 | 11 => {
            let op = c03::BINOPS[18 + u.next() as usize % 11];
            let r = dec_expr(u, depth - 1);
            Expr::Bin(op, Box::new(var(b >> 4)), Box::new(r))
        }
        12 => Expr::Pre(c03::PREOPS[u.next() as usize % 4], Box::new(dec_expr(u, depth - 1))),
        13 => {
            let k = u.next();
            if k & 1 == 0 { Expr::Pre(c03::PREOPS[4 + (k as usize >> 1) % 2], Box::new(var(b >> 4))) } else { Expr::Post(k & 2 != 0, Box::new(var(b >> 4))) }
        }
        14 => {
            let c = dec_expr(u, depth - 1);
            let t = dec_expr(u, depth - 1);
            let f = dec_expr(u, depth - 1);
            Expr::Cond(Box::new(c), Box::new(t), Box::new(f))
        }
        _ => Expr::Paren(Box::new(dec_expr(u, depth - 1))),
    }
}

fn dec_c03_tree(data: &[u8]) -> Option<c03::TreeCase> {
    if data.len() < 5 {
        return None;
    }
    let mut env = BTreeMap::new();
    for (i, name) in ["a", "b", "c", "_x1"].iter().enumerate() {
        let sel = data[i];
        if sel & 0x80 == 0 {
            env.insert(name.to_string(), ARITH_VALUES[(sel & 15) as usize].to_string());
        }
    }
    let mut u = Bytes(&data[5..], 0);
    let expr = dec_expr(&mut u, 6);
    Some(c03::TreeCase { expr, env, blanks: data[4] as u32 * 0x0101_0101 })
}

fn shr_c03_tree(c: &c03::TreeCase) -> Vec<c03::TreeCase> {
    use c03::Expr;
    // replace the root by one of its children; drop variables from the environment
    let mut out = vec![];
    let kids: Vec<&Expr> = match &c.expr {
        Expr::Bin(_, l, r) => vec![l, r],
        Expr::Pre(_, x) | Expr::Post(_, x) | Expr::Paren(x) => vec![x],
        Expr::Cond(a, b, d) => vec![a, b, d],
        _ => vec![],
    };
    for k in kids {
        out.push(c03::TreeCase { expr: (*k).clone(), env: c.env.clone(), blanks: 0 });
    }
    for name in c.env.keys() {
        let mut env = c.env.clone();
        env.remove(name);
        out.push(c03::TreeCase { expr: c.expr.clone(), env, blanks: c.blanks });
    }
    out
}

fn dec_c04(data: &[u8]) -> Option<c04::PatCase> {
    // byte 0: mode; then text; '\n' separates pattern from subject; U+0001 marks the next pattern
    // character as quoted (literal)
    let (sel, rest) = data.split_first()?;
    let s = lossy(rest);
    let (p, t) = s.split_once('\n').unwrap_or((s.as_str(), ""));
    let mut pat = vec![];
    let mut lit = false;
    for ch in p.chars() {
        if ch == '\u{1}' {
            lit = true;
            continue;
        }
        pat.push(crate::model::fnmatch::PC { c: ch, lit });
        lit = false;
    }
    Some(c04::PatCase { pat, text: t.to_string(), mode: c04::MODES[(*sel as usize) % c04::MODES.len()] })
}
fn shr_c04(c: &c04::PatCase) -> Vec<c04::PatCase> {
    let mut out = vec![];
    for i in 0..c.pat.len() {
        let mut p = c.pat.clone();
        p.remove(i);
        out.push(c04::PatCase { pat: p, text: c.text.clone(), mode: c.mode });
    }
    for text in text_shrinks(&c.text) {
        out.push(c04::PatCase { pat: c.pat.clone(), text, mode: c.mode });
    }
    out
}

fn dec_c07(data: &[u8]) -> Option<c07::QuoteCase> {
    let s: String = lossy(data).chars().filter(|c| *c != '\0').collect();
    Some(c07::QuoteCase { s })
}
fn shr_c07(c: &c07::QuoteCase) -> Vec<c07::QuoteCase> {
    text_shrinks(&c.s).into_iter().map(|s| c07::QuoteCase { s }).collect()
}

pub const TARGET_NAMES: [&str; 7] = ["c06_text", "c06_grammar", "c06_mutant", "c03_text", "c03_tree", "c04_pat", "c07_quote"];

pub fn target(name: &str) -> Option<Box<dyn Target>> {
    Some(match name {
        "c06_text" => Box::new(Raw { name: "c06_text", max_len: 256, driver: &c06::SOUP, decode: dec_c06, shrink: shr_c06 }),
        "c06_grammar" => Box::new(Pass { name: "c06_grammar", max_len: 1024, driver: &c06::GRAMMAR, strategy: c06::arb_grammar().boxed() }),
        "c06_mutant" => Box::new(Pass { name: "c06_mutant", max_len: 1024, driver: &c06::MUTANT, strategy: c06::arb_mutant().boxed() }),
        "c03_text" => Box::new(Raw { name: "c03_text", max_len: 96, driver: &c03::TEXT, decode: dec_c03, shrink: shr_c03 }),
        "c03_tree" => Box::new(Raw { name: "c03_tree", max_len: 160, driver: &c03::TREE, decode: dec_c03_tree, shrink: shr_c03_tree }),
        "c04_pat" => Box::new(Raw { name: "c04_pat", max_len: 64, driver: &c04::PAT, decode: dec_c04, shrink: shr_c04 }),
        "c07_quote" => Box::new(Raw { name: "c07_quote", max_len: 48, driver: &c07::QUOTE, decode: dec_c07, shrink: shr_c07 }),
        _ => return None,
    })
}

// ---------------------------------------------------------------------------------------------
// in-process side of a fuzz binary

#[derive(Default)]
struct Counters {
    evals: u64,
    undecodable: u64,
    known: u64,
    failures: u64,
    nontrivial: HashSet<u64>,
    classes: BTreeMap<String, u64>,
    signatures: HashSet<String>,
}

thread_local! {
    static STATE: RefCell<Option<(Box<dyn Target>, Counters)>> = const { RefCell::new(None) };
}

fn flush(name: &str, c: &Counters) {
    if let Ok(path) = std::env::var("VCHECK_FUZZ_STATS") {
        let v = json!({
            "target": name, "evals": c.evals, "undecodable": c.undecodable, "known": c.known, "failures": c.failures,
            "distinct_nontrivial": c.nontrivial.len(), "classes": c.classes,
        });
        let _ = std::fs::write(path, v.to_string());
    }
}

fn runs_announced() -> Option<u64> {
    thread_local! { static RUNS: Option<u64> = std::env::var("VCHECK_FUZZ_RUNS").ok().and_then(|v| v.parse().ok()); }
    RUNS.with(|r| *r)
}

/// Entry point of every fuzz binary.
pub fn fuzz_one(name: &'static str, data: &[u8]) {
    STATE.with(|s| {
        let mut b = s.borrow_mut();
        if b.is_none() {
            install_panic_hook();
            let t = target(name).expect("unknown fuzz target");
            init_known(t.prop());
            *b = Some((t, Counters::default()));
        }
        let (t, c) = b.as_mut().unwrap();
        c.evals += 1;
        match t.eval_bytes(data) {
            None => c.undecodable += 1,
            Some(ev) => {
                if ev.known.is_some() {
                    c.known += 1;
                } else {
                    for cl in &ev.outcome.classes {
                        *c.classes.entry(cl.to_string()).or_default() += 1;
                    }
                    match &ev.outcome.verdict {
                        Verdict::Pass if ev.outcome.nontrivial => {
                            c.nontrivial.insert(hash_str(&ev.case.to_string()));
                        }
                        Verdict::Fail(msg) => {
                            c.failures += 1;
                            if c.signatures.len() < 20 && c.signatures.insert(signature(msg)) {
                                if let Ok(path) = std::env::var("VCHECK_FUZZ_FAILS") {
                                    if let Ok(mut f) = std::fs::OpenOptions::new().create(true).append(true).open(path) {
                                        let _ = writeln!(f, "{}", json!({"driver": ev.driver, "case": ev.case, "message": msg}));
                                    }
                                }
                            }
                        }
                        _ => {}
                    }
                }
            }
        }
        // no exit hook (thread-local state is gone by then): flush often, and at the last execution
        if c.evals % 512 == 0 || Some(c.evals) == runs_announced() {
            flush(t.name(), c);
        }
    });
}

// ---------------------------------------------------------------------------------------------
// orchestration from vcheck

/// Where the fuzz crate lives (`VERIF_FUZZ_ROOT` overrides it for scratch copies used in
/// sensitivity experiments).
pub fn fuzz_root() -> String {
    std::env::var("VERIF_FUZZ_ROOT").unwrap_or_else(|_| "/verif/fuzz".to_string())
}

fn corpus_files(name: &str) -> Vec<std::path::PathBuf> {
    let mut v: Vec<_> = std::fs::read_dir(format!("{}/corpus/{name}", fuzz_root()))
        .map(|rd| rd.filter_map(|e| e.ok()).map(|e| e.path()).filter(|p| p.is_file()).collect())
        .unwrap_or_default();
    v.sort();
    v
}

/// Quick tiers: the committed corpus through the same decoder and oracle, in-process.
pub fn replay_corpus(st: &mut Stats, name: &str) {
    let Some(t) = target(name) else { return };
    let files = corpus_files(name);
    for f in &files {
        if let Ok(data) = std::fs::read(f) {
            t.replay_into(st, &data);
        }
    }
    st.extra.insert(format!("fuzz_corpus_replayed:{name}"), json!(files.len()));
}

/// Thorough tiers: `procs` libFuzzer processes of `runs` executions each on the committed corpus.
/// Violations found by the in-target oracle are pushed into `st.failures`; abnormal ends of a fuzz
/// process (timeout, out of memory, crash that does not reproduce through the oracle) are recorded
/// under `extra` and make the stage inconclusive (returned flag), never a violation.
pub fn run_stage(ctx: &Ctx, st: &mut Stats, name: &str, runs: u64) -> bool {
    let Some(t) = target(name) else { return false };
    let bin = format!("{}/target/x86_64-unknown-linux-gnu/release/{name}", fuzz_root());
    if !std::path::Path::new(&bin).exists() {
        st.extra.insert(format!("fuzz:{name}"), json!({"skipped": "fuzz binary not built"}));
        eprintln!("[fuzz] {bin} missing: stage skipped (inconclusive)");
        return false;
    }
    let work = format!("{}/fuzz-work/{name}-{}", out_root(), std::process::id());
    let _ = std::fs::remove_dir_all(&work);
    let procs = ctx.threads.max(1);
    let mut children = vec![];
    for i in 0..procs {
        let dir = format!("{work}/{i}");
        std::fs::create_dir_all(format!("{dir}/corpus")).ok();
        let mut cmd = std::process::Command::new(&bin);
        cmd.arg(format!("{dir}/corpus"));
        let seed_corpus = format!("{}/corpus/{name}", fuzz_root());
        if std::path::Path::new(&seed_corpus).is_dir() {
            cmd.arg(seed_corpus);
        }
        cmd.arg(format!("-runs={runs}"))
            .arg(format!("-seed={}", ctx.seed.wrapping_mul(1000).wrapping_add(i as u64 + 1) & 0x7fff_ffff))
            .arg(format!("-max_len={}", t.max_len()))
            .arg("-len_control=0")
            .arg("-print_final_stats=1")
            .arg("-rss_limit_mb=6000")
            .arg("-timeout=120")
            .arg(format!("-artifact_prefix={dir}/art-"))
            .env("VCHECK_FUZZ_FAILS", format!("{dir}/fails.jsonl"))
            .env("VCHECK_FUZZ_STATS", format!("{dir}/stats.json"))
            .env("VCHECK_FUZZ_RUNS", runs.to_string())
            .stdout(std::process::Stdio::null())
            .stderr(std::fs::File::create(format!("{dir}/log")).map(std::process::Stdio::from).unwrap_or(std::process::Stdio::null()));
        match cmd.spawn() {
            Ok(c) => children.push((i, dir, c)),
            Err(e) => eprintln!("[fuzz] cannot start {bin}: {e}"),
        }
    }
    let mut execs = 0u64;
    let mut cov = 0u64;
    let mut nontrivial = 0u64;
    let mut known = 0u64;
    let mut abnormal: Vec<String> = vec![];
    let mut classes: BTreeMap<String, u64> = BTreeMap::new();
    let mut seen: HashSet<String> = HashSet::new();
    for (i, dir, mut c) in children {
        let status = c.wait().ok();
        let log = std::fs::read_to_string(format!("{dir}/log")).unwrap_or_default();
        for line in log.lines() {
            if let Some(v) = line.strip_prefix("stat::number_of_executed_units:") {
                execs += v.trim().parse::<u64>().unwrap_or(0);
            }
            if let Some(p) = line.find(" cov: ") {
                let v: u64 = line[p + 6..].split_whitespace().next().and_then(|x| x.parse().ok()).unwrap_or(0);
                cov = cov.max(v);
            }
        }
        if let Ok(text) = std::fs::read_to_string(format!("{dir}/stats.json")) {
            if let Ok(v) = serde_json::from_str::<Value>(&text) {
                nontrivial += v["distinct_nontrivial"].as_u64().unwrap_or(0);
                known += v["known"].as_u64().unwrap_or(0);
                if let Some(m) = v["classes"].as_object() {
                    for (k, n) in m {
                        *classes.entry(k.clone()).or_default() += n.as_u64().unwrap_or(0);
                    }
                }
            }
        }
        if let Ok(text) = std::fs::read_to_string(format!("{dir}/fails.jsonl")) {
            for line in text.lines() {
                if let Ok(v) = serde_json::from_str::<Value>(line) {
                    let key = format!("{}{}", v["driver"], v["case"]);
                    if seen.insert(key) {
                        st.failures.push(Failure {
                            driver: v["driver"].as_str().unwrap_or("fuzz").to_string(),
                            case: v["case"].clone(),
                            message: format!("{} [found by libFuzzer target {name}]", v["message"].as_str().unwrap_or("")),
                        });
                    }
                }
            }
        }
        if !status.is_some_and(|s| s.success()) {
            // an artifact of libFuzzer itself: re-run it through the oracle in this process
            let arts: Vec<_> = std::fs::read_dir(&dir)
                .map(|rd| rd.filter_map(|e| e.ok()).map(|e| e.path()).filter(|p| p.file_name().is_some_and(|n| n.to_string_lossy().starts_with("art-"))).collect())
                .unwrap_or_default();
            let mut reproduced = false;
            for a in &arts {
                if let Ok(data) = std::fs::read(a) {
                    if let Some(ev) = t.eval_bytes(&data) {
                        if let (Verdict::Fail(m), None) = (&ev.outcome.verdict, ev.known) {
                            reproduced = true;
                            st.failures.push(Failure { driver: ev.driver.to_string(), case: ev.case, message: format!("{m} [libFuzzer artifact of target {name}]") });
                        }
                    }
                }
            }
            if !reproduced {
                abnormal.push(format!("process {i}: {status:?}, artifacts {}", arts.len()));
            }
        }
    }
    st.evaluations += execs;
    *st.per_driver.entry(format!("libfuzzer:{name}")).or_default() += execs;
    // (the per-process distinct counts may overlap between processes: they are reported under
    // `fuzz:<target>` only and not added to the check's distinct_nontrivial figure)
    if known > 0 {
        *st.known_hits.entry(format!("(libfuzzer:{name})")).or_default() += 0;
    }
    for (k, n) in classes {
        *st.classes.entry(format!("libfuzzer:{name}:{k}")).or_default() += n;
    }
    st.extra.insert(
        format!("fuzz:{name}"),
        json!({"engine": "libFuzzer (cargo-fuzz, sanitizer none)", "processes": procs, "runs_per_process": runs, "executions": execs, "max_cov_edges": cov,
               "distinct_nontrivial_per_process_sum": nontrivial, "known_finding_inputs_tolerated": known, "seed_corpus_files": corpus_files(name).len(), "abnormal": abnormal}),
    );
    let _ = std::fs::remove_dir_all(&work);
    let _ = std::fs::remove_dir(format!("{}/fuzz-work", out_root()));
    abnormal.is_empty()
}

/// Quick: replay of the committed corpus. Thorough: the replay, then a libFuzzer campaign of
/// `runs` executions in each of `ctx.threads` processes per target.
pub fn tier_stage(ctx: &Ctx, st: &mut Stats, targets: &[(&str, u64)]) {
    for (name, runs) in targets {
        replay_corpus(st, name);
        if ctx.tier == Tier::Thorough && !run_stage(ctx, st, name, *runs) {
            let e = st.extra.entry("inconclusive".into()).or_insert_with(|| json!([]));
            if let Some(a) = e.as_array_mut() {
                a.push(json!(format!("libFuzzer stage {name} did not complete normally (see fuzz:{name})")));
            }
        }
    }
}
