//! Common machinery: tiers, statistics, drivers (random via proptest, exhaustive by index),
//! shrinking, replay files, known findings, evidence files.

use proptest::strategy::Strategy;
use proptest::test_runner::{Config, RngSeed, TestCaseError, TestError, TestRunner};
use serde::Serialize;
use serde::de::DeserializeOwned;
use serde_json::{Value, json};
use std::cell::RefCell;
use std::collections::hash_map::DefaultHasher;
use std::collections::{BTreeMap, HashSet};
use std::fmt::Debug;
use std::hash::{Hash, Hasher};
use std::panic::{AssertUnwindSafe, catch_unwind};
use std::path::PathBuf;
use std::sync::Mutex;
use std::time::Instant;

pub const VERIF_ROOT: &str = "/verif";

/// Where evidence and replay files go: /verif, unless VERIF_OUT redirects them (used only by the
/// mutation-testing helper so that a run against a scratch copy does not overwrite real evidence).
pub fn out_root() -> String {
    std::env::var("VERIF_OUT").unwrap_or_else(|_| VERIF_ROOT.to_string())
}

#[derive(Clone, Copy, Debug, PartialEq, Eq)]
pub enum Tier {
    Quick,
    Thorough,
}

impl Tier {
    pub fn pick<T>(self, quick: T, thorough: T) -> T {
        match self {
            Tier::Quick => quick,
            Tier::Thorough => thorough,
        }
    }
    pub fn name(self) -> &'static str {
        self.pick("quick", "thorough")
    }
}

#[derive(Clone, Debug)]
pub struct Ctx {
    pub tier: Tier,
    pub seed: u64,
    pub threads: usize,
}

/// Result of checking one case.
#[derive(Clone, Debug)]
pub enum Verdict {
    Pass,
    /// The oracle has no answer for this case (unspecified behaviour etc.): counted, not compared
    Skip(&'static str),
    Fail(String),
}

#[derive(Clone, Debug)]
pub struct Outcome {
    pub verdict: Verdict,
    pub nontrivial: bool,
    pub classes: Vec<&'static str>,
}

impl Outcome {
    pub fn pass(nontrivial: bool) -> Self {
        Outcome { verdict: Verdict::Pass, nontrivial, classes: vec![] }
    }
    pub fn skip(why: &'static str) -> Self {
        Outcome { verdict: Verdict::Skip(why), nontrivial: false, classes: vec![] }
    }
    pub fn fail(msg: impl Into<String>) -> Self {
        Outcome { verdict: Verdict::Fail(msg.into()), nontrivial: true, classes: vec![] }
    }
    pub fn class(mut self, c: &'static str) -> Self {
        self.classes.push(c);
        self
    }
    pub fn class_if(mut self, cond: bool, c: &'static str) -> Self {
        if cond {
            self.classes.push(c);
        }
        self
    }
    pub fn is_fail(&self) -> bool {
        matches!(self.verdict, Verdict::Fail(_))
    }
}

#[derive(Clone, Debug)]
pub struct Failure {
    pub driver: String,
    pub case: Value,
    pub message: String,
}

#[derive(Default, Debug)]
pub struct Stats {
    pub evaluations: u64,
    pub nontrivial: HashSet<u64>,
    /// non-trivial cases counted without hashing (exhaustive enumerations: distinct by index)
    pub nontrivial_direct: u64,
    pub classes: BTreeMap<String, u64>,
    pub skipped: BTreeMap<String, u64>,
    pub known_hits: BTreeMap<String, u64>,
    pub samples: Vec<Value>,
    pub failures: Vec<Failure>,
    pub per_driver: BTreeMap<String, u64>,
    pub exhaustive_drivers: Vec<String>,
    pub extra: BTreeMap<String, Value>,
}

impl Stats {
    pub fn merge(&mut self, o: Stats) {
        self.evaluations += o.evaluations;
        self.nontrivial.extend(o.nontrivial);
        self.nontrivial_direct += o.nontrivial_direct;
        for (k, v) in o.classes {
            *self.classes.entry(k).or_default() += v;
        }
        for (k, v) in o.skipped {
            *self.skipped.entry(k).or_default() += v;
        }
        for (k, v) in o.known_hits {
            *self.known_hits.entry(k).or_default() += v;
        }
        for (k, v) in o.per_driver {
            *self.per_driver.entry(k).or_default() += v;
        }
        for s in o.samples {
            if self.samples.len() < 24 {
                self.samples.push(s);
            }
        }
        self.failures.extend(o.failures);
        self.exhaustive_drivers.extend(o.exhaustive_drivers);
        for (k, v) in o.extra {
            self.extra.insert(k, v);
        }
    }

    pub fn add_extra_count(&mut self, key: &str, n: u64) {
        let cur = self.extra.get(key).and_then(|v| v.as_u64()).unwrap_or(0);
        self.extra.insert(key.to_string(), json!(cur + n));
    }
}

pub fn hash_of<T: Hash>(t: &T) -> u64 {
    let mut h = DefaultHasher::new();
    t.hash(&mut h);
    h.finish()
}

pub fn hash_str(s: &str) -> u64 {
    hash_of(&s)
}

// ---------------------------------------------------------------------------------------------
// Panic capture

thread_local! {
    static LAST_PANIC: RefCell<Option<String>> = const { RefCell::new(None) };
    static QUIET: RefCell<bool> = const { RefCell::new(false) };
}

pub fn install_panic_hook() {
    let default = std::panic::take_hook();
    std::panic::set_hook(Box::new(move |info| {
        let quiet = QUIET.with(|q| *q.borrow());
        let msg = format!("{info}");
        LAST_PANIC.with(|p| *p.borrow_mut() = Some(msg));
        if !quiet {
            default(info);
        }
    }));
}

/// Runs `f`, turning a panic into `Err(message)`.
pub fn guarded<T>(f: impl FnOnce() -> T) -> Result<T, String> {
    QUIET.with(|q| *q.borrow_mut() = true);
    LAST_PANIC.with(|p| *p.borrow_mut() = None);
    let r = catch_unwind(AssertUnwindSafe(f));
    QUIET.with(|q| *q.borrow_mut() = false);
    match r {
        Ok(v) => Ok(v),
        Err(_) => Err(LAST_PANIC
            .with(|p| p.borrow_mut().take())
            .unwrap_or_else(|| "panic (no message)".to_string())),
    }
}

// ---------------------------------------------------------------------------------------------
// Known findings

#[derive(Clone, Debug, serde::Deserialize)]
pub struct KnownFinding {
    pub property: String,
    pub status: String,
    pub key: String,
    pub what: String,
    #[serde(default)]
    pub commit: Option<String>,
}

pub fn load_known() -> Vec<KnownFinding> {
    let path = format!("{VERIF_ROOT}/known_findings.json");
    match std::fs::read_to_string(&path) {
        Ok(s) => serde_json::from_str(&s).unwrap_or_else(|e| {
            eprintln!("cannot parse {path}: {e}");
            std::process::exit(2)
        }),
        Err(_) => vec![],
    }
}

static OPEN_KEYS: Mutex<Vec<(String, String)>> = Mutex::new(Vec::new());

pub fn init_known(prop: &str) -> Vec<KnownFinding> {
    let all = load_known();
    let mut open = OPEN_KEYS.lock().unwrap();
    open.clear();
    for k in &all {
        if k.property == prop && k.status == "open" {
            open.push((k.property.clone(), k.key.clone()));
        }
    }
    all.into_iter().filter(|k| k.property == prop).collect()
}

pub fn is_open_known(key: &str) -> bool {
    OPEN_KEYS.lock().unwrap().iter().any(|(_, k)| k == key)
}

// ---------------------------------------------------------------------------------------------
// Drivers

/// A named (case type, check function) pair. `known` classifies a failing case as an instance of a
/// known finding (by key); it is consulted only for failing cases.
pub struct Driver<C> {
    pub prop: &'static str,
    pub name: &'static str,
    pub check: fn(&C) -> Outcome,
    pub known: fn(&C, &str) -> Option<&'static str>,
}

fn no_known<C>(_: &C, _: &str) -> Option<&'static str> {
    None
}

impl<C> Driver<C>
where
    C: Debug + Clone + Serialize + DeserializeOwned + Send + 'static,
{
    pub const fn new(prop: &'static str, name: &'static str, check: fn(&C) -> Outcome) -> Self {
        Driver { prop, name, check, known: no_known::<C> }
    }

    pub const fn with_known(mut self, known: fn(&C, &str) -> Option<&'static str>) -> Self {
        self.known = known;
        self
    }

    /// Evaluates one case, with panic capture and known-finding classification. Returns the
    /// outcome with known failures converted to Pass (and the key reported separately).
    pub fn eval(&self, case: &C) -> (Outcome, Option<&'static str>) {
        let out = match guarded(|| (self.check)(case)) {
            Ok(o) => o,
            Err(p) => Outcome::fail(format!("panic: {p}")),
        };
        if let Verdict::Fail(msg) = &out.verdict {
            if let Some(key) = (self.known)(case, msg) {
                if is_open_known(key) {
                    return (
                        Outcome { verdict: Verdict::Pass, nontrivial: false, classes: out.classes },
                        Some(key),
                    );
                }
            }
        }
        (out, None)
    }

    pub fn record(&self, st: &mut Stats, case: &C, out: &Outcome, known: Option<&'static str>) {
        self.record2(st, case, out, known, false)
    }

    fn record2(&self, st: &mut Stats, case: &C, out: &Outcome, known: Option<&'static str>, by_index: bool) {
        st.evaluations += 1;
        *st.per_driver.entry(self.name.to_string()).or_default() += 1;
        if let Some(k) = known {
            *st.known_hits.entry(k.to_string()).or_default() += 1;
            return;
        }
        for c in &out.classes {
            *st.classes.entry(format!("{}:{}", self.name, c)).or_default() += 1;
        }
        match &out.verdict {
            Verdict::Skip(why) => {
                *st.skipped.entry(format!("{}:{}", self.name, why)).or_default() += 1;
            }
            Verdict::Pass => {
                if out.nontrivial && by_index {
                    st.nontrivial_direct += 1;
                    let n = st.per_driver[self.name];
                    if st.samples.len() < 6 && is_sample_point(n) {
                        st.samples.push(json!({"driver": self.name, "case": serde_json::to_value(case).unwrap_or(Value::Null)}));
                    }
                } else if out.nontrivial {
                    let js = serde_json::to_string(case).unwrap_or_default();
                    let h = hash_of(&(self.name, &js));
                    let n = st.per_driver[self.name];
                    if st.nontrivial.insert(h) && st.samples.len() < 6 && is_sample_point(n) {
                        st.samples.push(json!({"driver": self.name, "case": serde_json::to_value(case).unwrap_or(Value::Null)}));
                    }
                }
            }
            Verdict::Fail(_) => {}
        }
    }

    /// Evaluate explicit cases (regression lists, catalogues).
    pub fn run_list(&self, st: &mut Stats, cases: &[C]) {
        for c in cases {
            let (out, known) = self.eval(c);
            self.record(st, c, &out, known);
            if let Verdict::Fail(msg) = &out.verdict {
                st.failures.push(Failure {
                    driver: self.name.to_string(),
                    case: serde_json::to_value(c).unwrap(),
                    message: msg.clone(),
                });
            }
        }
    }

    /// Parallel evaluation of explicit cases.
    pub fn run_list_par(&self, ctx: &Ctx, st: &mut Stats, cases: Vec<C>)
    where
        C: Sync,
    {
        let n = cases.len() as u64;
        let cases = &cases;
        self.run_exhaustive_inner(ctx, st, n, &|i| Some(cases[i as usize].clone()), false);
    }

    /// Exhaustive enumeration: `decode(i)` for every `i < total` (None = index not a valid case).
    pub fn run_exhaustive(
        &self,
        ctx: &Ctx,
        st: &mut Stats,
        total: u64,
        decode: &(dyn Fn(u64) -> Option<C> + Sync),
    ) {
        self.run_exhaustive_inner(ctx, st, total, decode, true);
    }

    fn run_exhaustive_inner(
        &self,
        ctx: &Ctx,
        st: &mut Stats,
        total: u64,
        decode: &(dyn Fn(u64) -> Option<C> + Sync),
        mark: bool,
    ) {
        let threads = ctx.threads.max(1) as u64;
        #[allow(non_snake_case)]
        let results: Vec<(Stats, Option<(u64, C, String)>)> = std::thread::scope(|s| {
            let mut hs = vec![];
            for t in 0..threads {
                let h = std::thread::Builder::new()
                    .stack_size(256 << 20)
                    .spawn_scoped(s, move || {
                        let mut local = Stats::default();
                        let mut first_fail: Option<(u64, C, String)> = None;
                        let BLOCK: u64 = (total / (threads * 8)).clamp(1, 2048);
                        let mut block = t;
                        'outer: while block * BLOCK < total {
                            let end = ((block + 1) * BLOCK).min(total);
                            for i in block * BLOCK..end {
                                if dev_div() > 1 && i % dev_div() != 0 {
                                    continue;
                                }
                                if let Some(c) = decode(i) {
                                    let (out, known) = self.eval(&c);
                                    self.record2(&mut local, &c, &out, known, mark);
                                    if let Verdict::Fail(msg) = out.verdict {
                                        first_fail = Some((i, c, msg));
                                        break 'outer;
                                    }
                                }
                            }
                            block += threads;
                        }
                        (local, first_fail)
                    })
                    .unwrap();
                hs.push(h);
            }
            hs.into_iter().map(|h| h.join().expect("worker panicked")).collect()
        });
        let mut best: Option<(u64, C, String)> = None;
        let mut any_fail = false;
        for (local, ff) in results {
            st.merge(local);
            if let Some(f) = ff {
                any_fail = true;
                if best.as_ref().is_none_or(|b| f.0 < b.0) {
                    best = Some(f);
                }
            }
        }
        if let Some((_, c, msg)) = best {
            st.failures.push(Failure {
                driver: self.name.to_string(),
                case: serde_json::to_value(&c).unwrap(),
                message: msg,
            });
        }
        if mark && !any_fail {
            st.exhaustive_drivers.push(self.name.to_string());
        }
    }

    /// Random generation with proptest (shrinking on failure). `cases` is the total number of
    /// cases over all worker threads; each worker has its own fixed seed.
    pub fn run_random<S, MK>(&self, ctx: &Ctx, st: &mut Stats, cases: u64, mk: MK)
    where
        S: Strategy<Value = C>,
        MK: Fn() -> S + Sync,
    {
        let cases = (cases / dev_div()).max(1);
        let threads = (ctx.threads.max(1) as u64).min(cases.max(1));
        let per = cases.div_ceil(threads);
        let results: Vec<(Stats, Option<Failure>)> = std::thread::scope(|s| {
            let mut hs = vec![];
            for t in 0..threads {
                let mk = &mk;
                let h = std::thread::Builder::new()
                    .stack_size(256 << 20)
                    .spawn_scoped(s, move || {
                        let seed = ctx
                            .seed
                            .wrapping_mul(0x9E37_79B9_7F4A_7C15)
                            .wrapping_add(hash_str(self.name))
                            .wrapping_add(t.wrapping_mul(0x1000_0001));
                        let cfg = Config {
                            cases: per as u32,
                            failure_persistence: None,
                            rng_seed: RngSeed::Fixed(seed),
                            max_shrink_iters: 100_000,
                            max_global_rejects: 1 << 30,
                            ..Config::default()
                        };
                        let mut runner = TestRunner::new(cfg);
                        let local = RefCell::new(Stats::default());
                        let failed = RefCell::new(false);
                        let strat = mk();
                        let res = runner.run(&strat, |c| {
                            let (out, known) = self.eval(&c);
                            if !*failed.borrow() {
                                self.record(&mut local.borrow_mut(), &c, &out, known);
                            }
                            match out.verdict {
                                Verdict::Fail(msg) => {
                                    *failed.borrow_mut() = true;
                                    Err(TestCaseError::fail(msg))
                                }
                                _ => Ok(()),
                            }
                        });
                        let failure = match res {
                            Ok(()) => None,
                            Err(TestError::Fail(reason, c)) => Some(Failure {
                                driver: self.name.to_string(),
                                case: serde_json::to_value(&c).unwrap(),
                                message: reason.message().to_string(),
                            }),
                            Err(TestError::Abort(reason)) => {
                                eprintln!(
                                    "[{}:{}] proptest aborted: {}",
                                    self.prop,
                                    self.name,
                                    reason.message()
                                );
                                None
                            }
                        };
                        (local.into_inner(), failure)
                    })
                    .unwrap();
                hs.push(h);
            }
            hs.into_iter().map(|h| h.join().expect("worker panicked")).collect()
        });
        for (local, f) in results {
            st.merge(local);
            if let Some(f) = f {
                st.failures.push(f);
            }
        }
    }

    /// Replays a serialised case. Strict: known findings are *not* suppressed.
    pub fn replay(&self, case: &Value) -> Result<Outcome, String> {
        let c: C = serde_json::from_value(case.clone()).map_err(|e| format!("bad case: {e}"))?;
        Ok(match guarded(|| (self.check)(&c)) {
            Ok(o) => o,
            Err(p) => Outcome::fail(format!("panic: {p}")),
        })
    }

    /// Replay that reports whether the failing case is a known finding.
    pub fn replay_known(&self, case: &Value) -> Result<(Outcome, Option<&'static str>), String> {
        let c: C = serde_json::from_value(case.clone()).map_err(|e| format!("bad case: {e}"))?;
        Ok(self.eval(&c))
    }
}

fn is_sample_point(n: u64) -> bool {
    // log-spaced sample points: 1,2,3,10,30,100,300,1000,...
    if n <= 3 {
        return true;
    }
    let mut p = 10u64;
    while p <= n {
        if n == p || n == 3 * p {
            return true;
        }
        p = p.saturating_mul(10);
    }
    false
}

// ---------------------------------------------------------------------------------------------
// Evidence, violations, exit code

pub struct PropInfo {
    pub id: &'static str,
    pub level: &'static str,
    pub rule: &'static str,
    pub assumptions: &'static [&'static str],
}

pub fn write_replay(prop: &str, f: &Failure) -> PathBuf {
    let dir = PathBuf::from(format!("{}/replays/{prop}", out_root()));
    std::fs::create_dir_all(&dir).ok();
    let body = json!({"property": prop, "driver": f.driver, "case": f.case, "message": f.message});
    let text = serde_json::to_string_pretty(&body).unwrap();
    let h = hash_str(&serde_json::to_string(&json!([f.driver, f.case])).unwrap());
    let path = dir.join(format!("{}-{:016x}.json", f.driver, h));
    std::fs::write(&path, text).ok();
    path
}

/// Finishes a run: prints KNOWN-FINDING / VIOLATION lines, writes the evidence file, returns the
/// exit code.
pub fn finish(
    info: &PropInfo,
    ctx: &Ctx,
    st: &Stats,
    known: &[KnownFinding],
    started: Instant,
) -> i32 {
    let wall = started.elapsed().as_secs_f64();
    let mut seen = HashSet::new();
    let mut violations = 0;
    let mut per_driver_reported: BTreeMap<String, u32> = BTreeMap::new();
    for f in &st.failures {
        let key = serde_json::to_string(&json!([f.driver, f.case])).unwrap();
        if !seen.insert(key) {
            continue;
        }
        violations += 1;
        // findings of the libFuzzer stage are reported under their own cap so that they are not
        // hidden behind the same driver's proptest findings
        let cap_key = if f.message.contains("libFuzzer") { format!("{}#fuzz", f.driver) } else { f.driver.clone() };
        let n = per_driver_reported.entry(cap_key).or_default();
        *n += 1;
        if *n > 5 {
            continue; // counted, but do not flood the output
        }
        let path = write_replay(info.id, f);
        println!("VIOLATION property={} replay={}", info.id, path.display());
        println!("  driver={} message={}", f.driver, f.message.replace('\n', "\\n"));
        println!("  case={}", serde_json::to_string(&f.case).unwrap());
    }
    for k in known {
        if k.status == "open" {
            let hits = st.known_hits.get(&k.key).copied().unwrap_or(0);
            println!(
                "KNOWN-FINDING: property={} {} [key={} reproduced_in_this_run={}]",
                info.id, k.what, k.key, hits
            );
        }
    }
    let exhaustive = !st.exhaustive_drivers.is_empty() && st.exhaustive_drivers.len() == st.per_driver.len();
    let mut coverage = serde_json::Map::new();
    coverage.insert("evaluations".into(), json!(st.evaluations));
    coverage.insert("distinct_nontrivial".into(), json!(st.nontrivial.len() as u64 + st.nontrivial_direct));
    coverage.insert("rule".into(), json!(info.rule));
    coverage.insert("samples".into(), json!(st.samples));
    coverage.insert("exhaustive".into(), json!(exhaustive));
    coverage.insert("exhaustive_drivers".into(), json!(st.exhaustive_drivers));
    coverage.insert("per_driver_evaluations".into(), json!(st.per_driver));
    coverage.insert("classes".into(), json!(st.classes));
    coverage.insert("unspecified_skipped".into(), json!(st.skipped));
    coverage.insert("known_excluded".into(), json!(st.known_hits));
    for (k, v) in &st.extra {
        coverage.insert(k.clone(), v.clone());
    }
    let ev = json!({
        "property_id": info.id,
        "tier": ctx.tier.name(),
        "seed": ctx.seed,
        "level": info.level,
        "coverage": Value::Object(coverage),
        "assumptions": info.assumptions,
        "wall_s": wall,
        "violations": violations,
    });
    let dir = format!("{}/evidence", out_root());
    std::fs::create_dir_all(&dir).ok();
    let path = format!("{dir}/{}.json", info.id);
    if let Err(e) = std::fs::write(&path, serde_json::to_string_pretty(&ev).unwrap()) {
        eprintln!("cannot write {path}: {e}");
        return 2;
    }
    println!(
        "[{}] tier={} seed={} evaluations={} distinct_nontrivial={} skipped={} known_excluded={} violations={} wall={:.1}s",
        info.id,
        ctx.tier.name(),
        ctx.seed,
        st.evaluations,
        st.nontrivial.len() as u64 + st.nontrivial_direct,
        st.skipped.values().sum::<u64>(),
        st.known_hits.values().sum::<u64>(),
        violations,
        wall
    );
    if violations > 0 {
        1
    } else if let Some(why) = st.extra.get("inconclusive") {
        eprintln!("[{}] inconclusive: {why}", info.id);
        2
    } else {
        0
    }
}

/// Loads every regression case file of a property: (driver, case).
pub fn load_regress(prop: &str) -> Vec<(String, Value, String)> {
    let dir = format!("{VERIF_ROOT}/regress/{prop}");
    let mut out = vec![];
    let Ok(rd) = std::fs::read_dir(&dir) else { return out };
    let mut paths: Vec<_> = rd.filter_map(|e| e.ok()).map(|e| e.path()).collect();
    paths.sort();
    for p in paths {
        if p.extension().and_then(|e| e.to_str()) != Some("json") {
            continue;
        }
        let Ok(text) = std::fs::read_to_string(&p) else { continue };
        let Ok(v) = serde_json::from_str::<Value>(&text) else {
            eprintln!("bad regress file {}", p.display());
            continue;
        };
        let driver = v["driver"].as_str().unwrap_or("").to_string();
        out.push((driver, v["case"].clone(), p.display().to_string()));
    }
    out
}

/// Development only (coverage measurements with an instrumented, slow binary): VERIF_DEV_DIV=k
/// runs 1/k of every driver's cases. No registered command sets it.
pub fn dev_div() -> u64 {
    static DIV: std::sync::OnceLock<u64> = std::sync::OnceLock::new();
    *DIV.get_or_init(|| std::env::var("VERIF_DEV_DIV").ok().and_then(|s| s.parse().ok()).unwrap_or(1).max(1))
}

/// Monotone index mapping (keeps proptest shrinking effective).
pub fn pick_idx(raw: u16, len: usize) -> usize {
    ((raw as usize) * len) >> 16
}
