//! Reference model of POSIX word expansion (XCU 2.6) over the harness' own word AST:
//! quoting, parameter expansion forms, `$@`/`$*`, field splitting, nounset, and the `read`
//! built-in's line splitting. Written from POSIX.1-2024 and docs/src/language/words; it never
//! calls yash-semantics.

use super::fnmatch::{self as fm, PC, TrimKind};
use serde::{Deserialize, Serialize};
use std::collections::BTreeMap;

#[derive(Clone, Debug, PartialEq, Eq, Hash, Serialize, Deserialize)]
pub enum Name {
    Var(String),
    Pos(u8),
    Hash,
    At,
    Star,
}

#[derive(Clone, Copy, Debug, PartialEq, Eq, Hash, Serialize, Deserialize)]
pub enum SwitchKind {
    Default, // -
    Assign,  // =
    Error,   // ?
    Alter,   // +
}

#[derive(Clone, Debug, PartialEq, Eq, Hash, Serialize, Deserialize)]
pub enum Form {
    /// `$x` (false) or `${x}` (true)
    Plain(bool),
    Length,
    Switch { kind: SwitchKind, colon: bool, word: Vec<Unit> },
    Trim { kind: TrimKind, pattern: Vec<Unit> },
}

#[derive(Clone, Debug, PartialEq, Eq, Hash, Serialize, Deserialize)]
pub struct Param {
    pub name: Name,
    pub form: Form,
}

#[derive(Clone, Debug, PartialEq, Eq, Hash, Serialize, Deserialize)]
pub enum DUnit {
    Lit(char),
    /// backslash followed by this char, inside double quotes
    Esc(char),
    Param(Param),
    Cmd(Cmd),
    Arith(i32),
}

/// A command substitution whose command prints `text` and a newline: `$(echo 'text')` or
/// `` `echo 'text'` ``. `text` contains no single quote, and no backslash in the backquote form.
#[derive(Clone, Debug, PartialEq, Eq, Hash, Serialize, Deserialize)]
pub struct Cmd {
    pub text: String,
    pub backquote: bool,
}

impl Cmd {
    /// what the substitution yields: the output minus all trailing newlines
    pub fn output(&self) -> String {
        self.text.trim_end_matches('\n').to_string()
    }
    fn render(&self, out: &mut String) {
        assert!(!self.text.contains('\'') && !(self.backquote && self.text.contains('\\')));
        if self.backquote {
            out.push_str("`echo '");
            out.push_str(&self.text);
            out.push_str("'`");
        } else {
            out.push_str("$(echo '");
            out.push_str(&self.text);
            out.push_str("')");
        }
    }
}

fn render_arith(n: i32, out: &mut String) {
    out.push_str(&format!("$(({n}))"));
}

#[derive(Clone, Debug, PartialEq, Eq, Hash, Serialize, Deserialize)]
pub enum Unit {
    Lit(char),
    Esc(char),
    SQ(String),
    DQ(Vec<DUnit>),
    Param(Param),
    /// unquoted command substitution: its result is subject to field splitting
    Cmd(Cmd),
    /// unquoted arithmetic expansion of a constant: its digits are subject to field splitting
    Arith(i32),
}

#[derive(Clone, Debug, PartialEq, Eq, Hash, Serialize, Deserialize)]
pub struct State {
    pub vars: BTreeMap<String, String>,
    pub positional: Vec<String>,
    /// None = unset
    pub ifs: Option<String>,
    pub nounset: bool,
}

// ---------------------------------------------------------------------------------------------
// Rendering

fn render_name(n: &Name, out: &mut String) {
    match n {
        Name::Var(v) => out.push_str(v),
        Name::Pos(i) => out.push_str(&i.to_string()),
        Name::Hash => out.push('#'),
        Name::At => out.push('@'),
        Name::Star => out.push('*'),
    }
}

fn render_param(p: &Param, out: &mut String, in_dq: bool) {
    match &p.form {
        Form::Plain(false) => {
            out.push('$');
            render_name(&p.name, out);
        }
        Form::Plain(true) => {
            out.push_str("${");
            render_name(&p.name, out);
            out.push('}');
        }
        Form::Length => {
            out.push_str("${#");
            render_name(&p.name, out);
            out.push('}');
        }
        Form::Switch { kind, colon, word } => {
            out.push_str("${");
            render_name(&p.name, out);
            if *colon {
                out.push(':');
            }
            out.push(match kind {
                SwitchKind::Default => '-',
                SwitchKind::Assign => '=',
                SwitchKind::Error => '?',
                SwitchKind::Alter => '+',
            });
            render_units(word, out, in_dq, true);
            out.push('}');
        }
        Form::Trim { kind, pattern } => {
            out.push_str("${");
            render_name(&p.name, out);
            out.push_str(match kind {
                TrimKind::PrefixShortest => "#",
                TrimKind::PrefixLongest => "##",
                TrimKind::SuffixShortest => "%",
                TrimKind::SuffixLongest => "%%",
            });
            render_units(pattern, out, in_dq, true);
            out.push('}');
        }
    }
}

/// Renders units. `in_dq`: we are textually inside double quotes (only Lit and Param units are
/// generated there). `in_brace`: inside `${...}` so `}` would need care (never generated).
pub fn render_units(units: &[Unit], out: &mut String, in_dq: bool, _in_brace: bool) {
    for u in units {
        match u {
            Unit::Lit(c) => out.push(*c),
            Unit::Esc(c) => {
                out.push('\\');
                out.push(*c);
            }
            Unit::SQ(s) => {
                out.push('\'');
                out.push_str(s);
                out.push('\'');
            }
            Unit::DQ(ds) => {
                out.push('"');
                for d in ds {
                    match d {
                        DUnit::Lit(c) => out.push(*c),
                        DUnit::Esc(c) => {
                            out.push('\\');
                            out.push(*c);
                        }
                        DUnit::Param(p) => render_param(p, out, true),
                        DUnit::Cmd(c) => c.render(out),
                        DUnit::Arith(n) => render_arith(*n, out),
                    }
                }
                out.push('"');
            }
            Unit::Param(p) => render_param(p, out, in_dq),
            Unit::Cmd(c) => c.render(out),
            Unit::Arith(n) => render_arith(*n, out),
        }
    }
}

pub fn render_word(units: &[Unit]) -> String {
    let mut s = String::new();
    render_units(units, &mut s, false, false);
    s
}

// ---------------------------------------------------------------------------------------------
// Expansion

/// Attributed character of an intermediate expansion result.
#[derive(Clone, Copy, Debug, PartialEq, Eq)]
pub struct AC {
    pub c: char,
    /// result of an unquoted expansion: subject to field splitting
    pub split: bool,
    /// quoted: never a pattern character
    pub quoted: bool,
    /// zero-width marker: a quoting construct was here (keeps an otherwise empty field)
    pub mark: bool,
}

const MARK: AC = AC { c: '\0', split: false, quoted: true, mark: true };

#[derive(Clone, Debug, PartialEq, Eq)]
pub enum Phrase {
    /// `$@`/`$*` with no positional parameters: generates nothing, neutral in concatenation
    Zero,
    Fields(Vec<Vec<AC>>),
}

impl Phrase {
    fn one(v: Vec<AC>) -> Phrase {
        Phrase::Fields(vec![v])
    }
    fn append(self, other: Phrase) -> Phrase {
        match (self, other) {
            (Phrase::Zero, x) | (x, Phrase::Zero) => x,
            (Phrase::Fields(mut a), Phrase::Fields(b)) => {
                let mut it = b.into_iter();
                if let Some(first) = it.next() {
                    a.last_mut().unwrap().extend(first);
                }
                a.extend(it);
                Phrase::Fields(a)
            }
        }
    }
}

#[derive(Clone, Debug, PartialEq, Eq)]
pub enum Stop {
    /// expansion error: the command must not run, the shell exits with non-zero status
    Error { message: Option<String> },
    Unspecified(&'static str),
}

#[derive(Clone, Debug, PartialEq, Eq)]
pub enum Expect {
    /// any of these field lists is acceptable (usually exactly one)
    Fields(Vec<Vec<String>>),
    Error { message: Option<String> },
    Unspecified(&'static str),
}

pub struct Expander {
    pub st: State,
}

fn ifs_of(st: &State) -> String {
    match &st.ifs {
        None => " \t\n".to_string(),
        Some(s) => s.clone(),
    }
}

fn is_ifs_ws(c: char) -> bool {
    c == ' ' || c == '\t' || c == '\n'
}

impl Expander {
    fn lookup(&self, n: &Name) -> Option<String> {
        match n {
            Name::Var(v) => {
                if v == "IFS" {
                    return self.st.ifs.clone();
                }
                self.st.vars.get(v).cloned()
            }
            Name::Pos(i) => self.st.positional.get((*i as usize).wrapping_sub(1)).cloned(),
            Name::Hash => Some(self.st.positional.len().to_string()),
            Name::At | Name::Star => unreachable!(),
        }
    }

    fn chars(s: &str, split: bool, quoted: bool) -> Vec<AC> {
        s.chars().map(|c| AC { c, split, quoted, mark: false }).collect()
    }

    /// Expands a parameter. `dq`: inside double quotes.
    fn param(&mut self, p: &Param, dq: bool) -> Result<Phrase, Stop> {
        let multi = matches!(p.name, Name::At | Name::Star);
        if multi {
            return self.param_multi(p, dq);
        }
        let value = self.lookup(&p.name);
        let result: Vec<AC> = match &p.form {
            Form::Plain(_) => match value {
                Some(v) => Self::chars(&v, !dq, dq),
                None => {
                    if self.st.nounset {
                        return Err(Stop::Error { message: None });
                    }
                    vec![]
                }
            },
            Form::Length => match value {
                Some(v) => Self::chars(&v.chars().count().to_string(), !dq, dq),
                None => {
                    if self.st.nounset {
                        return Err(Stop::Error { message: None });
                    }
                    Self::chars("0", !dq, dq)
                }
            },
            Form::Switch { kind, colon, word } => {
                let vacant = match &value {
                    None => true,
                    Some(v) => *colon && v.is_empty(),
                };
                match kind {
                    SwitchKind::Default => {
                        if vacant {
                            return self.switch_word(word, dq);
                        }
                        Self::chars(value.as_deref().unwrap(), !dq, dq)
                    }
                    SwitchKind::Alter => {
                        if !vacant {
                            return self.switch_word(word, dq);
                        }
                        vec![]
                    }
                    SwitchKind::Error => {
                        if vacant {
                            let msg = self.word_to_string(word, dq)?;
                            return Err(Stop::Error { message: if msg.is_empty() { None } else { Some(msg) } });
                        }
                        Self::chars(value.as_deref().unwrap(), !dq, dq)
                    }
                    SwitchKind::Assign => {
                        if vacant {
                            let Name::Var(name) = &p.name else {
                                // expansion of the word may fail first with another error; either
                                // way it is an error
                                return Err(Stop::Error { message: None });
                            };
                            let v = self.word_to_string(word, dq)?;
                            if name == "IFS" {
                                self.st.ifs = Some(v.clone());
                            } else {
                                self.st.vars.insert(name.clone(), v.clone());
                            }
                            Self::chars(&v, !dq, dq)
                        } else {
                            Self::chars(value.as_deref().unwrap(), !dq, dq)
                        }
                    }
                }
            }
            Form::Trim { kind, pattern } => {
                let Some(v) = value else {
                    if self.st.nounset {
                        return Err(Stop::Error { message: None });
                    }
                    // the pattern is still expanded (it may have side effects / errors)
                    let _ = self.pattern_chars(pattern)?;
                    return Ok(Phrase::one(if dq { vec![MARK] } else { vec![] }));
                };
                let pcs = self.pattern_chars(pattern)?;
                let atoms = match fm::parse(&pcs) {
                    Ok(a) => a,
                    Err(w) => return Err(Stop::Unspecified(w)),
                };
                let t: Vec<char> = v.chars().collect();
                let r = fm::trim(&atoms, &t, *kind);
                Self::chars(&r, !dq, dq)
            }
        };
        let mut r = result;
        if dq {
            // quoted expansion: the surrounding double quotes supply the mark; nothing here
        }
        let _ = &mut r;
        Ok(Phrase::one(r))
    }

    /// `$@` / `$*`
    fn param_multi(&mut self, p: &Param, dq: bool) -> Result<Phrase, Stop> {
        if !matches!(p.form, Form::Plain(_)) {
            return Err(Stop::Unspecified("modifier applied to $@ or $*"));
        }
        let params = self.st.positional.clone();
        let star = p.name == Name::Star;
        if dq && star {
            let ifs = ifs_of(&self.st);
            let sep: String = match &self.st.ifs {
                None => " ".to_string(),
                Some(_) => ifs.chars().next().map(|c| c.to_string()).unwrap_or_default(),
            };
            let joined = params.join(&sep);
            return Ok(Phrase::one(Self::chars(&joined, false, true)));
        }
        if params.is_empty() {
            return Ok(Phrase::Zero);
        }
        if dq {
            // "$@": one quoted field per parameter, kept even if empty
            let fields = params
                .iter()
                .map(|v| {
                    let mut f = vec![MARK];
                    f.extend(Self::chars(v, false, true));
                    f
                })
                .collect();
            return Ok(Phrase::Fields(fields));
        }
        // unquoted $@ / $*: one field per parameter, each further split
        let fields = params.iter().map(|v| Self::chars(v, true, false)).collect();
        Ok(Phrase::Fields(fields))
    }

    /// Word of a `-`/`+` switch used as the result.
    fn switch_word(&mut self, word: &[Unit], dq: bool) -> Result<Phrase, Stop> {
        if dq {
            // inside double quotes the word is expanded as if in double quotes (only Lit and
            // simple Param units are generated there)
            let mut v = vec![];
            for u in word {
                match u {
                    Unit::Lit(c) => v.push(AC { c: *c, split: false, quoted: true, mark: false }),
                    Unit::Param(p) => match self.param(p, true)? {
                        Phrase::Fields(f) if f.len() == 1 => v.extend(f.into_iter().next().unwrap()),
                        _ => return Err(Stop::Unspecified("$@ inside a modifier word")),
                    },
                    _ => return Err(Stop::Unspecified("quoting inside a modifier word inside double quotes")),
                }
            }
            return Ok(Phrase::one(v));
        }
        // unquoted: literal characters of the word count as results of the expansion (subject to
        // field splitting) unless quoted inside the word
        let mut acc = Phrase::one(vec![]);
        for u in word {
            let ph = match u {
                Unit::Lit(c) => Phrase::one(vec![AC { c: *c, split: true, quoted: false, mark: false }]),
                Unit::Param(p) => {
                    if matches!(p.name, Name::At | Name::Star) {
                        return Err(Stop::Unspecified("$@ inside a modifier word"));
                    }
                    self.param(p, false)?
                }
                other => self.unit(other)?,
            };
            acc = acc.append(ph);
        }
        Ok(acc)
    }

    /// Expands a modifier word to a plain string (quote removal done): `=` and `?` forms.
    fn word_to_string(&mut self, word: &[Unit], dq: bool) -> Result<String, Stop> {
        let ph = self.switch_word(word, dq)?;
        match ph {
            Phrase::Zero => Ok(String::new()),
            Phrase::Fields(f) => {
                if f.len() != 1 {
                    return Err(Stop::Unspecified("multi-field modifier word"));
                }
                Ok(f[0].iter().filter(|a| !a.mark).map(|a| a.c).collect())
            }
        }
    }

    /// Expands a trim pattern to pattern characters.
    fn pattern_chars(&mut self, pattern: &[Unit]) -> Result<Vec<PC>, Stop> {
        let mut out = vec![];
        for u in pattern {
            match u {
                Unit::Lit(c) => out.push(PC { c: *c, lit: false }),
                Unit::Esc(c) => out.push(PC { c: *c, lit: true }),
                Unit::SQ(s) => out.extend(s.chars().map(|c| PC { c, lit: true })),
                Unit::DQ(ds) => {
                    for d in ds {
                        match d {
                            DUnit::Lit(c) => out.push(PC { c: *c, lit: true }),
                            DUnit::Esc(c) => {
                                if matches!(c, '$' | '`' | '"' | '\\') {
                                    out.push(PC { c: *c, lit: true });
                                } else {
                                    out.push(PC { c: '\\', lit: true });
                                    out.push(PC { c: *c, lit: true });
                                }
                            }
                            DUnit::Param(p) => {
                                let ph = self.param(p, true)?;
                                let Phrase::Fields(f) = ph else { return Err(Stop::Unspecified("$@ in pattern")) };
                                if f.len() != 1 {
                                    return Err(Stop::Unspecified("$@ in pattern"));
                                }
                                out.extend(f[0].iter().filter(|a| !a.mark).map(|a| PC { c: a.c, lit: true }));
                            }
                            DUnit::Cmd(c) => out.extend(c.output().chars().map(|c| PC { c, lit: true })),
                            DUnit::Arith(n) => out.extend(n.to_string().chars().map(|c| PC { c, lit: true })),
                        }
                    }
                }
                Unit::Cmd(_) | Unit::Arith(_) => {
                    let text = match u {
                        Unit::Cmd(c) => c.output(),
                        Unit::Arith(n) => n.to_string(),
                        _ => unreachable!(),
                    };
                    if text.contains('\\') {
                        return Err(Stop::Unspecified("backslash produced by an unquoted expansion inside a pattern"));
                    }
                    out.extend(text.chars().map(|c| PC { c, lit: false }));
                }
                Unit::Param(p) => {
                    if matches!(p.name, Name::At | Name::Star) {
                        return Err(Stop::Unspecified("$@ in pattern"));
                    }
                    let ph = self.param(p, false)?;
                    let Phrase::Fields(f) = ph else { unreachable!() };
                    if f.len() != 1 {
                        return Err(Stop::Unspecified("multi-field pattern"));
                    }
                    for a in f[0].iter().filter(|a| !a.mark) {
                        if a.c == '\\' && !a.quoted {
                            // backslash from an unquoted expansion escapes the next character in a
                            // pattern (yash manual; POSIX 2.14.1) - keep the generator away from it
                            return Err(Stop::Unspecified("backslash produced by an unquoted expansion inside a pattern"));
                        }
                        out.push(PC { c: a.c, lit: a.quoted });
                    }
                }
            }
        }
        Ok(out)
    }

    fn unit(&mut self, u: &Unit) -> Result<Phrase, Stop> {
        Ok(match u {
            Unit::Lit(c) => Phrase::one(vec![AC { c: *c, split: false, quoted: false, mark: false }]),
            Unit::Esc(c) => Phrase::one(vec![MARK, AC { c: *c, split: false, quoted: true, mark: false }]),
            Unit::SQ(s) => {
                let mut v = vec![MARK];
                v.extend(Self::chars(s, false, true));
                Phrase::one(v)
            }
            Unit::DQ(ds) => {
                let mut acc = Phrase::one(vec![MARK]);
                let mut only_at = !ds.is_empty();
                let mut at_zero = false;
                for d in ds {
                    let ph = match d {
                        DUnit::Lit(c) => {
                            only_at = false;
                            Phrase::one(vec![AC { c: *c, split: false, quoted: true, mark: false }])
                        }
                        DUnit::Esc(c) => {
                            only_at = false;
                            if matches!(c, '$' | '`' | '"' | '\\') {
                                Phrase::one(vec![AC { c: *c, split: false, quoted: true, mark: false }])
                            } else {
                                Phrase::one(vec![
                                    AC { c: '\\', split: false, quoted: true, mark: false },
                                    AC { c: *c, split: false, quoted: true, mark: false },
                                ])
                            }
                        }
                        DUnit::Param(p) => {
                            let is_at = p.name == Name::At && matches!(p.form, Form::Plain(_));
                            if !is_at {
                                only_at = false;
                            }
                            let ph = self.param(p, true)?;
                            if is_at && ph == Phrase::Zero {
                                at_zero = true;
                            }
                            ph
                        }
                        DUnit::Cmd(c) => {
                            only_at = false;
                            Phrase::one(Self::chars(&c.output(), false, true))
                        }
                        DUnit::Arith(n) => {
                            only_at = false;
                            Phrase::one(Self::chars(&n.to_string(), false, true))
                        }
                    };
                    acc = acc.append(ph);
                }
                if at_zero {
                    if only_at && ds.len() == 1 {
                        // "$@" with no positional parameters: zero fields
                        return Ok(Phrase::Zero);
                    }
                    // "$@" with other parts inside the same double quotes: if all of those are
                    // empty POSIX leaves zero-or-one field unspecified
                    let Phrase::Fields(f) = &acc else { unreachable!() };
                    if f.len() == 1 && f[0].iter().all(|a| a.mark) {
                        return Err(Stop::Unspecified("\"$@\" with no parameters next to null parts in the same quotes"));
                    }
                }
                acc
            }
            Unit::Param(p) => self.param(p, false)?,
            Unit::Cmd(c) => Phrase::one(Self::chars(&c.output(), true, false)),
            Unit::Arith(n) => Phrase::one(Self::chars(&n.to_string(), true, false)),
        })
    }

    /// Field splitting of one initial field.
    fn split(&self, field: &[AC], out: &mut Vec<Vec<AC>>) {
        let ifs = ifs_of(&self.st);
        let mut cur: Vec<AC> = vec![];
        let mut started = false;
        // after a delimiter made of IFS white space only (a following non-ws IFS char joins it)
        let mut after_ws_delim = false;
        // after a non-ws delimiter (following IFS ws is absorbed)
        for a in field {
            let is_delim = a.split && !a.mark && ifs.contains(a.c);
            if is_delim && is_ifs_ws(a.c) {
                if started {
                    out.push(std::mem::take(&mut cur));
                    started = false;
                    after_ws_delim = true;
                }
                // leading / repeated white space: ignored
            } else if is_delim {
                if after_ws_delim && !started {
                    // white space + non-ws form one delimiter; the field was already pushed
                } else {
                    out.push(std::mem::take(&mut cur));
                    started = false;
                }
                after_ws_delim = false;
            } else {
                cur.push(*a);
                started = true;
                after_ws_delim = false;
            }
        }
        if started {
            out.push(cur);
        }
    }

    pub fn expand_word(&mut self, word: &[Unit]) -> Result<Vec<String>, Stop> {
        let mut acc = Phrase::one(vec![]);
        let mut saw_units = false;
        for u in word {
            saw_units = true;
            let ph = self.unit(u)?;
            acc = acc.append(ph);
        }
        let _ = saw_units;
        // a word made only of zero-phrases is Zero; `acc` started as one empty field, and
        // Zero.append keeps that empty field, which is dropped below because it has no mark.
        let Phrase::Fields(fields) = acc else { return Ok(vec![]) };
        let mut split = vec![];
        for f in &fields {
            self.split(f, &mut split);
        }
        Ok(split.into_iter().map(|f| f.iter().filter(|a| !a.mark).map(|a| a.c).collect()).collect())
    }
}

/// Does the word contain an unquoted `$@`/`$*` (top level or in an unquoted modifier word)?
fn has_unquoted_multi(word: &[Unit]) -> bool {
    word.iter().any(|u| matches!(u, Unit::Param(p) if matches!(p.name, Name::At | Name::Star)))
}

pub fn expect(word: &[Unit], st: &State) -> (Expect, State) {
    if word.iter().any(|u| matches!(u, Unit::Param(p) if matches!(p.name, Name::At | Name::Star) && !matches!(p.form, Form::Plain(_)))) {
        return (Expect::Unspecified("modifier applied to $@ or $*"), st.clone());
    }
    // unquoted $@/$* with an empty positional parameter: "may be discarded"
    if has_unquoted_multi(word) && st.positional.iter().any(|p| p.is_empty()) {
        if word.len() == 1 {
            let keep: Vec<String> = st.positional.clone();
            let drop: Vec<String> = st.positional.iter().filter(|p| !p.is_empty()).cloned().collect();
            // the non-empty ones are further split; only offer the two variants when no
            // parameter needs splitting
            let ifs = ifs_of(st);
            if st.positional.iter().all(|p| !p.chars().any(|c| ifs.contains(c))) {
                return (Expect::Fields(vec![drop, keep]), st.clone());
            }
        }
        return (Expect::Unspecified("unquoted $@/$* with an empty positional parameter"), st.clone());
    }
    let mut ex = Expander { st: st.clone() };
    match ex.expand_word(word) {
        Ok(f) => (Expect::Fields(vec![f]), ex.st),
        Err(Stop::Error { message }) => (Expect::Error { message }, ex.st),
        Err(Stop::Unspecified(w)) => (Expect::Unspecified(w), ex.st),
    }
}

// ---------------------------------------------------------------------------------------------
// read

#[derive(Clone, Debug, PartialEq, Eq)]
pub enum ReadExpect {
    Values(Vec<String>),
    Unspecified(&'static str),
}

/// Splits `line` (without its trailing newline) for `read [-r] v1..vn`.
pub fn read_split(line: &str, raw: bool, nvars: usize, ifs: &Option<String>) -> ReadExpect {
    let ifs_s = match ifs {
        None => " \t\n".to_string(),
        Some(s) => s.clone(),
    };
    // backslash processing: (char, escaped)
    let mut chars: Vec<(char, bool)> = vec![];
    let mut it = line.chars();
    while let Some(c) = it.next() {
        if c == '\\' && !raw {
            match it.next() {
                Some(n) => chars.push((n, true)),
                None => return ReadExpect::Unspecified("line ends with a backslash (continuation)"),
            }
        } else {
            chars.push((c, false));
        }
    }
    let is_delim = |(c, esc): (char, bool)| !esc && ifs_s.contains(c);
    let is_ws = |x: (char, bool)| is_delim(x) && is_ifs_ws(x.0);
    let mut values = vec![];
    let mut i = 0;
    let n = chars.len();
    // skip leading IFS white space
    while i < n && is_ws(chars[i]) {
        i += 1;
    }
    for _ in 0..nvars.saturating_sub(1) {
        // one field
        let mut f = String::new();
        if i >= n {
            values.push(f);
            continue;
        }
        while i < n && !is_delim(chars[i]) {
            f.push(chars[i].0);
            i += 1;
        }
        values.push(f);
        // consume the delimiter: IFS ws*, optionally one non-ws, then IFS ws*
        while i < n && is_ws(chars[i]) {
            i += 1;
        }
        if i < n && is_delim(chars[i]) && !is_ws(chars[i]) {
            i += 1;
            while i < n && is_ws(chars[i]) {
                i += 1;
            }
        }
    }
    // last variable: the rest, with trailing IFS white space removed
    let mut end = n;
    while end > i && is_ws(chars[end - 1]) {
        end -= 1;
    }
    let rest = &chars[i..end];
    if let Some(&last) = rest.last() {
        if is_delim(last) {
            // ends in a non-white-space delimiter: shells (and POSIX editions) differ on whether
            // it is kept
            return ReadExpect::Unspecified("remainder for the last variable ends in a non-white-space delimiter");
        }
    }
    values.push(rest.iter().map(|x| x.0).collect());
    ReadExpect::Values(values)
}

pub type Vars = BTreeMap<String, String>;
