//! Reference model of pathname expansion (POSIX XCU 2.14.3 + docs/src/language/words/globbing.md).
//!
//! Own directory-tree type, own POSIX path resolution (symbolic links, search permission), own
//! word type; component matching is delegated to the reference matcher `model::fnmatch`.
//! Nothing here calls yash-fnmatch, yash-semantics or the virtual file system.

use super::fnmatch::{self as fm, Atom, PC, Tri};
use serde::{Deserialize, Serialize};
use std::collections::VecDeque;

// ---------------------------------------------------------------------------------------------
// Directory tree

#[derive(Clone, Debug, PartialEq, Eq, Hash, Serialize, Deserialize)]
pub enum Node {
    File,
    /// `search` = x permission (mode 0o755 vs 0o644); read permission is always granted
    Dir { search: bool, entries: Vec<(String, Node)> },
    /// symbolic link with its target text
    Link(String),
}

/// The content of the shell's working directory `/work`.
#[derive(Clone, Debug, PartialEq, Eq, Hash, Serialize, Deserialize)]
pub struct Tree {
    pub entries: Vec<(String, Node)>,
}

pub const MAX_ENTRIES: usize = 12;
pub const MAX_DEPTH: usize = 3;

fn valid_name(n: &str) -> bool {
    !n.is_empty() && n != "." && n != ".." && !n.contains('/') && !n.contains('\0')
}

impl Tree {
    /// Canonical form: invalid and duplicate names dropped (first wins), depth <= 3, <= 12 entries
    /// (pre-order). Generators produce (almost) canonical trees; replayed cases are normalised too.
    pub fn normalized(&self) -> Tree {
        fn norm(entries: &[(String, Node)], depth: usize, budget: &mut usize) -> Vec<(String, Node)> {
            let mut out: Vec<(String, Node)> = vec![];
            for (name, node) in entries {
                if *budget == 0 {
                    break;
                }
                if !valid_name(name) || out.iter().any(|(n, _)| n == name) {
                    continue;
                }
                *budget -= 1;
                let node = match node {
                    Node::Dir { search, entries } => {
                        let sub = if depth < MAX_DEPTH { norm(entries, depth + 1, budget) } else { vec![] };
                        Node::Dir { search: *search, entries: sub }
                    }
                    Node::Link(t) if t.is_empty() || t.contains('\0') => Node::File,
                    n => n.clone(),
                };
                out.push((name.clone(), node));
            }
            out
        }
        let mut budget = MAX_ENTRIES;
        Tree { entries: norm(&self.entries, 1, &mut budget) }
    }

    /// Pre-order list of (path relative to /work, node) — used to materialise the tree.
    pub fn flat(&self) -> Vec<(String, &Node)> {
        fn rec<'a>(prefix: &str, entries: &'a [(String, Node)], out: &mut Vec<(String, &'a Node)>) {
            for (name, node) in entries {
                let p = if prefix.is_empty() { name.clone() } else { format!("{prefix}/{name}") };
                out.push((p.clone(), node));
                if let Node::Dir { entries, .. } = node {
                    rec(&p, entries, out);
                }
            }
        }
        let mut out = vec![];
        rec("", &self.entries, &mut out);
        out
    }

    pub fn count(&self) -> usize {
        self.flat().len()
    }

    /// Is `rel` (like "sub/sub") a chain of real, searchable directories below /work?
    pub fn is_real_searchable_dir(&self, rel: &str) -> bool {
        let mut entries = &self.entries;
        for c in rel.split('/') {
            match entries.iter().find(|(n, _)| n == c) {
                Some((_, Node::Dir { search: true, entries: e })) => entries = e,
                _ => return false,
            }
        }
        true
    }
}

// ---------------------------------------------------------------------------------------------
// Path resolution (XBD 4.16)

#[derive(Clone, Copy, Debug, PartialEq, Eq)]
pub enum RErr {
    NoEnt,
    NotDir,
    Access,
    Loop,
    /// the path leaves the modelled part of the file system (anything in `/` but `work`)
    Outside,
}

#[derive(Clone, Debug, Default)]
pub struct Flags {
    /// the simulated OS is known to answer differently from POSIX here (not implemented there)
    pub sim_differs: Option<&'static str>,
    pub outside: bool,
    /// the last walk followed a symbolic link named by the final component
    pub followed_final: bool,
}

pub struct Fs {
    root: Node,
}

impl Fs {
    pub fn new(tree: &Tree) -> Fs {
        Fs {
            root: Node::Dir {
                search: true,
                entries: vec![("work".to_string(), Node::Dir { search: true, entries: tree.entries.clone() })],
            },
        }
    }

    fn get(&self, phys: &[String]) -> &Node {
        let mut n = &self.root;
        for c in phys {
            match n {
                Node::Dir { entries, .. } => n = &entries.iter().find(|(name, _)| name == c).expect("physical path").1,
                _ => panic!("physical path through a non-directory"),
            }
        }
        n
    }

    /// Resolves `path` from the directory with physical path `cwd`; returns the physical path of
    /// the file found. `sim` = resolve the way the simulated OS does instead of the way POSIX says:
    /// `.` and `..` are taken without checking that the current directory is searchable (the
    /// known finding vfs-dot-in-unsearchable-dir), at most 7 symbolic links are followed — used only to attribute a failing case to that finding.
    pub fn walk(&self, cwd: &[String], path: &str, follow_final: bool, sim: bool, fl: &mut Flags) -> Result<Vec<String>, RErr> {
        let quirk_dot = sim;
        fl.followed_final = false;
        if path.is_empty() {
            return Err(RErr::NoEnt);
        }
        let mut cur: Vec<String> = if path.starts_with('/') { vec![] } else { cwd.to_vec() };
        // the simulated OS normalises `.` components away before it resolves anything
        let keep = |s: &&str| !s.is_empty();
        let mut todo: VecDeque<String> = path.split('/').filter(keep).map(String::from).collect();
        let trailing = path.ends_with('/') && !todo.is_empty();
        let mut follows = 0;
        while let Some(c) = todo.pop_front() {
            let here = self.get(&cur);
            let dot = c == "." || c == "..";
            match here {
                Node::Dir { search, .. } => {
                    if !*search && !(quirk_dot && dot) {
                        return Err(RErr::Access);
                    }
                }
                _ => return Err(RErr::NotDir),
            }
            if c == "." {
                continue;
            }
            if c == ".." {
                cur.pop();
                continue;
            }
            if cur.is_empty() && c != "work" {
                return Err(RErr::Outside);
            }
            let Node::Dir { entries, .. } = here else { return Err(RErr::NotDir) };
            let Some((_, child)) = entries.iter().find(|(n, _)| *n == c) else { return Err(RErr::NoEnt) };
            match child {
                Node::Link(target) => {
                    let rest = !todo.is_empty() || trailing;
                    if sim {
                        if rest || follow_final {
                            follows += 1;
                            if follows > 7 {
                                return Err(RErr::Loop);
                            }
                            if !rest {
                                fl.followed_final = true;
                            }
                            if target.starts_with('/') {
                                cur.clear();
                            }
                            for t in target.split('/').filter(keep).rev() {
                                todo.push_front(t.to_string());
                            }
                        } else {
                            cur.push(c);
                        }
                    } else if rest || follow_final {
                        follows += 1;
                        if follows > 40 {
                            return Err(RErr::Loop);
                        }
                        if !rest {
                            fl.followed_final = true;
                        }
                        if target.starts_with('/') {
                            cur.clear();
                        }
                        for t in target.split('/').filter(|s| !s.is_empty()).rev() {
                            todo.push_front(t.to_string());
                        }
                    } else {
                        cur.push(c);
                    }
                }
                _ => cur.push(c),
            }
        }
        if follows > 7 && !sim {
            fl.sim_differs = Some("symbolic link chain longer than the simulated OS follows");
        }
        if trailing && !matches!(self.get(&cur), Node::Dir { .. }) {
            return Err(RErr::NotDir);
        }
        Ok(cur)
    }
}

// ---------------------------------------------------------------------------------------------
// Words

/// One segment of the pattern word as it is written in the script.
#[derive(Clone, Debug, PartialEq, Eq, Hash, Serialize, Deserialize)]
pub enum Seg {
    /// unquoted text: pattern characters are active
    Lit(String),
    /// `\c`
    Esc(char),
    /// `'...'`
    SQ(String),
    /// `"..."`
    DQ(String),
    /// unquoted `${v}` whose value is this string: pattern characters active, backslash escapes
    Var(String),
    /// `"${v}"`: literal
    QVar(String),
    /// `~` at the very start of the word, with HOME set to this string: the result is literal
    Tilde(String),
}

const LIT_OK: &str = "absuwork.-*?[]!/";
const QUOTED_OK: &str = "absuwork.-*?[]!/ ";

/// The word's script text and the values of `v0`, `v1`, ... it refers to; None if a segment
/// contains characters the renderer does not handle.
pub fn render(word: &[Seg]) -> Option<(String, Vec<String>)> {
    let mut text = String::new();
    let mut vals = vec![];
    for s in word {
        match s {
            Seg::Lit(t) => {
                if !t.chars().all(|c| LIT_OK.contains(c)) {
                    return None;
                }
                text.push_str(t);
            }
            Seg::Esc(c) => {
                if !(QUOTED_OK.contains(*c) || *c == '\\') {
                    return None;
                }
                text.push('\\');
                text.push(*c);
            }
            Seg::Tilde(t) => {
                if !text.is_empty() || !t.chars().all(|c| QUOTED_OK.contains(c) || c == '\\') {
                    return None;
                }
                text.push('~');
            }
            Seg::SQ(t) => {
                if !t.chars().all(|c| QUOTED_OK.contains(c) || c == '\\') {
                    return None;
                }
                text.push('\'');
                text.push_str(t);
                text.push('\'');
            }
            Seg::DQ(t) => {
                if !t.chars().all(|c| QUOTED_OK.contains(c)) {
                    return None;
                }
                text.push('"');
                text.push_str(t);
                text.push('"');
            }
            Seg::Var(v) | Seg::QVar(v) => {
                if !v.chars().all(|c| QUOTED_OK.contains(c) || c == '\\') {
                    return None;
                }
                let name = format!("v{}", vals.len());
                vals.push(v.clone());
                if matches!(s, Seg::Var(_)) {
                    text.push_str(&format!("${{{name}}}"));
                } else {
                    text.push_str(&format!("\"${{{name}}}\""));
                }
            }
        }
    }
    if text.is_empty() { None } else { Some((text, vals)) }
}

/// The field after quote removal (what an expansion without any match leaves).
pub fn unquoted(word: &[Seg]) -> String {
    let mut s = String::new();
    for seg in word {
        match seg {
            Seg::Lit(t) | Seg::SQ(t) | Seg::DQ(t) | Seg::Var(t) | Seg::QVar(t) | Seg::Tilde(t) => s.push_str(t),
            Seg::Esc(c) => s.push(*c),
        }
    }
    s
}

#[derive(Clone, Copy, PartialEq, Eq, Debug)]
enum K {
    Plain,
    Quoted,
    /// backslash in the value of an unquoted expansion: escapes the next character
    ExpBs,
    /// backslash that ends the value of an unquoted expansion with nothing after it in the word
    /// (at most empty quotes): there is nothing to escape
    TrailBs,
}

#[derive(Clone, Copy, Debug)]
struct Item {
    c: char,
    k: K,
}

fn flatten(word: &[Seg], pattern_rules: bool) -> Result<Vec<Item>, &'static str> {
    let mut out = vec![];
    for (si, seg) in word.iter().enumerate() {
        match seg {
            Seg::Lit(t) => out.extend(t.chars().map(|c| Item { c, k: K::Plain })),
            Seg::Esc(c) => out.push(Item { c: *c, k: K::Quoted }),
            Seg::SQ(t) | Seg::DQ(t) | Seg::QVar(t) | Seg::Tilde(t) => out.extend(t.chars().map(|c| Item { c, k: K::Quoted })),
            Seg::Var(v) => {
                if v.is_empty() {
                    return Err("empty unquoted expansion (field may vanish; C01's subject)");
                }
                if v.chars().any(|c| c == ' ' || c == '\t' || c == '\n') {
                    return Err("unquoted expansion containing IFS white space (field splitting; C01's subject)");
                }
                let cs: Vec<char> = v.chars().collect();
                let mut i = 0;
                while i < cs.len() {
                    if cs[i] == '\\' && pattern_rules {
                        match cs.get(i + 1) {
                            None => {
                                let rest_empty = word[si + 1..].iter().all(|s| matches!(s, Seg::SQ(t) | Seg::DQ(t) | Seg::QVar(t) if t.is_empty()));
                                if !rest_empty {
                                    return Err("unquoted expansion ending in a backslash (POSIX: unspecified)");
                                }
                                out.push(Item { c: '\\', k: K::TrailBs });
                                i += 1;
                            }
                            Some('/') => return Err("backslash from an expansion before a slash (POSIX: unspecified)"),
                            Some(n) => {
                                out.push(Item { c: '\\', k: K::ExpBs });
                                out.push(Item { c: *n, k: K::Quoted });
                                i += 2;
                            }
                        }
                    } else {
                        out.push(Item { c: cs[i], k: K::Plain });
                        i += 1;
                    }
                }
            }
        }
    }
    Ok(out)
}

// ---------------------------------------------------------------------------------------------
// Expectation

/// Deviations of the code under test that are recorded as known findings; the model reproduces
/// them on request so that a failing case can be attributed.
#[derive(Clone, Copy, Debug, Default, PartialEq, Eq)]
pub struct Quirks {
    /// virtual file system: `x/.` and `x/..` resolve although x is not a searchable directory
    /// (the model then resolves paths the way the simulated OS does, see `Fs::walk`)
    pub dot_after_nondir: bool,
    /// glob.rs: a backslash that comes from an expansion stays in the pattern as a character to match
    pub backslash_kept: bool,
}

#[derive(Clone, Debug, PartialEq, Eq)]
pub struct Cand {
    pub path: String,
    /// false: both presence and absence are acceptable (why: see `note`)
    pub required: bool,
    pub note: &'static str,
}

#[derive(Clone, Debug, Default)]
pub struct Info {
    pub components: usize,
    pub wild_components: usize,
    /// some wildcard component matched at least one directory entry
    pub wild_matched: bool,
    pub dot_matched: bool,
    pub dot_hidden: bool,
    pub metachar_name_matched: bool,
    pub symlink_followed: bool,
    pub symlink_entry_matched: bool,
    pub unsearchable_dir_touched: bool,
    pub trailing_slash: bool,
    pub double_slash: bool,
    pub quoted_wildcard: bool,
    pub active_backslash: bool,
    pub from_var: bool,
    pub absolute: bool,
}

#[derive(Clone, Debug)]
pub enum Expect {
    Unspecified(&'static str),
    /// exactly this one field (noglob, or no active wildcard in the word)
    Literal(String, Info),
    /// `open`: prefixes below which the model does not know the directory content (only produced
    /// when reproducing the simulated OS' deviations; otherwise such cases are Unspecified)
    Glob { cands: Vec<Cand>, open: Vec<String>, fallback: String, info: Info },
}

const OUTSIDE_NOTE: &str = "existence depends on files outside the modelled tree";

enum Comp {
    Lit(String),
    Wild(Vec<Atom>),
}

struct Enum<'a> {
    fs: &'a Fs,
    cwd: &'a [String],
    comps: Vec<Comp>,
    q: Quirks,
    fl: Flags,
    unspec: Option<&'static str>,
    out: Vec<Cand>,
    open: Vec<String>,
    info: Info,
}

impl Enum<'_> {
    fn stat(&mut self, p: &str) -> Result<Vec<String>, RErr> {
        let r = self.fs.walk(self.cwd, p, true, self.q.dot_after_nondir, &mut self.fl);
        if r.is_ok() && self.fl.followed_final {
            self.info.symlink_followed = true;
        }
        if r == Err(RErr::Access) {
            self.info.unsearchable_dir_touched = true;
        }
        r
    }

    fn lstat(&mut self, p: &str) -> Result<Vec<String>, RErr> {
        self.fs.walk(self.cwd, p, false, self.q.dot_after_nondir, &mut self.fl)
    }

    /// Names in the directory `p` (without `.` and `..`), if it can be opened for reading.
    fn opendir(&mut self, p: &str) -> Result<Vec<(String, bool)>, RErr> {
        let sim = self.q.dot_after_nondir;
        let phys = match self.fs.walk(self.cwd, p, true, sim, &mut self.fl) {
            Ok(p) => p,
            Err(e) => {
                if e == RErr::Outside && !sim {
                    self.fl.outside = true;
                }
                return Err(e);
            }
        };
        if phys.is_empty() {
            if !sim {
                self.fl.outside = true;
            }
            return Err(RErr::Outside);
        }
        match self.fs.get(&phys) {
            Node::Dir { entries, search } => {
                if !*search {
                    self.info.unsearchable_dir_touched = true;
                }
                Ok(entries.iter().map(|(n, node)| (n.clone(), matches!(node, Node::Link(_)))).collect())
            }
            _ => Err(RErr::NotDir),
        }
    }

    fn go(&mut self, i: usize, prefix: String) {
        let last = i + 1 == self.comps.len();
        match &self.comps[i] {
            Comp::Lit(t) => {
                let t = t.clone();
                let p = format!("{prefix}{t}");
                if !last {
                    self.go(i + 1, p + "/");
                } else if p.is_empty() {
                    // the empty word; cannot contain a wildcard component
                } else {
                    match self.stat(&p) {
                        Ok(_) => self.out.push(Cand { path: p, required: true, note: "" }),
                        Err(RErr::Outside) => self.out.push(Cand { path: p, required: false, note: OUTSIDE_NOTE }),
                        Err(_) => {
                            if !t.is_empty() && t != "." && t != ".." && self.lstat(&p).is_ok() {
                                self.out.push(Cand {
                                    path: p,
                                    required: false,
                                    note: "literal last component names a symbolic link that does not resolve (lstat vs stat: POSIX leaves the test open)",
                                });
                            }
                        }
                    }
                }
            }
            Comp::Wild(atoms) => {
                let atoms = atoms.clone();
                let dir = if prefix.is_empty() { ".".to_string() } else { prefix.clone() };
                let names = match self.opendir(&dir) {
                    Ok(n) => n,
                    Err(RErr::Outside) => {
                        self.open.push(prefix);
                        return;
                    }
                    Err(_) => return,
                };
                for (name, is_link) in names {
                    let chars: Vec<char> = name.chars().collect();
                    match fm::matches_period(&atoms, &chars, true) {
                        Tri::Unspecified(w) => self.unspec = Some(w),
                        Tri::No => {
                            if name.starts_with('.') && fm::full_match(&atoms, &chars) {
                                self.info.dot_hidden = true;
                            }
                        }
                        Tri::Yes => {
                            self.info.wild_matched = true;
                            if name.starts_with('.') {
                                self.info.dot_matched = true;
                            }
                            if name.chars().any(|c| "[]*?\\".contains(c)) {
                                self.info.metachar_name_matched = true;
                            }
                            if is_link {
                                self.info.symlink_entry_matched = true;
                            }
                            let p = format!("{prefix}{name}");
                            if !last {
                                self.go(i + 1, p + "/");
                            } else if self.stat(&p).is_ok() {
                                self.out.push(Cand { path: p, required: true, note: "" });
                            } else {
                                self.out.push(Cand {
                                    path: p,
                                    required: false,
                                    note: "directory entry matched by the last component but not resolvable (dangling link / unsearchable directory): only read permission is required, an existence test is allowed",
                                });
                            }
                        }
                    }
                }
            }
        }
    }
}

/// What `probe WORD` must receive when run in the directory with physical path `cwd` (e.g.
/// ["work"] or ["work","sub"]) of `tree`.
pub fn expect(tree: &Tree, cwd: &[String], word: &[Seg], noglob: bool, q: Quirks) -> Expect {
    let fallback = unquoted(word);
    let items = match flatten(word, !noglob) {
        Ok(i) => i,
        Err(e) => return Expect::Unspecified(e),
    };
    if items.iter().any(|i| i.k == K::TrailBs) {
        // A pattern that ends with an unescaped backslash either matches nothing or is invalid
        // (POSIX leaves open which): without any other active pattern character both readings leave
        // the field as it is. With one, the implementations differ in what the rest may match.
        let other = items.iter().any(|i| i.k == K::ExpBs || (i.k == K::Plain && "*?[".contains(i.c)));
        if other || noglob {
            if !noglob {
                return Expect::Unspecified("unquoted expansion ending in a backslash (POSIX: unspecified)");
            }
        } else {
            let info = Info { components: fallback.split('/').count(), from_var: true, ..Info::default() };
            return Expect::Literal(fallback, info);
        }
    }
    let mut info = Info {
        quoted_wildcard: items.iter().any(|i| i.k == K::Quoted && "*?[".contains(i.c)),
        active_backslash: items.iter().any(|i| i.k == K::ExpBs),
        from_var: word.iter().any(|s| matches!(s, Seg::Var(_) | Seg::QVar(_))),
        absolute: fallback.starts_with('/'),
        trailing_slash: fallback.len() > 1 && fallback.ends_with('/'),
        double_slash: fallback.contains("//"),
        ..Info::default()
    };
    if noglob {
        info.components = fallback.split('/').count();
        return Expect::Literal(fallback, info);
    }
    if fallback.starts_with("//") {
        return Expect::Unspecified("leading double slash (implementation-defined)");
    }
    // components
    let mut comps = vec![];
    let mut cur: Vec<Item> = vec![];
    let mut raw: Vec<Vec<Item>> = vec![];
    for it in items {
        if it.c == '/' && it.k != K::ExpBs {
            raw.push(std::mem::take(&mut cur));
        } else {
            cur.push(it);
        }
    }
    raw.push(cur);
    for r in &raw {
        let mut pcs: Vec<PC> = vec![];
        for it in r {
            match it.k {
                K::Plain => pcs.push(PC { c: it.c, lit: false }),
                K::Quoted => pcs.push(PC { c: it.c, lit: true }),
                K::ExpBs => {
                    if q.backslash_kept {
                        pcs.push(PC { c: '\\', lit: true });
                    }
                }
                K::TrailBs => pcs.push(PC { c: '\\', lit: true }),
            }
        }
        let atoms = match fm::parse(&pcs) {
            Ok(a) => a,
            Err(e) => return Expect::Unspecified(e),
        };
        if fm::has_special(&atoms) {
            comps.push(Comp::Wild(atoms));
        } else {
            comps.push(Comp::Lit(
                atoms.iter().map(|a| match a { Atom::Char(c) => *c, _ => unreachable!() }).collect(),
            ));
        }
    }
    info.components = comps.iter().filter(|c| !matches!(c, Comp::Lit(t) if t.is_empty())).count();
    info.wild_components = comps.iter().filter(|c| matches!(c, Comp::Wild(_))).count();
    if info.wild_components == 0 {
        if info.active_backslash {
            return Expect::Unspecified("backslash from an expansion but no *, ? or [ (matched in older POSIX, left unchanged in POSIX.1-2024)");
        }
        return Expect::Literal(fallback, info);
    }
    let fs = Fs::new(tree);
    let mut e = Enum { fs: &fs, cwd, comps, q, fl: Flags::default(), unspec: None, out: vec![], open: vec![], info };
    e.go(0, String::new());
    if let Some(w) = e.unspec {
        return Expect::Unspecified(w);
    }
    if e.fl.outside {
        return Expect::Unspecified("pattern reaches outside the modelled directory tree");
    }
    if let Some(w) = e.fl.sim_differs {
        return Expect::Unspecified(w);
    }
    Expect::Glob { cands: e.out, open: e.open, fallback, info: e.info }
}

/// Collapses runs of slashes (the alternative spelling of results for patterns with `//`).
pub fn collapse_slashes(s: &str) -> String {
    let mut out = String::new();
    let mut prev = false;
    for c in s.chars() {
        if c == '/' && prev {
            continue;
        }
        prev = c == '/';
        out.push(c);
    }
    out
}

/// Is `actual` an acceptable result? Required candidates present, nothing but candidates, strictly
/// ascending byte order (=> sorted, no duplicates); or the unchanged word when nothing is required.
pub fn accept(actual: &[String], cands: &[Cand], open: &[String], fallback: &str) -> Result<(), String> {
    let try_spelling = |spell: &dyn Fn(&str) -> String| -> Result<(), String> {
        let req: Vec<String> = cands.iter().filter(|c| c.required).map(|c| spell(&c.path)).collect();
        let opt: Vec<String> = cands.iter().filter(|c| !c.required).map(|c| spell(&c.path)).collect();
        let open: Vec<String> = open.iter().map(|p| spell(p)).collect();
        if req.is_empty() && actual.len() == 1 && actual[0] == fallback {
            return Ok(());
        }
        if actual.is_empty() {
            return Err("no field at all".into());
        }
        for a in actual {
            if !req.contains(a) && !opt.contains(a) && !open.iter().any(|p| a.starts_with(p.as_str())) {
                return Err(if actual.len() == 1 && a == fallback {
                    "the pattern was left unchanged although pathnames match".to_string()
                } else {
                    format!("{a:?} is not an existing pathname matching the pattern")
                });
            }
        }
        for r in &req {
            if !actual.contains(r) {
                return Err(format!("matching pathname {r:?} is missing"));
            }
        }
        for w in actual.windows(2) {
            if w[0].as_bytes() >= w[1].as_bytes() {
                return Err(if w[0] == w[1] { format!("{:?} appears twice", w[0]) } else { format!("not sorted: {:?} before {:?}", w[0], w[1]) });
            }
        }
        Ok(())
    };
    match try_spelling(&|s| s.to_string()) {
        Ok(()) => Ok(()),
        Err(e) => {
            if fallback.contains("//") && try_spelling(&|s| collapse_slashes(s)).is_ok() {
                Ok(())
            } else {
                Err(e)
            }
        }
    }
}
