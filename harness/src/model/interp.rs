//! Reference interpreter of the core command language (POSIX XCU 2.9-2.15 and docs/src): which
//! probes run, in which process, with which `$?`, and the final status. Also the errexit rule and
//! the table of shell errors (docs/src/termination.md). Own AST, own renderer; never calls
//! yash-semantics.

use super::fnmatch as fm;
use serde::{Deserialize, Serialize};
use std::collections::BTreeMap;

pub const FN_NAMES: [&str; 5] = ["f0", "f1", "f2", "true", "mb"];
pub const EXIT_MARK: u16 = 9999;
/// recorded by an EXIT trap that the program itself sets (`trap 'mark 9998' EXIT`), in whatever
/// process runs it
pub const OWN_EXIT_MARK: u16 = 9998;
pub const MB_MARK: u16 = 9005;

#[derive(Clone, Debug, PartialEq, Eq, Hash, Serialize, Deserialize)]
pub enum Fail {
    /// `mark N </nonexistent/x`
    RedirRegular(u16),
    /// `fK </nonexistent/x`
    RedirFunction(u8),
    /// `{ mark N; } </nonexistent/x`
    RedirCompound(u16),
    /// `: </nonexistent/x`
    RedirSpecial,
    /// `shift 9`
    SpecialError,
    /// `command shift 9`
    CommandSpecialError,
    /// `. /nonexistent/file`
    SourceMissing,
    /// `set -o nosuchoption`
    SetBadOption,
    /// `mark N ${nosuchvar?}`
    ExpansionUnset(u16),
    /// `mark N $((1/0))`
    ExpansionArith(u16),
    /// `ro=1`
    AssignReadonly,
    /// `ro=1 mark N`
    AssignReadonlyCmd(u16),
}

#[derive(Clone, Debug, PartialEq, Eq, Hash, Serialize, Deserialize)]
pub enum Simple {
    Mark(u16),
    St(u8),
    True,
    False,
    Colon,
    Mb,
    /// `cnt C<id> <limit>`: succeeds the first <limit> times in this process
    Cnt(u8, u8),
    Call(u8),
    Unknown,
    SlashMissing,
    Break(u8),
    Continue(u8),
    Return(Option<u8>),
    Exit(Option<u8>),
    SetErrexit(bool),
    /// `trap 'mark 9998' EXIT`: the process that runs it (the main shell or a subshell) records the
    /// mark exactly once when it ends, however it ends
    TrapExit,
    Fail(Fail),
    /// assignment-only command `v0=... v1=...`: each value is plain text (None) or `$(st N)`
    Assigns(Vec<Option<u8>>),
    /// a simple command whose words all expand to nothing, so that there is no command name:
    /// each word is `$nosuchvar` (None) or `$(st N)`; status = that of the last command
    /// substitution performed, or zero (XCU 2.9.1)
    NoName(Vec<Option<u8>>),
    /// `astN`, an alias for `st N` defined on an earlier line
    AliasSt(u8),
}

#[derive(Clone, Debug, PartialEq, Eq, Hash, Serialize, Deserialize)]
pub enum Node {
    Simple(Simple),
    Seq(Vec<Node>),
    /// first operand, then (is_and, operand)*
    AndOr(Box<Node>, Vec<(bool, Node)>),
    Not(Box<Node>),
    Pipe(Vec<Node>),
    Group(Box<Node>),
    Subshell(Box<Node>),
    If { cond: Box<Node>, then: Box<Node>, elifs: Vec<(Node, Node)>, els: Option<Box<Node>> },
    /// while / until; `limit` bounds the iterations through the `cnt` built-in; `id` names the counter
    Loop { until: bool, id: u16, limit: u8, cond: Box<Node>, body: Box<Node> },
    For { words: u8, body: Box<Node> },
    /// subject index into CASE_SUBJECTS; items: pattern indices into CASE_PATTERNS
    Case { subject: u8, items: Vec<(Vec<u8>, Node)> },
    FuncDef(u8, Box<Node>),
}

/// the last two contain a failing command substitution (`st` prints nothing, so their values are
/// "a" and ""): the status of a `case` command that runs no item is zero all the same
pub const CASE_SUBJECTS: [&str; 6] = ["a", "b", "ab", "", "a$(st 3)", "$(st 2)"];
pub const CASE_SUBJECT_VALUES: [&str; 6] = ["a", "b", "ab", "", "a", ""];
/// the last two are unquoted expansions that yield nothing: an empty pattern (matches only the
/// empty subject), not "no pattern"
pub const CASE_PATTERNS: [&str; 9] = ["a", "b", "*", "a*", "?b", "''", "[!a]", "${e-}", "$e${e-}"];

#[derive(Clone, Debug, PartialEq, Eq, Hash, Serialize, Deserialize)]
pub struct Program {
    pub body: Node,
    /// `set -e` at the start
    pub errexit: bool,
    /// `trap 'mark 9999' EXIT` at the start
    pub exit_trap: bool,
    /// whether /bin/false exists (substitutive built-in `false` found or not)
    pub bin_false: bool,
    /// surface-syntax variation bits (0 = canonical rendering)
    pub surface: u32,
    /// `set -m` at the start: job control in a non-interactive shell changes process groups, not
    /// which commands run, their `$?` or when the script aborts
    #[serde(default)]
    pub monitor: bool,
}

// ---------------------------------------------------------------------------------------------
// Sanitising: make an arbitrary generated tree a valid, terminating, POSIX-defined program

struct SanCtx {
    /// inside a subshell environment that was entered from within a function body: `return N`
    /// there ends that subshell with status N (leaving the function as far as the subshell is
    /// concerned; the manual's fallback "works like exit" gives the same observable result)
    ret_in_subshell: bool,
    loop_depth: u8,
    /// lexically inside the body of this function (no subshell boundary in between)
    func: Option<u8>,
    /// lowest function index that may be called / defined here (DAG rule against recursion)
    min_target: u8,
}

pub fn sanitize(p: &mut Program, allow_fail: bool) {
    let mut next_loop = 0u16;
    let mut next_mark = 1u16;
    let mut ctx = SanCtx { ret_in_subshell: false, loop_depth: 0, func: None, min_target: 0 };
    san(&mut p.body, &mut ctx, &mut next_loop, &mut next_mark, allow_fail, 0);
}

fn target_of(s: &Simple) -> Option<u8> {
    match s {
        Simple::True => Some(3),
        Simple::Mb => Some(4),
        Simple::Call(j) => Some(*j),
        Simple::Fail(Fail::RedirFunction(j)) => Some(*j),
        _ => None,
    }
}

fn san(n: &mut Node, c: &mut SanCtx, nl: &mut u16, nm: &mut u16, allow_fail: bool, depth: u32) {
    match n {
        Node::Simple(s) => {
            match s {
                Simple::Mark(id) => {
                    *id = *nm;
                    *nm += 1;
                }
                Simple::Break(k) | Simple::Continue(k) => {
                    if c.loop_depth == 0 {
                        *s = Simple::St(*k % 3);
                    } else {
                        *k = (*k).clamp(1, c.loop_depth);
                    }
                }
                Simple::Return(v) => {
                    if c.func.is_none() && !c.ret_in_subshell {
                        *s = Simple::St(v.unwrap_or(0));
                    }
                }
                Simple::Call(j) => *j %= FN_NAMES.len() as u8,
                Simple::Cnt(id, limit) => {
                    *id %= 4;
                    *limit %= 4;
                }
                Simple::NoName(vals) => {
                    if vals.is_empty() {
                        vals.push(Some(0));
                    }
                    vals.truncate(3);
                    for v in vals.iter_mut().flatten() {
                        *v %= 4;
                    }
                }
                Simple::Assigns(vals) => {
                    if vals.is_empty() {
                        vals.push(None);
                    }
                    vals.truncate(3);
                    for v in vals.iter_mut().flatten() {
                        *v %= 4;
                    }
                }
                Simple::Fail(f) => {
                    if !allow_fail {
                        *s = Simple::St(1);
                    } else {
                        match f {
                            Fail::RedirRegular(id) | Fail::RedirCompound(id) | Fail::ExpansionUnset(id) | Fail::ExpansionArith(id) | Fail::AssignReadonlyCmd(id) => {
                                *id = *nm;
                                *nm += 1;
                            }
                            Fail::RedirFunction(j) => *j %= 3,
                            _ => {}
                        }
                    }
                }
                Simple::SetErrexit(_) | Simple::TrapExit => {
                    if !allow_fail {
                        *s = Simple::Colon;
                    }
                }
                _ => {}
            }
            if let Some(t) = target_of(s) {
                if t < c.min_target {
                    *s = Simple::Mark(*nm);
                    *nm += 1;
                }
            }
        }
        Node::Seq(v) => {
            if v.is_empty() {
                v.push(Node::Simple(Simple::Colon));
            }
            for x in v {
                san(x, c, nl, nm, allow_fail, depth + 1);
            }
        }
        Node::AndOr(a, rest) => {
            san(a, c, nl, nm, allow_fail, depth + 1);
            for (_, x) in rest {
                san(x, c, nl, nm, allow_fail, depth + 1);
            }
        }
        Node::Not(x) | Node::Group(x) => san(x, c, nl, nm, allow_fail, depth + 1),
        Node::Subshell(x) => {
            let mut c2 = SanCtx { ret_in_subshell: c.func.is_some() || c.ret_in_subshell, loop_depth: 0, func: None, min_target: c.min_target };
            san(x, &mut c2, nl, nm, allow_fail, depth + 1);
        }
        Node::Pipe(v) => {
            while v.len() < 2 {
                v.push(Node::Simple(Simple::Colon));
            }
            for x in v {
                let mut c2 = SanCtx { ret_in_subshell: c.func.is_some() || c.ret_in_subshell, loop_depth: 0, func: None, min_target: c.min_target };
                san(x, &mut c2, nl, nm, allow_fail, depth + 1);
            }
        }
        Node::If { cond, then, elifs, els } => {
            san(cond, c, nl, nm, allow_fail, depth + 1);
            san(then, c, nl, nm, allow_fail, depth + 1);
            for (a, b) in elifs {
                san(a, c, nl, nm, allow_fail, depth + 1);
                san(b, c, nl, nm, allow_fail, depth + 1);
            }
            if let Some(e) = els {
                san(e, c, nl, nm, allow_fail, depth + 1);
            }
        }
        Node::Loop { id, limit, cond, body, .. } => {
            *id = *nl;
            *nl += 1;
            *limit %= 3;
            c.loop_depth += 1;
            san(cond, c, nl, nm, allow_fail, depth + 1);
            san(body, c, nl, nm, allow_fail, depth + 1);
            c.loop_depth -= 1;
        }
        Node::For { words, body } => {
            // 0-3 words; 4 = a word list that is a failing command substitution expanding to nothing
            *words %= 5;
            c.loop_depth += 1;
            san(body, c, nl, nm, allow_fail, depth + 1);
            c.loop_depth -= 1;
        }
        Node::Case { subject, items } => {
            *subject %= CASE_SUBJECTS.len() as u8;
            for (pats, b) in items.iter_mut() {
                if pats.is_empty() {
                    pats.push(2);
                }
                for p in pats.iter_mut() {
                    *p %= CASE_PATTERNS.len() as u8;
                }
                san(b, c, nl, nm, allow_fail, depth + 1);
            }
        }
        Node::FuncDef(idx, body) => {
            *idx %= FN_NAMES.len() as u8;
            if *idx < c.min_target {
                // defining an "earlier" function inside a later one could close a cycle
                *n = Node::Simple(Simple::Mark(*nm));
                *nm += 1;
                return;
            }
            // the body must be a compound command
            if !matches!(**body, Node::Group(_) | Node::Subshell(_) | Node::If { .. } | Node::Loop { .. } | Node::For { .. } | Node::Case { .. }) {
                let inner = std::mem::replace(&mut **body, Node::Simple(Simple::Colon));
                **body = Node::Group(Box::new(inner));
            }
            let mut c2 = SanCtx { ret_in_subshell: false, loop_depth: 0, func: Some(*idx), min_target: *idx + 1 };
            san(body, &mut c2, nl, nm, allow_fail, depth + 1);
        }
    }
}

// ---------------------------------------------------------------------------------------------
// Rendering

pub struct Surface {
    state: u64,
    on: bool,
}

impl Surface {
    pub fn new(bits: u32) -> Self {
        Surface { state: (bits as u64) << 1 | 1, on: bits != 0 }
    }
    fn next(&mut self, n: u64) -> u64 {
        if !self.on {
            return 0;
        }
        self.state = self.state.wrapping_mul(6364136223846793005).wrapping_add(1442695040888963407);
        (self.state >> 33) % n
    }
    /// command separator inside a list
    fn sep(&mut self) -> &'static str {
        match self.next(5) {
            0 => "; ",
            1 => "\n",
            2 => " ;\n",
            3 => " # note\n",
            _ => "\n\n",
        }
    }
    /// a mandatory blank between tokens
    fn sp(&mut self) -> &'static str {
        match self.next(6) {
            0 | 1 | 2 => " ",
            3 => "  ",
            4 => " \\\n",
            _ => "\t",
        }
    }
    /// separator before `then`/`do`/`else`... (a list terminator)
    fn term(&mut self) -> &'static str {
        match self.next(3) {
            0 => "; ",
            1 => "\n",
            _ => " ;\n  ",
        }
    }
    /// linebreak allowed after a keyword / operator
    fn lb(&mut self) -> &'static str {
        match self.next(4) {
            0 | 1 => " ",
            2 => "\n",
            _ => " # c\n ",
        }
    }
}

fn r_simple(s: &Simple, sf: &mut Surface, out: &mut String) {
    let sp = sf.sp();
    match s {
        Simple::Mark(id) => out.push_str(&format!("mark{sp}{id}")),
        Simple::St(n) => out.push_str(&format!("st{sp}{n}")),
        Simple::True => out.push_str("true"),
        Simple::False => out.push_str("false"),
        Simple::Colon => out.push(':'),
        Simple::Mb => out.push_str("mb"),
        Simple::Cnt(id, limit) => out.push_str(&format!("cnt{sp}C{id} {limit}")),
        Simple::Call(j) => out.push_str(FN_NAMES[*j as usize]),
        Simple::Unknown => out.push_str("nosuchcommand"),
        Simple::SlashMissing => out.push_str("/bin/nosuchcommand"),
        Simple::Break(k) => {
            if *k == 1 && sf.next(2) == 0 {
                out.push_str("break")
            } else {
                out.push_str(&format!("break{sp}{k}"))
            }
        }
        Simple::Continue(k) => {
            if *k == 1 && sf.next(2) == 0 {
                out.push_str("continue")
            } else {
                out.push_str(&format!("continue{sp}{k}"))
            }
        }
        Simple::Return(None) => out.push_str("return"),
        Simple::Return(Some(n)) => out.push_str(&format!("return{sp}{n}")),
        Simple::Exit(None) => out.push_str("exit"),
        Simple::Exit(Some(n)) => out.push_str(&format!("exit{sp}{n}")),
        Simple::Assigns(vals) => {
            for (i, v) in vals.iter().enumerate() {
                if i > 0 {
                    out.push_str(sp);
                }
                match v {
                    None => out.push_str(&format!("v{i}=plain")),
                    Some(n) => out.push_str(&format!("v{i}=$(st {n})")),
                }
            }
        }
        Simple::NoName(vals) => {
            for (i, v) in vals.iter().enumerate() {
                if i > 0 {
                    out.push_str(sp);
                }
                match v {
                    None => out.push_str("$nosuchvar"),
                    Some(n) => out.push_str(&format!("$(st {n})")),
                }
            }
        }
        Simple::AliasSt(n) => out.push_str(&format!("ast{}", n % 4)),
        Simple::TrapExit => out.push_str(&format!("trap 'mark {OWN_EXIT_MARK}' EXIT")),
        Simple::SetErrexit(true) => out.push_str(if sf.next(2) == 0 { "set -e" } else { "set -o errexit" }),
        Simple::SetErrexit(false) => out.push_str(if sf.next(2) == 0 { "set +e" } else { "set +o errexit" }),
        Simple::Fail(f) => match f {
            // a redirection error is a redirection error whatever its cause: a missing file, a
            // descriptor number beyond the limit of 256 set for these runs, a closed source descriptor (the varied surface
            // rendering picks among them; the canonical one uses the missing file)
            Fail::RedirRegular(id) => out.push_str(&format!("mark {id} {}", redir_error(sf))),
            Fail::RedirFunction(j) => out.push_str(&format!("{} {}", FN_NAMES[*j as usize], redir_error(sf))),
            Fail::RedirCompound(id) => out.push_str(&format!("{{ mark {id}; }} {}", redir_error(sf))),
            Fail::RedirSpecial => out.push_str(&format!(": {}", redir_error(sf))),
            Fail::SpecialError => out.push_str("shift 9"),
            Fail::CommandSpecialError => out.push_str("command shift 9"),
            Fail::SourceMissing => out.push_str(". /nonexistent/file"),
            Fail::SetBadOption => out.push_str("set -o nosuchoption"),
            Fail::ExpansionUnset(id) => out.push_str(&format!("mark {id} ${{nosuchvar?}}")),
            Fail::ExpansionArith(id) => out.push_str(&format!("mark {id} $((1/0))")),
            Fail::AssignReadonly => out.push_str("ro=1"),
            Fail::AssignReadonlyCmd(id) => out.push_str(&format!("ro=1 mark {id}")),
        },
    }
}

fn is_command(n: &Node) -> bool {
    !matches!(n, Node::Seq(_) | Node::AndOr(..) | Node::Not(_) | Node::Pipe(_))
}

/// Renders `n` where the grammar wants a single command.
fn r_command(n: &Node, sf: &mut Surface, out: &mut String) {
    match n {
        Node::Simple(s) => r_simple(s, sf, out),
        Node::Group(x) => {
            out.push('{');
            out.push_str(sf.lb());
            r_list(x, sf, out);
            out.push_str(sf.term());
            out.push('}');
        }
        Node::Subshell(x) => {
            out.push('(');
            if sf.next(2) == 1 {
                out.push_str(sf.lb());
            }
            // avoid `((`
            if out.ends_with('(') {
                out.push(' ');
            }
            r_list(x, sf, out);
            if sf.next(2) == 1 {
                out.push_str(sf.term());
            }
            out.push(')');
        }
        Node::If { cond, then, elifs, els } => {
            out.push_str("if");
            out.push_str(sf.lb());
            r_list(cond, sf, out);
            out.push_str(sf.term());
            out.push_str("then");
            out.push_str(sf.lb());
            r_list(then, sf, out);
            for (c, b) in elifs {
                out.push_str(sf.term());
                out.push_str("elif");
                out.push_str(sf.lb());
                r_list(c, sf, out);
                out.push_str(sf.term());
                out.push_str("then");
                out.push_str(sf.lb());
                r_list(b, sf, out);
            }
            if let Some(e) = els {
                out.push_str(sf.term());
                out.push_str("else");
                out.push_str(sf.lb());
                r_list(e, sf, out);
            }
            out.push_str(sf.term());
            out.push_str("fi");
        }
        Node::Loop { until, id, limit, cond, body } => {
            if *until {
                out.push_str(&format!("until ! cnt L{id} {limit} || {{ "));
            } else {
                out.push_str(&format!("while cnt L{id} {limit} && {{ "));
            }
            r_list(cond, sf, out);
            out.push_str("; }");
            out.push_str(sf.term());
            out.push_str("do");
            out.push_str(sf.lb());
            r_list(body, sf, out);
            out.push_str(sf.term());
            out.push_str("done");
        }
        Node::For { words, body } => {
            out.push_str("for i");
            match (*words, sf.next(3)) {
                (0, _) => out.push_str(" in"),
                (4, _) => out.push_str(" in $(st 3)"),
                (w, _) => {
                    out.push_str(" in");
                    for k in 0..w {
                        out.push_str(&format!(" w{k}"));
                    }
                }
            }
            out.push_str(sf.term());
            out.push_str("do");
            out.push_str(sf.lb());
            r_list(body, sf, out);
            out.push_str(sf.term());
            out.push_str("done");
        }
        Node::Case { subject, items } => {
            let subj = CASE_SUBJECTS[*subject as usize];
            out.push_str(&format!("case {} in", if subj.is_empty() { "''" } else if subj.starts_with('$') { "\"$(st 2)\"" } else { subj }));
            out.push_str(sf.lb());
            for (pats, b) in items {
                if sf.next(2) == 1 {
                    out.push('(');
                }
                let ps: Vec<&str> = pats.iter().map(|p| CASE_PATTERNS[*p as usize]).collect();
                out.push_str(&ps.join(if sf.next(2) == 1 { " | " } else { "|" }));
                out.push(')');
                out.push_str(sf.lb());
                r_list(b, sf, out);
                out.push_str(sf.lb());
                out.push_str(";;");
                out.push_str(sf.lb());
            }
            out.push_str("esac");
        }
        Node::FuncDef(idx, body) => {
            out.push_str(FN_NAMES[*idx as usize]);
            out.push_str(match sf.next(3) {
                0 => "()",
                1 => " ( )",
                _ => "() ",
            });
            out.push_str(sf.lb());
            r_command(body, sf, out);
        }
        // not a command: wrap in a brace group (semantically transparent)
        other => {
            out.push_str("{ ");
            r_list(other, sf, out);
            out.push_str("; }");
        }
    }
}

fn r_pipeline(n: &Node, sf: &mut Surface, out: &mut String) {
    match n {
        Node::Not(x) => {
            out.push('!');
            out.push_str(sf.sp());
            match &**x {
                Node::Pipe(_) => r_pipeline(x, sf, out),
                y if is_command(y) => r_command(y, sf, out),
                y => r_command(&Node::Group(Box::new(y.clone())), sf, out),
            }
        }
        Node::Pipe(v) => {
            for (i, x) in v.iter().enumerate() {
                if i > 0 {
                    out.push_str(" |");
                    out.push_str(sf.lb());
                }
                r_command(x, sf, out);
            }
        }
        x => r_command(x, sf, out),
    }
}

fn r_andor(n: &Node, sf: &mut Surface, out: &mut String) {
    match n {
        Node::AndOr(a, rest) => {
            r_pipeline_operand(a, sf, out);
            for (and, x) in rest {
                out.push_str(if *and { " &&" } else { " ||" });
                out.push_str(sf.lb());
                r_pipeline_operand(x, sf, out);
            }
        }
        x => r_pipeline(x, sf, out),
    }
}

fn r_pipeline_operand(n: &Node, sf: &mut Surface, out: &mut String) {
    match n {
        Node::AndOr(..) | Node::Seq(_) => r_command(&Node::Group(Box::new(n.clone())), sf, out),
        x => r_pipeline(x, sf, out),
    }
}

pub fn r_list(n: &Node, sf: &mut Surface, out: &mut String) {
    match n {
        Node::Seq(v) => {
            for (i, x) in v.iter().enumerate() {
                if i > 0 {
                    out.push_str(sf.sep());
                }
                match x {
                    Node::Seq(_) => r_command(&Node::Group(Box::new(x.clone())), sf, out),
                    _ => r_andor(x, sf, out),
                }
            }
        }
        x => r_andor(x, sf, out),
    }
}

/// Prelude for running a program with the real `yash3` main (no probe built-ins): the probes are
/// shell functions printing `M <id> <$? on entry>` through an external utility.
fn redir_error(sf: &mut Surface) -> &'static str {
    match sf.next(4) {
        1 => "300>/dev/null",
        2 => "<&77",
        3 => "5>&88",
        _ => "</nonexistent/x",
    }
}

pub const REAL_PRELUDE: &str = "mark() { /bin/echo \"M $1 $?\" >&2; }\nst() { return $1; }\nmb() { /bin/echo \"M 9005 $?\" >&2; return 5; }\ncnt() { eval \"_v=\\${_c_$1:-0}\"; eval \"_c_$1=\\$(( _v < $2 ? _v + 1 : _v ))\"; return $(( _v < $2 ? 0 : 1 )); }\n";

pub fn render(p: &Program, surface: u32) -> String {
    let mut out = String::new();
    out.push_str("readonly ro=0\nalias ast0='st 0' ast1='st 1' ast2='st 2' ast3='st 3'\n");
    if p.exit_trap {
        out.push_str(&format!("trap 'mark {EXIT_MARK}' EXIT\n"));
    }
    if p.errexit {
        out.push_str("set -e\n");
    }
    if p.monitor {
        out.push_str("set -m\n");
    }
    let mut sf = Surface::new(surface);
    r_list(&p.body, &mut sf, &mut out);
    out.push('\n');
    out
}

// ---------------------------------------------------------------------------------------------
// Interpreter

/// Exit status as far as the documentation pins it down.
#[derive(Clone, Copy, Debug, PartialEq, Eq, Hash)]
pub enum Sym {
    Known(i32),
    /// some non-zero value (the manual says only "non-zero")
    NonZero,
}

impl Sym {
    pub fn ok(self) -> bool {
        self == Sym::Known(0)
    }
    pub fn matches(self, actual: i32) -> bool {
        match self {
            Sym::Known(v) => v == actual,
            Sym::NonZero => actual != 0,
        }
    }
}

#[derive(Clone, Copy, Debug, PartialEq, Eq)]
enum Flow {
    Normal,
    Break(u8),
    Continue(u8),
    Return,
    Exit,
}

pub type Trace = Vec<(u16, Sym)>;

#[derive(Clone)]
struct Proc {
    status: Sym,
    funcs: BTreeMap<u8, Node>,
    counters: BTreeMap<u16, u8>,
    errexit: bool,
    cond_depth: u32,
    trace: Trace,
    steps: u32,
    /// this process has set its own EXIT trap (not inherited by subshells)
    own_exit_trap: bool,
}

pub struct Model<'a> {
    prog: &'a Program,
    /// every probe execution of every process in execution order (meaningful only when the
    /// program has no multi-command pipeline, i.e. no concurrency)
    pub global: Trace,
    pub children: Vec<Trace>,
    pub classes: Vec<&'static str>,
    /// abort flag: the model met something it does not define
    pub unspecified: Option<&'static str>,
}

pub struct Expected {
    pub global: Trace,
    pub main: Trace,
    pub children: Vec<Trace>,
    pub status: Sym,
    pub classes: Vec<&'static str>,
    pub unspecified: Option<&'static str>,
    pub steps: u32,
}

impl<'a> Model<'a> {
    fn class(&mut self, c: &'static str) {
        if !self.classes.contains(&c) {
            self.classes.push(c);
        }
    }

    fn errexit_check(&mut self, p: &mut Proc) -> Flow {
        if !p.status.ok() && p.errexit && p.cond_depth == 0 {
            self.class("errexit-fired");
            Flow::Exit
        } else {
            if !p.status.ok() && p.errexit {
                self.class("errexit-exempt");
            }
            Flow::Normal
        }
    }

    fn call(&mut self, p: &mut Proc, idx: u8) -> Option<Flow> {
        let body = p.funcs.get(&idx)?.clone();
        self.class("function-call");
        let f = self.exec(p, &body);
        Some(match f {
            Flow::Return => Flow::Normal,
            // break/continue cannot escape a function body (generator guarantees none is pending)
            other => other,
        })
    }

    /// A shell error that makes a non-interactive shell exit.
    fn fatal(&mut self, p: &mut Proc) -> Flow {
        self.class("shell-error-exit");
        p.status = Sym::NonZero;
        Flow::Exit
    }

    fn simple(&mut self, p: &mut Proc, s: &Simple) -> Flow {
        p.steps += 1;
        match s {
            Simple::Mark(id) => {
                p.trace.push((*id, p.status));
                self.global.push((*id, p.status));
                p.status = Sym::Known(0);
            }
            Simple::St(n) => p.status = Sym::Known(*n as i32),
            Simple::True => {
                if p.funcs.contains_key(&3) {
                    self.class("function-shadows-substitutive-builtin");
                    let f = self.call(p, 3).unwrap();
                    if f != Flow::Normal {
                        return f;
                    }
                } else {
                    p.status = Sym::Known(0);
                }
            }
            Simple::False => {
                if self.prog.bin_false {
                    p.status = Sym::Known(1);
                } else {
                    self.class("substitutive-builtin-without-file");
                    p.status = Sym::Known(127);
                }
            }
            Simple::Colon => p.status = Sym::Known(0),
            Simple::Cnt(id, limit) => {
                let used = p.counters.entry(10_000 + *id as u16).or_insert(0);
                if *used < *limit {
                    *used += 1;
                    p.status = Sym::Known(0);
                } else {
                    p.status = Sym::Known(1);
                }
            }
            Simple::Mb => {
                if p.funcs.contains_key(&4) {
                    self.class("function-shadows-builtin");
                    let f = self.call(p, 4).unwrap();
                    if f != Flow::Normal {
                        return f;
                    }
                } else {
                    p.trace.push((MB_MARK, p.status));
                    self.global.push((MB_MARK, p.status));
                    p.status = Sym::Known(5);
                }
            }
            Simple::Call(j) => match *j {
                3 => return self.simple(p, &Simple::True),
                4 => return self.simple(p, &Simple::Mb),
                j => match self.call(p, j) {
                    Some(Flow::Normal) => {}
                    Some(f) => return f,
                    None => {
                        self.class("command-not-found");
                        p.status = Sym::Known(127);
                    }
                },
            },
            Simple::Unknown | Simple::SlashMissing => {
                self.class("command-not-found");
                p.status = Sym::Known(127);
            }
            Simple::Break(k) => {
                self.class(if *k > 1 { "break-n" } else { "break" });
                p.status = Sym::Known(0);
                return Flow::Break(*k);
            }
            Simple::Continue(k) => {
                self.class(if *k > 1 { "continue-n" } else { "continue" });
                p.status = Sym::Known(0);
                return Flow::Continue(*k);
            }
            Simple::Return(v) => {
                self.class("return");
                if let Some(v) = v {
                    p.status = Sym::Known(*v as i32);
                }
                return Flow::Return;
            }
            Simple::Exit(v) => {
                self.class("exit");
                if let Some(v) = v {
                    p.status = Sym::Known(*v as i32);
                }
                return Flow::Exit;
            }
            Simple::SetErrexit(on) => {
                p.errexit = *on;
                p.status = Sym::Known(0);
            }
            Simple::TrapExit => {
                self.class("own-exit-trap-set");
                p.own_exit_trap = true;
                p.status = Sym::Known(0);
            }
            Simple::Assigns(vals) => {
                // XCU 2.9.1: no command name => status of the last command substitution performed,
                // or zero if there was none
                self.class("assignment-only-command");
                p.status = Sym::Known(vals.iter().rev().find_map(|v| *v).map_or(0, |n| n as i32));
                for v in vals.iter().flatten() {
                    let _ = v;
                    self.children.push(vec![]);
                }
            }
            Simple::NoName(vals) => {
                self.class("command-without-name-after-expansion");
                p.status = Sym::Known(vals.iter().rev().find_map(|v| *v).map_or(0, |n| n as i32));
                for v in vals.iter().flatten() {
                    let _ = v;
                    self.children.push(vec![]);
                }
            }
            Simple::AliasSt(n) => {
                self.class("alias-in-command-position");
                p.status = Sym::Known((*n % 4) as i32);
            }
            Simple::Fail(f) => match f {
                Fail::RedirRegular(_) | Fail::RedirCompound(_) => {
                    self.class("redir-error-nonspecial");
                    p.status = Sym::NonZero;
                }
                Fail::RedirFunction(j) => {
                    if p.funcs.contains_key(j) {
                        self.class("redir-error-function");
                        p.status = Sym::NonZero;
                    } else {
                        // redirection error or command-not-found: either way non-zero, not run
                        p.status = Sym::NonZero;
                    }
                }
                Fail::RedirSpecial => return self.fatal(p),
                Fail::SpecialError | Fail::SourceMissing | Fail::SetBadOption => return self.fatal(p),
                Fail::CommandSpecialError => {
                    self.class("special-error-via-command");
                    p.status = Sym::NonZero;
                }
                Fail::ExpansionUnset(_) | Fail::ExpansionArith(_) => return self.fatal(p),
                Fail::AssignReadonly | Fail::AssignReadonlyCmd(_) => return self.fatal(p),
            },
        }
        self.errexit_check(p)
    }

    fn subshell(&mut self, p: &mut Proc, body: &Node) -> Sym {
        let mut child = p.clone();
        child.trace = vec![];
        // traps with command actions are reset on entry to a subshell
        child.own_exit_trap = false;
        let _ = self.exec(&mut child, body);
        if child.own_exit_trap {
            // docs/src/termination.md: the EXIT trap is executed regardless of how the (sub)shell
            // exits - end of its commands, `exit`, errexit or a shell error - exactly once
            self.class("subshell-runs-its-own-exit-trap");
            child.trace.push((OWN_EXIT_MARK, child.status));
            self.global.push((OWN_EXIT_MARK, child.status));
        }
        // any flow ends the child; its exit status is $?
        let st = match child.status {
            Sym::Known(v) => Sym::Known(v & 0xff),
            s => s,
        };
        p.steps = child.steps;
        self.children.push(child.trace);
        st
    }

    fn cond(&mut self, p: &mut Proc, n: &Node) -> Flow {
        p.cond_depth += 1;
        let f = self.exec(p, n);
        p.cond_depth -= 1;
        f
    }

    fn exec(&mut self, p: &mut Proc, n: &Node) -> Flow {
        if p.steps > 5000 {
            self.unspecified = Some("model step limit");
            return Flow::Exit;
        }
        match n {
            Node::Simple(s) => self.simple(p, s),
            Node::Seq(v) => {
                for x in v {
                    let f = self.exec(p, x);
                    if f != Flow::Normal {
                        return f;
                    }
                }
                Flow::Normal
            }
            Node::AndOr(a, rest) => {
                // every operand but the last is a condition context
                let last = rest.len();
                let mut f = if last == 0 { self.exec(p, a) } else { self.cond(p, a) };
                if f != Flow::Normal {
                    return f;
                }
                for (i, (and, x)) in rest.iter().enumerate() {
                    if *and != p.status.ok() {
                        continue;
                    }
                    self.class("and-or-operand-run");
                    f = if i + 1 == last { self.exec(p, x) } else { self.cond(p, x) };
                    if f != Flow::Normal {
                        return f;
                    }
                }
                Flow::Normal
            }
            Node::Not(x) => {
                self.class("negation");
                let f = self.cond(p, x);
                if f != Flow::Normal {
                    return f;
                }
                p.status = Sym::Known(if p.status.ok() { 1 } else { 0 });
                Flow::Normal
            }
            Node::Pipe(v) => {
                self.class("multi-command-pipeline");
                let mut last = Sym::Known(0);
                for x in v {
                    last = self.subshell(p, x);
                }
                p.status = last;
                self.errexit_check(p)
            }
            Node::Group(x) => self.exec(p, x),
            Node::Subshell(x) => {
                self.class("subshell");
                p.status = self.subshell(p, x);
                self.errexit_check(p)
            }
            Node::If { cond, then, elifs, els } => {
                let f = self.cond(p, cond);
                if f != Flow::Normal {
                    return f;
                }
                if p.status.ok() {
                    return self.exec(p, then);
                }
                for (c, b) in elifs {
                    let f = self.cond(p, c);
                    if f != Flow::Normal {
                        return f;
                    }
                    if p.status.ok() {
                        return self.exec(p, b);
                    }
                }
                if let Some(e) = els {
                    return self.exec(p, e);
                }
                p.status = Sym::Known(0);
                Flow::Normal
            }
            Node::Loop { until, id, limit, cond, body } => {
                let mut result = Sym::Known(0);
                loop {
                    // `cnt L<id> <limit>`: succeeds the first <limit> times in this process
                    p.steps += 1;
                    let used = p.counters.entry(*id).or_insert(0);
                    let cnt_ok = *used < *limit;
                    if cnt_ok {
                        *used += 1;
                    }
                    // while cnt && { cond; }      until ! cnt || { cond; }
                    let proceed = if !cnt_ok {
                        false
                    } else {
                        // `$?` left by `cnt` (while) or `! cnt` (until)
                        p.status = Sym::Known(if *until { 1 } else { 0 });
                        let f = self.cond(p, cond);
                        match f {
                            Flow::Normal => {}
                            Flow::Break(k) => {
                                // break inside the condition leaves this loop
                                p.status = Sym::Known(0);
                                if k > 1 {
                                    return Flow::Break(k - 1);
                                }
                                return Flow::Normal;
                            }
                            Flow::Continue(k) => {
                                if k > 1 {
                                    return Flow::Continue(k - 1);
                                }
                                // `continue` in the condition: re-evaluate the condition
                                self.unspecified = Some("continue inside a loop condition");
                                return Flow::Exit;
                            }
                            f => return f,
                        }
                        p.status.ok() != *until
                    };
                    if !proceed {
                        break;
                    }
                    self.class("loop-iteration");
                    let f = self.exec(p, body);
                    result = p.status;
                    match f {
                        Flow::Normal => {}
                        Flow::Break(k) => {
                            if k > 1 {
                                return Flow::Break(k - 1);
                            }
                            break;
                        }
                        Flow::Continue(k) => {
                            if k > 1 {
                                return Flow::Continue(k - 1);
                            }
                        }
                        f => return f,
                    }
                }
                p.status = result;
                Flow::Normal
            }
            Node::For { words, body } => {
                let mut result = Sym::Known(0);
                if *words == 4 {
                    // XCU 2.9.4: a for loop over no items has status zero, whatever the status of
                    // a command substitution in the word list
                    self.class("for-over-nothing-after-failing-substitution");
                }
                for _ in 0..(if *words == 4 { 0 } else { *words }) {
                    self.class("loop-iteration");
                    p.steps += 1;
                    let f = self.exec(p, body);
                    result = p.status;
                    match f {
                        Flow::Normal => {}
                        Flow::Break(k) => {
                            if k > 1 {
                                return Flow::Break(k - 1);
                            }
                            break;
                        }
                        Flow::Continue(k) => {
                            if k > 1 {
                                return Flow::Continue(k - 1);
                            }
                        }
                        f => return f,
                    }
                }
                p.status = result;
                Flow::Normal
            }
            Node::Case { subject, items } => {
                let subj: Vec<char> = CASE_SUBJECT_VALUES[*subject as usize].chars().collect();
                let subst = CASE_SUBJECTS[*subject as usize].contains("$(");
                for (pats, b) in items {
                    for pi in pats {
                        let ptext = CASE_PATTERNS[*pi as usize];
                        let pcs = if ptext == "''" || ptext.starts_with('$') { vec![] } else { fm::pcs_plain(ptext) };
                        let atoms = fm::parse(&pcs).expect("case patterns are well-defined");
                        if fm::full_match(&atoms, &subj) {
                            if subst {
                                // whether `$?` on entry to the item is that of the command
                                // substitution or of the previous command is not specified
                                self.unspecified = Some("`$?` on entry to a case item after a command substitution in the subject");
                            }
                            self.class("case-item-run");
                            return self.exec(p, b);
                        }
                    }
                }
                if subst {
                    self.class("case-without-match-after-failing-substitution");
                }
                p.status = Sym::Known(0);
                Flow::Normal
            }
            Node::FuncDef(idx, body) => {
                p.funcs.insert(*idx, (**body).clone());
                p.status = Sym::Known(0);
                Flow::Normal
            }
        }
    }
}

pub fn expected(prog: &Program) -> Expected {
    let mut m = Model { prog, global: vec![], children: vec![], classes: vec![], unspecified: None };
    let mut p = Proc {
        status: Sym::Known(0),
        funcs: BTreeMap::new(),
        counters: BTreeMap::new(),
        errexit: prog.errexit,
        cond_depth: 0,
        trace: vec![],
        steps: 0,
        own_exit_trap: false,
    };
    let _ = m.exec(&mut p, &prog.body);
    if p.own_exit_trap {
        // the program replaced the EXIT trap of the main shell
        p.trace.push((OWN_EXIT_MARK, p.status));
        m.global.push((OWN_EXIT_MARK, p.status));
    } else if prog.exit_trap {
        p.trace.push((EXIT_MARK, p.status));
        m.global.push((EXIT_MARK, p.status));
    }
    Expected { global: m.global, main: p.trace, children: m.children, status: p.status, classes: m.classes, unspecified: m.unspecified, steps: p.steps }
}
