//! Reference model of POSIX pattern matching notation (XCU 2.14, XBD 9.3.5) for the POSIX locale.
//! Own parser + backtracking matcher; never calls yash-fnmatch.

use serde::{Deserialize, Serialize};

/// A pattern character: `lit` = quoted / backslash-escaped (matches only itself).
#[derive(Clone, Copy, Debug, PartialEq, Eq, Hash, Serialize, Deserialize)]
pub struct PC {
    pub c: char,
    pub lit: bool,
}

pub fn pcs_plain(s: &str) -> Vec<PC> {
    s.chars().map(|c| PC { c, lit: false }).collect()
}

/// Backslash escapes the following character (a trailing backslash is reported separately).
pub fn pcs_escaped(s: &str) -> (Vec<PC>, bool) {
    let mut out = vec![];
    let mut it = s.chars();
    let mut trailing = false;
    while let Some(c) = it.next() {
        if c == '\\' {
            match it.next() {
                Some(n) => out.push(PC { c: n, lit: true }),
                None => trailing = true,
            }
        } else {
            out.push(PC { c, lit: false });
        }
    }
    (out, trailing)
}

#[derive(Clone, Debug, PartialEq, Eq)]
pub enum SetItem {
    Ch(char),
    Range(char, char),
    Class(&'static str),
}

#[derive(Clone, Debug, PartialEq, Eq)]
pub enum Atom {
    Char(char),
    Any,
    Star,
    Set { neg: bool, items: Vec<SetItem> },
}

pub const CLASSES: [&str; 12] = [
    "alnum", "alpha", "blank", "cntrl", "digit", "graph", "lower", "print", "punct", "space", "upper", "xdigit",
];

pub fn in_class(class: &str, c: char) -> bool {
    if !c.is_ascii() {
        return false; // POSIX locale
    }
    match class {
        "alnum" => c.is_ascii_alphanumeric(),
        "alpha" => c.is_ascii_alphabetic(),
        "blank" => c == ' ' || c == '\t',
        "cntrl" => c.is_ascii_control(),
        "digit" => c.is_ascii_digit(),
        "graph" => c.is_ascii_graphic(),
        "lower" => c.is_ascii_lowercase(),
        "print" => c.is_ascii_graphic() || c == ' ',
        "punct" => c.is_ascii_punctuation(),
        "space" => matches!(c, ' ' | '\t' | '\n' | '\r' | '\x0b' | '\x0c'),
        "upper" => c.is_ascii_uppercase(),
        "xdigit" => c.is_ascii_hexdigit(),
        _ => false,
    }
}

fn is_n(p: &[PC], i: usize, c: char) -> bool {
    p.get(i).is_some_and(|x| !x.lit && x.c == c)
}

enum Elem {
    Ch(char, /*usable as range endpoint*/ bool),
    Class(&'static str),
}

/// Parses one bracket element at `i` (not a closing bracket). Returns (element, next index).
fn element(p: &[PC], i: usize) -> Result<(Elem, usize), &'static str> {
    if is_n(p, i, '[') {
        for (delim, kind) in [('.', 0), ('=', 1), (':', 2)] {
            if is_n(p, i + 1, delim) {
                // find the terminator: delim followed by ']' (both unquoted)
                let mut j = i + 2;
                while j + 1 < p.len() {
                    if is_n(p, j, delim) && is_n(p, j + 1, ']') {
                        let content: String = p[i + 2..j].iter().map(|x| x.c).collect();
                        let next = j + 2;
                        return match kind {
                            2 => match CLASSES.iter().find(|c| **c == content) {
                                Some(c) => Ok((Elem::Class(c), next)),
                                None => Err("unknown character class"),
                            },
                            _ => {
                                let mut cs = content.chars();
                                match (cs.next(), cs.next()) {
                                    (Some(c), None) => Ok((Elem::Ch(c, kind == 0), next)),
                                    (None, _) => Err("empty collating symbol / equivalence class"),
                                    _ => Err("multi-character collating element"),
                                }
                            }
                        };
                    }
                    j += 1;
                }
                // no terminator: '[' is an ordinary member
                return Ok((Elem::Ch('[', true), i + 1));
            }
        }
    }
    Ok((Elem::Ch(p[i].c, true), i + 1))
}

/// Tries to parse a bracket expression whose '[' is at `open`. Ok(None): no closing bracket.
fn bracket(p: &[PC], open: usize) -> Result<Option<(Atom, usize)>, &'static str> {
    let mut i = open + 1;
    let mut neg = false;
    if is_n(p, i, '!') || is_n(p, i, '^') {
        neg = true;
        i += 1;
    }
    let mut items = vec![];
    let mut first = true;
    let mut after_range = false;
    loop {
        if i >= p.len() {
            return Ok(None);
        }
        if is_n(p, i, ']') && !first {
            return Ok(Some((Atom::Set { neg, items }, i + 1)));
        }
        let hyphen_here = is_n(p, i, '-');
        let (el, next) = match element(p, i) {
            Ok(x) => x,
            // an unparsable inner element only matters if the bracket is closed at all; to stay
            // sound, treat the whole pattern as unspecified
            Err(e) => return Err(e),
        };
        first = false;
        if hyphen_here && after_range && !(is_n(p, next, ']')) {
            return Err("hyphen directly after a range (undefined in POSIX)");
        }
        after_range = false;
        // range?
        if is_n(p, next, '-') && next + 1 < p.len() && !is_n(p, next + 1, ']') {
            let (end, next2) = element(p, next + 1)?;
            match (el, end) {
                (Elem::Ch(a, true), Elem::Ch(b, true)) => {
                    if a > b {
                        return Err("range with start > end");
                    }
                    items.push(SetItem::Range(a, b));
                    i = next2;
                    after_range = true;
                    continue;
                }
                _ => return Err("range endpoint is a class or equivalence class"),
            }
        }
        match el {
            Elem::Ch(c, _) => items.push(SetItem::Ch(c)),
            Elem::Class(c) => items.push(SetItem::Class(c)),
        }
        i = next;
    }
}

/// Parses a pattern. Err(reason) = POSIX leaves the meaning undefined/unspecified.
pub fn parse(p: &[PC]) -> Result<Vec<Atom>, &'static str> {
    let mut atoms = vec![];
    let mut i = 0;
    while i < p.len() {
        let x = p[i];
        if x.lit {
            atoms.push(Atom::Char(x.c));
            i += 1;
            continue;
        }
        match x.c {
            '?' => {
                atoms.push(Atom::Any);
                i += 1;
            }
            '*' => {
                atoms.push(Atom::Star);
                i += 1;
            }
            '[' => match bracket(p, i)? {
                Some((a, next)) => {
                    atoms.push(a);
                    i = next;
                }
                None => {
                    atoms.push(Atom::Char('['));
                    i += 1;
                }
            },
            c => {
                atoms.push(Atom::Char(c));
                i += 1;
            }
        }
    }
    Ok(atoms)
}

pub fn has_special(atoms: &[Atom]) -> bool {
    atoms.iter().any(|a| !matches!(a, Atom::Char(_)))
}

fn set_matches(neg: bool, items: &[SetItem], c: char) -> bool {
    let hit = items.iter().any(|it| match it {
        SetItem::Ch(x) => *x == c,
        SetItem::Range(a, b) => *a <= c && c <= *b,
        SetItem::Class(k) => in_class(k, c),
    });
    hit != neg
}

/// Does the whole of `t` match the whole pattern?
///
/// Dynamic programme over (atoms consumed, characters consumed): `reach[j]` says whether the
/// first `i` atoms can match exactly the first `j` characters. Same relation as the textbook
/// recursive definition (kept below as `full_match_recursive` and compared with it in the quick
/// tier on small inputs), but polynomial, so that generated patterns with many `*` stay cheap.
pub fn full_match(atoms: &[Atom], t: &[char]) -> bool {
    let n = t.len();
    let mut reach = vec![false; n + 1];
    reach[0] = true;
    for a in atoms {
        let mut next = vec![false; n + 1];
        match a {
            Atom::Star => {
                let mut seen = false;
                for j in 0..=n {
                    seen |= reach[j];
                    next[j] = seen;
                }
            }
            _ => {
                for j in 0..n {
                    if reach[j] {
                        let c = t[j];
                        let ok = match a {
                            Atom::Char(x) => *x == c,
                            Atom::Any => true,
                            Atom::Set { neg, items } => set_matches(*neg, items, c),
                            Atom::Star => unreachable!(),
                        };
                        if ok {
                            next[j + 1] = true;
                        }
                    }
                }
            }
        }
        reach = next;
    }
    reach[n]
}

/// The definition, literally (exponential on patterns with many `*`).
pub fn full_match_recursive(atoms: &[Atom], t: &[char]) -> bool {
    match atoms.first() {
        None => t.is_empty(),
        Some(Atom::Star) => (0..=t.len()).any(|k| full_match_recursive(&atoms[1..], &t[k..])),
        Some(a) => {
            let Some(&c) = t.first() else { return false };
            let ok = match a {
                Atom::Char(x) => *x == c,
                Atom::Any => true,
                Atom::Set { neg, items } => set_matches(*neg, items, c),
                Atom::Star => unreachable!(),
            };
            ok && full_match_recursive(&atoms[1..], &t[1..])
        }
    }
}

#[derive(Clone, Copy, Debug, PartialEq, Eq)]
pub enum Tri {
    Yes,
    No,
    Unspecified(&'static str),
}

/// Whole-string match with the pathname-style leading-period rule.
pub fn matches_period(atoms: &[Atom], t: &[char], literal_period: bool) -> Tri {
    if literal_period && t.first() == Some(&'.') {
        match atoms.first() {
            Some(Atom::Char('.')) => {}
            Some(Atom::Set { neg, items }) if set_matches(*neg, items, '.') && !*neg => {
                return Tri::Unspecified("explicit period in a bracket expression vs leading period");
            }
            _ => return Tri::No,
        }
    }
    if full_match(atoms, t) { Tri::Yes } else { Tri::No }
}

#[derive(Clone, Copy, Debug, PartialEq, Eq, Hash, Serialize, Deserialize)]
pub enum TrimKind {
    /// `#`
    PrefixShortest,
    /// `##`
    PrefixLongest,
    /// `%`
    SuffixShortest,
    /// `%%`
    SuffixLongest,
}

/// The string that remains after removing the shortest/longest matching prefix/suffix.
pub fn trim(atoms: &[Atom], t: &[char], kind: TrimKind) -> String {
    let n = t.len();
    let ks: Vec<usize> = match kind {
        TrimKind::PrefixShortest => (0..=n).collect(),
        TrimKind::PrefixLongest => (0..=n).rev().collect(),
        TrimKind::SuffixShortest => (0..=n).rev().collect(),
        TrimKind::SuffixLongest => (0..=n).collect(),
    };
    for k in ks {
        match kind {
            TrimKind::PrefixShortest | TrimKind::PrefixLongest => {
                if full_match(atoms, &t[..k]) {
                    return t[k..].iter().collect();
                }
            }
            _ => {
                if full_match(atoms, &t[k..]) {
                    return t[..k].iter().collect();
                }
            }
        }
    }
    t.iter().collect()
}
