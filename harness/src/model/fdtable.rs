//! Reference model for C09: a descriptor table, the open file descriptions behind it and the files
//! behind those, under the POSIX redirection operators (XCU 2.7) as documented in
//! `docs/src/language/redirections`. Nothing here calls the shell.
//!
//! The model is deliberately small: a fixed universe of path names (see [`PathKind`]), regular
//! files as byte vectors, open file descriptions with access mode / append flag / offset, and a
//! table fd -> (description, close-on-exec).
//!
//! Three kinds of "cannot say":
//! * [`Step::Unspec`] — POSIX leaves the result open (e.g. duplicating a here-document descriptor
//!   for output: whether that descriptor is writable is an implementation matter);
//! * [`Step::Uncertain`] — the *simulated OS* is known not to behave like POSIX for the operand
//!   (it creates missing parent directories on `O_CREAT`), so a prediction would test the
//!   simulator, not the shell;
//! * tainted files — a diagnostic of unspecified wording was written there.

use serde::{Deserialize, Serialize};
use std::collections::{BTreeMap, BTreeSet};

#[derive(Clone, Copy, Debug, PartialEq, Eq, Hash, PartialOrd, Ord, Serialize, Deserialize)]
pub enum Op {
    /// `<`
    In,
    /// `>`
    Out,
    /// `>>`
    Append,
    /// `>|`
    Clobber,
    /// `<>`
    InOut,
    /// `<&`
    DupIn,
    /// `>&`
    DupOut,
    /// `<<`
    Here,
    /// `<<-`
    HereDash,
}

pub const FILE_OPS: [Op; 5] = [Op::In, Op::Out, Op::Append, Op::Clobber, Op::InOut];
pub const DUP_OPS: [Op; 2] = [Op::DupIn, Op::DupOut];
pub const HERE_OPS: [Op; 2] = [Op::Here, Op::HereDash];

impl Op {
    pub fn text(self) -> &'static str {
        match self {
            Op::In => "<",
            Op::Out => ">",
            Op::Append => ">>",
            Op::Clobber => ">|",
            Op::InOut => "<>",
            Op::DupIn => "<&",
            Op::DupOut => ">&",
            Op::Here => "<<",
            Op::HereDash => "<<-",
        }
    }
    pub fn default_fd(self) -> i32 {
        match self {
            Op::In | Op::InOut | Op::DupIn | Op::Here | Op::HereDash => 0,
            Op::Out | Op::Append | Op::Clobber | Op::DupOut => 1,
        }
    }
    pub fn is_file(self) -> bool {
        FILE_OPS.contains(&self)
    }
    pub fn is_dup(self) -> bool {
        DUP_OPS.contains(&self)
    }
    pub fn is_here(self) -> bool {
        HERE_OPS.contains(&self)
    }
    pub fn label(self) -> &'static str {
        match self {
            Op::In => "op:<",
            Op::Out => "op:>",
            Op::Append => "op:>>",
            Op::Clobber => "op:>|",
            Op::InOut => "op:<>",
            Op::DupIn => "op:<&",
            Op::DupOut => "op:>&",
            Op::Here => "op:<<",
            Op::HereDash => "op:<<-",
        }
    }
}

/// The fixed universe of path operands (relative to the working directory `/work`).
#[derive(Clone, Copy, Debug, PartialEq, Eq, Hash, PartialOrd, Ord, Serialize, Deserialize)]
pub enum PathKind {
    /// existing regular file `f1`
    F1,
    /// existing regular file `f2`
    F2,
    /// `n1`: does not exist at the start (a redirection may create it)
    N1,
    /// `n2`: likewise
    N2,
    /// `d/n3`: new file in an existing subdirectory
    DirNew,
    /// `nodir/x`: path through a directory that does not exist (ENOENT)
    MissingDir,
    /// `f1/x`: path through a regular file (ENOTDIR)
    ThroughFile,
    /// `d`: an existing directory
    Dir,
    /// `l1`: symbolic link to the existing regular file `f1`
    LinkF1,
    /// `l2`: symbolic link to `n2`, which does not exist at the start
    LinkN2,
    /// `ld/n3`: the new file `d/n3` reached through `ld`, a symbolic link to the directory `d`
    LinkDirNew,
}

pub const ALL_PATHS: [PathKind; 11] = [
    PathKind::F1,
    PathKind::F2,
    PathKind::N1,
    PathKind::N2,
    PathKind::DirNew,
    PathKind::MissingDir,
    PathKind::ThroughFile,
    PathKind::Dir,
    PathKind::LinkF1,
    PathKind::LinkN2,
    PathKind::LinkDirNew,
];

impl PathKind {
    pub fn text(self) -> &'static str {
        match self {
            PathKind::F1 => "f1",
            PathKind::F2 => "f2",
            PathKind::N1 => "n1",
            PathKind::N2 => "n2",
            PathKind::DirNew => "d/n3",
            PathKind::MissingDir => "nodir/x",
            PathKind::ThroughFile => "f1/x",
            PathKind::Dir => "d",
            PathKind::LinkF1 => "l1",
            PathKind::LinkN2 => "l2",
            PathKind::LinkDirNew => "ld/n3",
        }
    }

    /// The name (relative to the working directory, free of symbolic links) of the file the path
    /// leads to.
    pub fn file_name(self) -> &'static str {
        match self {
            PathKind::LinkF1 => "f1",
            PathKind::LinkN2 => "n2",
            PathKind::LinkDirNew => "d/n3",
            other => other.text(),
        }
    }
}

#[derive(Clone, Debug, PartialEq, Eq, Hash, Serialize, Deserialize)]
pub enum Operand {
    /// pathname (file operators)
    Path(PathKind),
    /// descriptor number (`<&`, `>&`)
    Fd(u8),
    /// `-`
    Close,
    /// `x`: not a number (`<&`, `>&`)
    Malformed,
    /// `${u?}` with `u` unset: expansion error
    ExpErr,
    /// here-document: indices into [`HERE_LINES`], delimiter quoted or not
    Here { lines: Vec<u8>, quoted: bool },
}

#[derive(Clone, Debug, PartialEq, Eq, Hash, Serialize, Deserialize)]
pub struct Redir {
    pub fd: Option<u8>,
    pub op: Op,
    pub operand: Operand,
}

/// Here-document content alphabet: (raw line(s) as written in the script, the text POSIX prescribes
/// when the delimiter is unquoted and `v=VAL`). None of the raw lines starts with a tab except
/// where noted; `<<-` strips leading tabs of each physical line (none of the expansions produces
/// or removes a leading tab, and the continuation unit has no tab after the continuation, so
/// stripping commutes with expansion for this alphabet).
pub const HERE_LINES: [(&str, &str); 10] = [
    ("plain text\n", "plain text\n"),
    ("\tone tab\n", "\tone tab\n"),
    ("\t\ttwo tabs then $v\n", "\t\ttwo tabs then VAL\n"),
    ("  spaces $v end\n", "  spaces VAL end\n"),
    ("back\\slash \\$v \\\\ q\n", "back\\slash $v \\ q\n"),
    ("cont\\\ninued ${v}.\n", "continued VAL.\n"),
    ("\n", "\n"),
    ("'single' \"double\" $v\n", "'single' \"double\" VAL\n"),
    ("$((1+2)) arith\n", "3 arith\n"),
    ("\tEOFx not a delimiter\t\n", "\tEOFx not a delimiter\t\n"),
];

fn strip_tabs_per_line(s: &str) -> String {
    let mut out = String::new();
    for line in s.split_inclusive('\n') {
        out.push_str(line.trim_start_matches('\t'));
    }
    out
}

impl Redir {
    pub fn target(&self) -> i32 {
        self.fd.map_or(self.op.default_fd(), |f| f as i32)
    }

    /// Operator and operand agree (what the generators produce).
    pub fn well_formed(&self) -> bool {
        match (&self.operand, self.op) {
            (Operand::Path(_), op) => op.is_file(),
            (Operand::Fd(_) | Operand::Close | Operand::Malformed, op) => op.is_dup(),
            (Operand::ExpErr, op) => op.is_file() || op.is_dup(),
            (Operand::Here { lines, .. }, op) => op.is_here() && lines.iter().all(|l| (*l as usize) < HERE_LINES.len()),
        }
    }

    pub fn delimiter(idx: usize) -> String {
        format!("EOF{idx}")
    }

    /// Script text of the redirection; `idx` makes the here-document delimiter unique.
    pub fn render(&self, idx: usize) -> String {
        let fd = self.fd.map_or(String::new(), |f| f.to_string());
        let operand = match &self.operand {
            Operand::Path(p) => p.text().to_string(),
            Operand::Fd(n) => n.to_string(),
            Operand::Close => "-".to_string(),
            Operand::Malformed => "x".to_string(),
            Operand::ExpErr => "${u?}".to_string(),
            Operand::Here { quoted, .. } => {
                if *quoted {
                    format!("'{}'", Self::delimiter(idx))
                } else {
                    Self::delimiter(idx)
                }
            }
        };
        format!("{fd}{}{operand}", self.op.text())
    }

    /// Lines that must follow the command line in the script (content + delimiter line).
    pub fn here_script_text(&self, idx: usize) -> Option<String> {
        let Operand::Here { lines, .. } = &self.operand else { return None };
        let mut s = String::new();
        for l in lines {
            s.push_str(HERE_LINES[*l as usize].0);
        }
        if self.op == Op::HereDash {
            // the delimiter line may be indented with tabs, too
            s.push('\t');
        }
        s.push_str(&Self::delimiter(idx));
        s.push('\n');
        Some(s)
    }

    /// What a reader of the here-document descriptor gets (POSIX XCU 2.7.4).
    pub fn here_expected_text(&self) -> Option<String> {
        let Operand::Here { lines, quoted } = &self.operand else { return None };
        let mut s = String::new();
        for l in lines {
            let (raw, expanded) = HERE_LINES[*l as usize];
            s.push_str(if *quoted { raw } else { expanded });
        }
        Some(if self.op == Op::HereDash { strip_tabs_per_line(&s) } else { s })
    }
}

// ---------------------------------------------------------------------------------------------

#[derive(Clone, Debug, PartialEq, Eq, PartialOrd, Ord, Hash)]
pub enum FileId {
    /// what descriptor 0/1/2 of the shell was connected to at start-up
    Std(u8),
    /// path relative to the working directory
    Named(String),
    /// anonymous here-document storage
    Here(u32),
    /// the script file the shell reads commands from (`yash FILE`)
    Script,
    /// the directory `d`
    Dir,
    /// anonymous pipe of a pipeline
    Pipe(u32),
}

#[derive(Clone, Debug, PartialEq, Eq)]
pub struct Ofd {
    pub file: FileId,
    pub readable: bool,
    /// None: not specified (here-document descriptors)
    pub writable: Option<bool>,
    pub append: bool,
    pub offset: usize,
}

#[derive(Clone, Copy, Debug, PartialEq, Eq)]
pub struct Entry {
    pub ofd: usize,
    pub cloexec: bool,
}

pub type Table = BTreeMap<i32, Entry>;

#[derive(Clone, Copy, Debug, PartialEq, Eq)]
pub enum Step {
    Ok,
    /// the redirection must fail (reason label)
    Fail(&'static str),
    Unspec(&'static str),
    Uncertain(&'static str),
}

#[derive(Clone, Copy, Debug, PartialEq, Eq)]
pub enum Io {
    Ok,
    Failed,
    Unspec(&'static str),
}

#[derive(Clone, Debug, Default)]
pub struct ListResult {
    /// index of the first failing redirection and why
    pub failed_at: Option<(usize, &'static str)>,
    pub unspec: Option<&'static str>,
    pub uncertain: Option<&'static str>,
    /// number of redirections applied successfully
    pub applied: usize,
}

impl ListResult {
    pub fn all_ok(&self) -> bool {
        self.failed_at.is_none() && self.unspec.is_none() && self.uncertain.is_none()
    }
}

#[derive(Clone, Debug)]
pub struct World {
    /// contents of the existing regular files (and of the anonymous ones)
    pub files: BTreeMap<FileId, Vec<u8>>,
    pub ofds: Vec<Ofd>,
    pub table: Table,
    pub noclobber: bool,
    /// files whose content the model does not know (a diagnostic went there, or data of unknown
    /// content was copied there)
    pub tainted: BTreeSet<FileId>,
    /// number of diagnostics that must have reached the original standard error
    pub diags_on_stderr: u32,
    /// number of diagnostics emitted anywhere
    pub diags: u32,
    counter: u32,
}

pub const CAT_CHUNK: usize = 200;

impl World {
    /// The state a shell starts with under the harness: 0/1/2 read-write on three distinct files.
    pub fn new(named: &[(&str, &str)]) -> World {
        let mut w = World {
            files: BTreeMap::new(),
            ofds: vec![],
            table: Table::new(),
            noclobber: false,
            tainted: BTreeSet::new(),
            diags_on_stderr: 0,
            diags: 0,
            counter: 0,
        };
        for fd in 0..3u8 {
            w.files.insert(FileId::Std(fd), vec![]);
            let i = w.new_ofd(FileId::Std(fd), true, Some(true), false);
            w.table.insert(fd as i32, Entry { ofd: i, cloexec: false });
        }
        for (name, content) in named {
            w.files.insert(FileId::Named(name.to_string()), content.as_bytes().to_vec());
        }
        w
    }

    pub fn new_ofd(&mut self, file: FileId, readable: bool, writable: Option<bool>, append: bool) -> usize {
        self.ofds.push(Ofd { file, readable, writable, append, offset: 0 });
        self.ofds.len() - 1
    }

    /// The shell reads its script through an internal descriptor (>= 10, close-on-exec).
    pub fn add_script_fd(&mut self, fd: i32, content: &str) {
        self.files.insert(FileId::Script, content.as_bytes().to_vec());
        let i = self.new_ofd(FileId::Script, true, Some(false), false);
        self.table.insert(fd, Entry { ofd: i, cloexec: true });
    }

    /// Connects fd 0 to the read end of a new pipe holding `content` (writer finished).
    pub fn attach_pipe_stdin(&mut self, content: &str) {
        self.counter += 1;
        let id = FileId::Pipe(self.counter);
        self.files.insert(id.clone(), content.as_bytes().to_vec());
        let i = self.new_ofd(id, true, Some(false), false);
        self.table.insert(0, Entry { ofd: i, cloexec: false });
    }

    fn named(p: PathKind) -> FileId {
        FileId::Named(p.file_name().to_string())
    }

    fn open(&mut self, op: Op, p: PathKind) -> Result<usize, Step> {
        let creates = op != Op::In;
        match p {
            PathKind::ThroughFile => return Err(Step::Fail("enotdir")),
            PathKind::MissingDir => {
                return Err(if creates {
                    Step::Uncertain("the simulated OS creates missing parent directories on O_CREAT")
                } else {
                    Step::Fail("enoent")
                });
            }
            PathKind::Dir => {
                if creates {
                    // O_WRONLY / O_RDWR on a directory: EISDIR (under noclobber the exclusive
                    // creation fails first; an error either way)
                    return Err(Step::Fail("eisdir"));
                }
                return Ok(self.new_ofd(FileId::Dir, true, Some(false), false));
            }
            _ => {}
        }
        let id = Self::named(p);
        let exists = self.files.contains_key(&id);
        if p == PathKind::LinkN2 && !exists && op == Op::Out && self.noclobber {
            // the link exists, the file does not: POSIX only says "exists and is a regular file"
            return Err(Step::Uncertain("noclobber and `>` on a dangling symbolic link"));
        }
        match op {
            Op::In => {
                if !exists {
                    return Err(Step::Fail("enoent"));
                }
                Ok(self.new_ofd(id, true, Some(false), false))
            }
            Op::Out | Op::Clobber => {
                if op == Op::Out && self.noclobber && exists {
                    return Err(Step::Fail("noclobber-refused"));
                }
                self.files.insert(id.clone(), vec![]); // create or truncate
                Ok(self.new_ofd(id, false, Some(true), false))
            }
            Op::Append => {
                self.files.entry(id.clone()).or_default();
                Ok(self.new_ofd(id, false, Some(true), true))
            }
            Op::InOut => {
                self.files.entry(id.clone()).or_default();
                Ok(self.new_ofd(id, true, Some(true), false))
            }
            _ => unreachable!("not a file operator"),
        }
    }

    /// Applies one redirection to the table (no undo information: callers keep a copy of the
    /// table, because "afterwards the table is what it was before" is the specification).
    pub fn apply_redir(&mut self, r: &Redir) -> Step {
        assert!(r.well_formed(), "ill-formed redirection {r:?}");
        let target = r.target();
        // descriptors the shell keeps for itself (>= 10, close-on-exec) cannot be redirected
        if self.table.get(&target).is_some_and(|e| e.cloexec) {
            return Step::Fail("reserved-target");
        }
        enum Src {
            Ofd(usize),
            Closed,
        }
        let src = match (&r.operand, r.op) {
            (Operand::ExpErr, _) => return Step::Fail("expansion"),
            (Operand::Path(p), op) => match self.open(op, *p) {
                Ok(i) => Src::Ofd(i),
                Err(step) => return step,
            },
            (Operand::Close, _) => Src::Closed,
            (Operand::Malformed, _) => return Step::Fail("malformed-fd"),
            (Operand::Fd(n), op) => {
                let n = *n as i32;
                let Some(e) = self.table.get(&n).copied() else {
                    return Step::Fail("dup-of-closed-fd");
                };
                if e.cloexec {
                    return Step::Fail("dup-of-internal-fd");
                }
                let o = &self.ofds[e.ofd];
                if op == Op::DupIn {
                    if !o.readable {
                        return Step::Fail("dup-of-unreadable-fd");
                    }
                } else {
                    match o.writable {
                        Some(true) => {}
                        Some(false) => return Step::Fail("dup-of-unwritable-fd"),
                        None => return Step::Unspec("whether a here-document descriptor is open for writing is unspecified"),
                    }
                }
                Src::Ofd(e.ofd)
            }
            (Operand::Here { .. }, _) => {
                self.counter += 1;
                let id = FileId::Here(self.counter);
                self.files.insert(id.clone(), r.here_expected_text().unwrap().into_bytes());
                Src::Ofd(self.new_ofd(id, true, None, false))
            }
        };
        match src {
            Src::Closed => {
                self.table.remove(&target);
            }
            Src::Ofd(i) => {
                self.table.insert(target, Entry { ofd: i, cloexec: false });
            }
        }
        Step::Ok
    }

    /// Applies redirections left to right, stopping at the first that does not succeed. The table
    /// keeps the effect of the successful prefix (the caller restores it).
    pub fn apply_list(&mut self, rs: &[Redir]) -> ListResult {
        let mut res = ListResult::default();
        for (i, r) in rs.iter().enumerate() {
            match self.apply_redir(r) {
                Step::Ok => res.applied += 1,
                Step::Fail(why) => {
                    res.failed_at = Some((i, why));
                    break;
                }
                Step::Unspec(why) => {
                    res.unspec = Some(why);
                    break;
                }
                Step::Uncertain(why) => {
                    res.uncertain = Some(why);
                    break;
                }
            }
        }
        res
    }

    /// Where a diagnostic written to descriptor 2 ends up (None: lost).
    pub fn diag_dest(&self) -> Option<FileId> {
        let e = self.table.get(&2)?;
        let o = &self.ofds[e.ofd];
        if o.writable == Some(true) && o.file != FileId::Dir { Some(o.file.clone()) } else { None }
    }

    pub fn taint(&mut self, f: FileId) {
        self.tainted.insert(f);
    }

    /// A diagnostic of unspecified wording is written to descriptor 2.
    pub fn diag(&mut self) {
        self.diags += 1;
        match self.diag_dest() {
            Some(f) => {
                if f == FileId::Std(2) {
                    self.diags_on_stderr += 1;
                }
                self.taint(f);
            }
            None => {
                // here-document descriptor on fd 2: may or may not be writable
                if let Some(e) = self.table.get(&2) {
                    let o = &self.ofds[e.ofd];
                    if o.writable.is_none() {
                        let f = o.file.clone();
                        self.taint(f);
                    }
                }
            }
        }
    }

    /// A redirection failed while `self.table` holds the successful prefix; `restored` is the
    /// table from before the command. The diagnostic goes to descriptor 2 of one or the other
    /// (the manual does not say which): both destinations become unknown, and the diagnostic is
    /// required on the original standard error only if both agree on it.
    pub fn diag_redirection_failure(&mut self, restored: &Table) {
        let partial = self.diag_dest();
        let partial_table = std::mem::replace(&mut self.table, restored.clone());
        let after = self.diag_dest();
        self.diags += 1;
        if partial == Some(FileId::Std(2)) && after == Some(FileId::Std(2)) {
            self.diags_on_stderr += 1;
        }
        for t in [&partial_table, restored] {
            if let Some(e) = t.get(&2) {
                let o = &self.ofds[e.ofd];
                if o.writable != Some(false) && o.file != FileId::Dir {
                    let f = o.file.clone();
                    self.tainted.insert(f);
                }
            }
        }
    }

    pub fn write_fd(&mut self, fd: i32, data: &[u8]) -> Io {
        let Some(e) = self.table.get(&fd).copied() else { return Io::Failed };
        let (file, append, offset) = {
            let o = &self.ofds[e.ofd];
            match o.writable {
                Some(true) => {}
                Some(false) => return Io::Failed,
                None => return Io::Unspec("writing to a here-document descriptor"),
            }
            (o.file.clone(), o.append, o.offset)
        };
        if file == FileId::Dir {
            return Io::Failed;
        }
        if self.tainted.contains(&file) {
            return Io::Ok; // content unknown anyway
        }
        let content = self.files.get_mut(&file).expect("open description on a file that does not exist");
        let at = if append { content.len() } else { offset };
        if at > content.len() {
            content.resize(at, 0); // POSIX: the gap reads as zero bytes
        }
        let end = at + data.len();
        if end > content.len() {
            content.resize(end, 0);
        }
        content[at..end].copy_from_slice(data);
        self.ofds[e.ofd].offset = end;
        Io::Ok
    }

    /// Reads up to `max` bytes. Err(()) = the read fails; Ok(None) = content unknown (tainted).
    pub fn read_fd(&mut self, fd: i32, max: usize) -> Result<Option<Vec<u8>>, ()> {
        let Some(e) = self.table.get(&fd).copied() else { return Err(()) };
        let o = &self.ofds[e.ofd];
        if !o.readable || o.file == FileId::Dir {
            return Err(());
        }
        if self.tainted.contains(&o.file) {
            return Ok(None);
        }
        let content = &self.files[&o.file];
        let start = o.offset.min(content.len());
        let end = (start + max).min(content.len());
        let data = content[start..end].to_vec();
        if !data.is_empty() {
            self.ofds[e.ofd].offset = end;
        }
        Ok(Some(data))
    }

    /// The probe built-in `echo TEXT`: writes TEXT and a newline to descriptor 1; when that fails
    /// it prints a diagnostic and returns non-zero. Returns Ok(success).
    pub fn echo(&mut self, text: &str) -> Result<bool, &'static str> {
        let mut data = text.as_bytes().to_vec();
        data.push(b'\n');
        match self.write_fd(1, &data) {
            Io::Ok => Ok(true),
            Io::Failed => {
                self.diag();
                Ok(false)
            }
            Io::Unspec(w) => Err(w),
        }
    }

    /// The probe built-in `cat`: copies descriptor 0 to descriptor 1 in chunks of [`CAT_CHUNK`]
    /// bytes until end of file; silent; fails when a read or write fails. Err = unspecified or
    /// the copy would not terminate (`cat <f >>f`).
    pub fn cat(&mut self) -> Result<bool, &'static str> {
        // Conservative guard for the harness: with input and output on the same file a shell that
        // gets truncation or offsets wrong can make the real copy run forever (the simulated OS
        // has no way to interrupt it), so such scripts are not generated at all.
        if let (Some(i), Some(o)) = (self.table.get(&0), self.table.get(&1)) {
            let (fi, fo) = (&self.ofds[i.ofd], &self.ofds[o.ofd]);
            if fi.file == fo.file && fi.readable && fo.writable != Some(false) && fi.file != FileId::Dir {
                return Err("cat with input and output on the same file");
            }
        }
        for _ in 0..64 {
            match self.read_fd(0, CAT_CHUNK) {
                Err(()) => return Ok(false),
                Ok(None) => {
                    // unknown data: whatever descriptor 1 points to becomes unknown as well
                    if let Some(e) = self.table.get(&1) {
                        let o = &self.ofds[e.ofd];
                        if o.writable != Some(false) {
                            let f = o.file.clone();
                            self.taint(f);
                        }
                    }
                    return Err("cat from a file of unknown content");
                }
                Ok(Some(data)) => {
                    if data.is_empty() {
                        return Ok(true);
                    }
                    match self.write_fd(1, &data) {
                        Io::Ok => {}
                        Io::Failed => return Ok(false),
                        Io::Unspec(w) => return Err(w),
                    }
                }
            }
        }
        Err("cat would not terminate (input grows while it is copied)")
    }

    /// Runs `action` under a redirection list as a command that is *not* `exec`: the table is
    /// restored afterwards. Returns the list result and, if the list succeeded, the action's value.
    pub fn with_redirs<T>(&mut self, rs: &[Redir], action: impl FnOnce(&mut World) -> T) -> (ListResult, Option<T>) {
        let saved = self.table.clone();
        let res = self.apply_list(rs);
        if res.all_ok() {
            let v = action(self);
            self.table = saved;
            (res, Some(v))
        } else {
            if res.failed_at.is_some() {
                self.diag_redirection_failure(&saved);
            }
            self.table = saved;
            (res, None)
        }
    }
}

#[cfg(test)]
mod tests {
    use super::*;

    #[test]
    fn here_text() {
        let r = Redir { fd: None, op: Op::HereDash, operand: Operand::Here { lines: vec![1, 2, 5], quoted: false } };
        assert_eq!(r.here_expected_text().unwrap(), "one tab\ntwo tabs then VAL\ncontinued VAL.\n");
        let r = Redir { fd: None, op: Op::Here, operand: Operand::Here { lines: vec![4], quoted: true } };
        assert_eq!(r.here_expected_text().unwrap(), "back\\slash \\$v \\\\ q\n");
    }
}
