pub mod expand;
pub mod fdtable;
pub mod fnmatch;
pub mod glob;
pub mod interp;
