pub mod expand;
pub mod fnmatch;
pub mod glob;
pub mod interp;
