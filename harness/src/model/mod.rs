pub mod fnmatch;
