pub mod expand;
pub mod fnmatch;
