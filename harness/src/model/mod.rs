pub mod expand;
pub mod fnmatch;
pub mod interp;
