#![allow(dead_code)]
use vcheck::engine::*;
use vcheck::{props, rsys, vsys};
use std::time::Instant;

fn usage() -> ! {
    eprintln!("usage: vcheck <Cxx> quick|thorough | vcheck <Cxx> replay <file> | vcheck list");
    std::process::exit(2)
}

fn main() {
    if std::env::var_os("VCHECK_AS_YASH3").is_some() {
        // behave exactly like the project's `yash3` binary (real main, real glue, real OS)
        yash_cli::main();
    }
    let args: Vec<String> = std::env::args().collect();
    if args.len() < 2 {
        usage();
    }
    if args[1] == "__real" {
        rsys::child_main(&args[2]);
    }
    if args[1] == "rsh" {
        // debugging aid: run a script on the real OS in a scratch directory
        let r = rsys::run(&args[2], &[]).unwrap();
        println!("status={}\n--- stdout\n{}--- stderr\n{}--- tree {:?}", r.status, r.stdout, r.stderr, r.tree);
        return;
    }
    if args[1] == "sh" {
        // debugging aid: vcheck sh '<script>' [seed]
        install_panic_hook();
        let mut setup = vsys::Setup::script(&args[2]);
        if std::env::var_os("VCHECK_SH_INTERACTIVE").is_some() {
            setup.argv = vec!["yash".into(), "-i".into()];
            setup.stdin = Some(args[2].clone().into_bytes());
        }
        if let Some(seed) = args.get(3).and_then(|s| s.parse().ok()) {
            setup.chooser = vsys::Chooser::Seeded(seed);
        }
        let r = vsys::run(&setup);
        println!("status={} finished={} steps={} deadlock={} choices={}", r.status, r.finished, r.log.steps, r.log.deadlock, r.log.choices.len());
        println!("--- stdout\n{}--- stderr\n{}--- trace", r.stdout, r.stderr);
        for t in &r.trace {
            println!("{t:?}");
        }
        for p in &r.procs {
            println!("{p:?}");
        }
        if let Some(p) = r.panic {
            println!("PANIC: {p}");
        }
        return;
    }
    if args[1] == "fuzzdbg" {
        // debugging aid: vcheck fuzzdbg <target> <file>: decode + evaluate one fuzz input
        install_panic_hook();
        let t = vcheck::fuzzing::target(&args[2]).expect("target");
        init_known(t.prop());
        let data = std::fs::read(&args[3]).expect("file");
        match t.eval_bytes(&data) {
            None => println!("undecodable"),
            Some(ev) => println!("driver={} known={:?} verdict={:?}\ncase={}", ev.driver, ev.known, ev.outcome.verdict, ev.case),
        }
        return;
    }
    if args[1] == "sched" {
        install_panic_hook();
        sched_demo(&args[2]);
        return;
    }
    if args[1] == "pipedemo" {
        install_panic_hook();
        pipe_demo(&args[2]);
        return;
    }
    if args[1] == "bench" {
        install_panic_hook();
        bench_vsys();
        return;
    }
    if args[1] == "list" {
        for p in props::all() {
            println!("{}", p.info.id);
        }
        return;
    }
    if args.len() < 3 {
        usage();
    }
    install_panic_hook();
    let id = args[1].as_str();
    let Some(prop) = props::all().into_iter().find(|p| p.info.id == id) else {
        eprintln!("unknown property {id}");
        std::process::exit(2)
    };
    // every run is a pure function of VERIF_SEED; the value is reduced to 40 bits so that the
    // generators' seed arithmetic (seed * small constant + index) cannot overflow
    let seed: u64 = std::env::var("VERIF_SEED").ok().and_then(|s| s.parse::<u64>().ok()).unwrap_or(1) & ((1 << 40) - 1);
    let threads: usize = std::env::var("VERIF_THREADS")
        .ok()
        .and_then(|s| s.parse().ok())
        .unwrap_or_else(|| std::thread::available_parallelism().map(|n| n.get()).unwrap_or(8));
    match args[2].as_str() {
        "replay" => {
            let Some(path) = args.get(3) else { usage() };
            let text = std::fs::read_to_string(path).unwrap_or_else(|e| {
                eprintln!("cannot read {path}: {e}");
                std::process::exit(2)
            });
            let v: serde_json::Value = serde_json::from_str(&text).unwrap_or_else(|e| {
                eprintln!("cannot parse {path}: {e}");
                std::process::exit(2)
            });
            init_known(id);
            let driver = v["driver"].as_str().unwrap_or("");
            match (prop.replay)(driver, &v["case"]) {
                Ok((out, known)) => {
                    if let Some(k) = known {
                        println!("KNOWN-FINDING: property={id} key={k} (case reproduces a listed open finding)");
                        std::process::exit(0);
                    }
                    match out.verdict {
                        Verdict::Fail(msg) => {
                            println!("VIOLATION property={id} replay={path}");
                            println!("  driver={driver} message={}", msg.replace('\n', "\\n"));
                            std::process::exit(1);
                        }
                        Verdict::Skip(w) => {
                            println!("[{id}] replay: case skipped by the oracle ({w})");
                        }
                        Verdict::Pass => println!("[{id}] replay: case passes"),
                    }
                }
                Err(e) => {
                    eprintln!("replay error: {e}");
                    std::process::exit(2);
                }
            }
        }
        t @ ("quick" | "thorough") => {
            let tier = if t == "quick" { Tier::Quick } else { Tier::Thorough };
            let ctx = Ctx { tier, seed, threads };
            let known = init_known(id);
            let started = Instant::now();
            let mut st = Stats::default();
            // regression cases first
            for (driver, case, path) in load_regress(id) {
                match (prop.replay)(&driver, &case) {
                    Ok((out, k)) => {
                        st.evaluations += 1;
                        *st.per_driver.entry(format!("regress:{driver}")).or_default() += 1;
                        if let Some(k) = k {
                            *st.known_hits.entry(k.to_string()).or_default() += 1;
                        } else if let Verdict::Fail(msg) = out.verdict {
                            st.failures.push(Failure { driver, case, message: format!("{msg} (regress file {path})") });
                        }
                    }
                    Err(e) => {
                        eprintln!("regress file {path}: {e}");
                        std::process::exit(2);
                    }
                }
            }
            (prop.run)(&ctx, &mut st);
            let code = finish(prop.info, &ctx, &st, &known, started);
            std::process::exit(code);
        }
        _ => usage(),
    }
}

#[allow(dead_code)]
pub fn bench_vsys() {
    let t = std::time::Instant::now();
    let n = 20000;
    for i in 0..n {
        let r = vsys::run(&vsys::Setup::script(&format!("x=a{i}; probe \"$x\" ${{x#a}}")));
        assert_eq!(r.trace.len(), 1);
    }
    println!("{} runs, {:.1} us each", n, t.elapsed().as_secs_f64() * 1e6 / n as f64);
}

#[allow(dead_code)]
pub fn sched_demo(script: &str) {
    use std::collections::BTreeSet;
    for preempt in [false, true] {
        let mut outs = BTreeSet::new();
        let mut maxc = 0;
        let mut dead = 0;
        for seed in 0..200u64 {
            let mut s = vsys::Setup::script(script);
            s.chooser = if seed == 0 { vsys::Chooser::Fifo } else { vsys::Chooser::Seeded(seed) };
            s.preempt = preempt;
            let r = vsys::run(&s);
            maxc = maxc.max(r.log.choices.len());
            if r.log.deadlock || !r.finished {
                dead += 1;
            }
            outs.insert((r.stdout.clone(), r.status, r.stderr.clone()));
        }
        println!("preempt={preempt}: distinct outcomes={} max choice points={} deadlocks={}", outs.len(), maxc, dead);
        for o in outs.iter().take(4) {
            println!("  {:?}", o);
        }
    }
}

#[allow(dead_code)]
pub fn pipe_demo(text: &str) {
    let mut s = vsys::Setup::script("");
    s.argv = vec!["yash".into()];
    s.stdin_pipe = Some(vec![text.as_bytes().to_vec()]);
    let r = vsys::run(&s);
    println!("finished={} deadlock={} steps={} status={}", r.finished, r.log.deadlock, r.log.steps, r.status);
    println!("stdout={:?} stderr={:?} trace={:?}", r.stdout, r.stderr, r.trace);
    for p in &r.procs {
        println!("{p:?}");
    }
    if let Some(p) = r.panic {
        println!("PANIC {p}");
    }
}
