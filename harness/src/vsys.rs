//! The virtual shell runner: builds a complete shell on the simulated OS the way yash-cli does,
//! with the harness' own scheduler owning every "which runnable task goes next" decision.

use crate::probes;
use crate::sys::shell_main;
use std::cell::{Cell, RefCell};
use std::collections::BTreeMap;
use std::future::Future;
use std::pin::Pin;
use std::rc::Rc;
use std::sync::Arc;
use std::sync::atomic::{AtomicBool, Ordering};
use std::task::{Context, Poll, Wake, Waker};
use yash_env::Env;
use yash_env::io::Fd;
use yash_env::job::ProcessState;
use yash_env::system::Concurrent;
use yash_env::system::Mode;
use yash_env::system::r#virtual::{
    Executor, FileBody, Inode, SystemState, VirtualSystem,
};

pub type VEnv = Env<Rc<Concurrent<VirtualSystem>>>;

// ---------------------------------------------------------------------------------------------
// Scheduler

struct Flag(AtomicBool);
impl Wake for Flag {
    fn wake(self: Arc<Self>) {
        self.0.store(true, Ordering::SeqCst);
    }
    fn wake_by_ref(self: &Arc<Self>) {
        self.0.store(true, Ordering::SeqCst);
    }
}

struct Task {
    fut: Option<Pin<Box<dyn Future<Output = ()>>>>,
    flag: Arc<Flag>,
}

#[derive(Default)]
struct Queue {
    incoming: RefCell<Vec<Pin<Box<dyn Future<Output = ()>>>>>,
}

impl std::fmt::Debug for Queue {
    fn fmt(&self, f: &mut std::fmt::Formatter<'_>) -> std::fmt::Result {
        write!(f, "Queue")
    }
}

#[derive(Debug, Clone)]
struct Spawner(Rc<Queue>);

impl Executor for Spawner {
    fn spawn(&self, task: Pin<Box<dyn Future<Output = ()>>>) -> Result<(), Box<dyn std::error::Error>> {
        self.0.incoming.borrow_mut().push(task);
        Ok(())
    }
}

/// How the scheduler picks the next runnable task.
#[derive(Clone, Debug, serde::Serialize, serde::Deserialize, PartialEq, Eq, Hash)]
pub enum Chooser {
    /// round-robin in wake order, like the executor the repository's tests use
    Fifo,
    /// xorshift stream
    Seeded(u64),
    /// explicit choice vector (monotone index mapping; exhausted => FIFO choice 0)
    Scripted(Vec<u8>),
    /// exact choice indices (DFS replays); exhausted => choice 0
    Exact(Vec<u8>),
}

#[derive(Clone, Debug, Default)]
pub struct SchedLog {
    /// (number of runnable tasks, index chosen) for every step with more than one runnable task
    pub choices: Vec<(u8, u8)>,
    pub steps: u64,
    pub max_runnable: usize,
    pub deadlock: bool,
    pub step_limit_hit: bool,
    pub time_advances: u64,
    /// the asynchronous SIGUSR1 requested by the set-up was actually raised
    pub raised: bool,
    /// number of probe trace entries recorded when the asynchronous signal was raised
    pub raised_trace_len: usize,
    /// times the harness resumed stopped processes at a stall
    pub conts: u64,
}

struct ChooserState {
    chooser: Chooser,
    pos: usize,
    rng: u64,
}

impl ChooserState {
    fn new(c: &Chooser) -> Self {
        let rng = match c {
            Chooser::Seeded(s) => s.wrapping_mul(0x9E3779B97F4A7C15) | 1,
            _ => 1,
        };
        ChooserState { chooser: c.clone(), pos: 0, rng }
    }
    fn choose(&mut self, n: usize) -> usize {
        let r = match &self.chooser {
            Chooser::Fifo => 0,
            Chooser::Seeded(_) => {
                self.rng ^= self.rng << 13;
                self.rng ^= self.rng >> 7;
                self.rng ^= self.rng << 17;
                (self.rng % n as u64) as usize
            }
            Chooser::Scripted(v) => {
                let r = v.get(self.pos).map_or(0, |b| (*b as usize * n) >> 8);
                self.pos += 1;
                r
            }
            Chooser::Exact(v) => {
                let r = v.get(self.pos).map_or(0, |b| (*b as usize).min(n - 1));
                self.pos += 1;
                r
            }
        };
        r.min(n - 1)
    }
}

// ---------------------------------------------------------------------------------------------
// Set-up and result types

#[derive(Clone, Debug, serde::Serialize, serde::Deserialize, PartialEq, Eq, Hash)]
pub enum FileSpec {
    Regular { content: String, mode: u32, exec: bool },
    /// regular file with arbitrary bytes
    Bytes { content: Vec<u8>, mode: u32 },
    Dir { mode: u32 },
    Symlink { target: String },
    /// named pipe (empty, nobody has it open)
    Fifo { mode: u32 },
}

#[derive(Clone, Debug)]
pub struct Setup {
    pub argv: Vec<String>,
    pub files: Vec<(String, FileSpec)>,
    pub cwd: String,
    pub stdin: Option<Vec<u8>>,
    pub env_vars: Vec<(String, String)>,
    pub chooser: Chooser,
    pub max_steps: u64,
    pub umask: Option<u32>,
    /// run leftover tasks (background children) after the main shell finished
    pub drain: bool,
    /// soft RLIMIT_NOFILE for the shell process
    pub nofile: Option<u64>,
    pub preempt: bool,
    /// absolute paths removed after the standard files were created (e.g. /bin/false)
    pub remove_files: Vec<String>,
    /// stdin is a pipe fed by a helper task writing these chunks (scheduler-interleaved)
    pub stdin_pipe: Option<Vec<Vec<u8>>>,
    /// a helper process opens this named pipe (absolute path; create it with `FileSpec::Fifo`) for
    /// writing and writes these chunks, scheduler-interleaved like `stdin_pipe`
    pub fifo_feed: Option<(String, Vec<Vec<u8>>)>,
    /// with `stdin_pipe`: the read end is handed to the shell with O_NONBLOCK set
    pub stdin_nonblock: bool,
    /// when every process is blocked and some process is stopped, send it SIGCONT (an outside
    /// party resuming a stopped process, e.g. `kill -CONT` from another terminal)
    pub cont_on_stall: bool,
    /// raise SIGUSR1 on the shell process right before this scheduler step (only if the process
    /// currently catches it, so that the default action cannot kill the shell)
    pub raise_usr1_at_step: Option<u32>,
    /// asynchronous delivery at a state rather than a step: raise SIGUSR1 on the main shell process
    /// the first time its task is blocked (not runnable) after it recorded a trace entry whose first
    /// argument is this marker
    pub raise_usr1_when_blocked_after: Option<String>,
    /// with `raise_usr1_when_blocked_after`: raise SIGUSR2 at the same instant (both signals are
    /// pending when the shell wakes up)
    pub raise_usr2_too: bool,
    /// with `raise_usr1_when_blocked_after`: a (spurious) SIGCHLD arrives in the same instant
    pub raise_chld_too: bool,
}

impl Setup {
    pub fn script(script: &str) -> Setup {
        Setup {
            argv: vec!["yash".into(), "-c".into(), script.into()],
            files: vec![],
            cwd: "/work".into(),
            stdin: None,
            env_vars: vec![("PATH".into(), "/bin".into())],
            chooser: Chooser::Fifo,
            max_steps: 200_000,
            umask: None,
            drain: true,
            nofile: None,
            preempt: false,
            remove_files: vec![],
            stdin_pipe: None,
            fifo_feed: None,
            stdin_nonblock: false,
            cont_on_stall: false,
            raise_usr1_at_step: None,
            raise_usr1_when_blocked_after: None,
            raise_usr2_too: false,
            raise_chld_too: false,
        }
    }
    pub fn args(mut self, args: &[&str]) -> Setup {
        // yash -c script name args...
        self.argv.push("yash".into());
        for a in args {
            self.argv.push(a.to_string());
        }
        self
    }
}

#[derive(Clone, Debug, PartialEq, Eq, serde::Serialize)]
pub struct FdInfo {
    /// identity of the open file description (stable within one run)
    pub ofd: usize,
    pub cloexec: bool,
    pub readable: bool,
    pub writable: bool,
    /// identity of the file (inode) behind the description
    pub inode: usize,
}

#[derive(Clone, Debug, PartialEq, Eq, serde::Serialize)]
pub struct ProcInfo {
    pub pid: i32,
    pub ppid: i32,
    pub alive: bool,
    pub state: String,
    pub unreaped: bool,
    pub cwd: String,
    pub umask: u32,
    pub fds: BTreeMap<i32, FdInfo>,
    /// dispositions of HUP INT QUIT TERM USR1 USR2 CHLD as installed in the simulated process
    pub dispositions: Vec<(String, String)>,
}

pub struct RunResult {
    pub stdout: String,
    pub stderr: String,
    pub status: i32,
    pub finished: bool,
    pub trace: Vec<probes::TraceEntry>,
    pub sinks: Vec<probes::SinkEntry>,
    pub snaps: Vec<probes::Snap>,
    pub proc_snaps: Vec<(String, ProcInfo)>,
    pub log: SchedLog,
    pub procs: Vec<ProcInfo>,
    pub state: Rc<RefCell<SystemState>>,
    pub env: Option<VEnv>,
    pub main_pid: i32,
    pub panic: Option<String>,
}

impl RunResult {
    pub fn main_trace(&self) -> Vec<&probes::TraceEntry> {
        self.trace.iter().filter(|t| t.pid == self.main_pid).collect()
    }
    pub fn file(&self, path: &str) -> Option<Vec<u8>> {
        let st = self.state.borrow();
        let inode = st.file_system.get(path).ok()?;
        let b = inode.borrow();
        match &b.body {
            FileBody::Regular { content, .. } => Some(content.clone()),
            _ => None,
        }
    }
}

pub fn proc_info(state: &SystemState, pid: i32) -> Option<ProcInfo> {
    let p = state.processes.get(&yash_env::job::Pid(pid))?;
    let mut fds = BTreeMap::new();
    for (fd, body) in p.fds() {
        let ofd = body.open_file_description.borrow();
        fds.insert(
            fd.0,
            FdInfo {
                ofd: Rc::as_ptr(&body.open_file_description) as *const () as usize,
                cloexec: !body.flags.is_empty(),
                readable: ofd.is_readable(),
                writable: ofd.is_writable(),
                inode: Rc::as_ptr(ofd.inode()) as *const () as usize,
            },
        );
    }
    let umask = 0; // filled in by `proc_info_full` (needs a system handle)
    use yash_env::system::r#virtual as v;
    let dispositions = [("HUP", v::SIGHUP), ("INT", v::SIGINT), ("QUIT", v::SIGQUIT), ("TERM", v::SIGTERM), ("USR1", v::SIGUSR1), ("USR2", v::SIGUSR2), ("CHLD", v::SIGCHLD)]
        .iter()
        .map(|(n, s)| (n.to_string(), format!("{:?}", p.disposition(*s))))
        .collect();
    Some(ProcInfo {
        pid,
        ppid: p.ppid().0,
        alive: p.state().is_alive(),
        state: format!("{:?}", p.state()),
        unreaped: p.state_has_changed(),
        cwd: p.getcwd().to_string_lossy().into_owned(),
        umask,
        fds,
        dispositions,
    })
}

/// `proc_info` plus the umask (read through a system handle for that process; non-destructive).
pub fn proc_info_full(state: &Rc<RefCell<SystemState>>, pid: i32) -> Option<ProcInfo> {
    let mut info = proc_info(&state.borrow(), pid)?;
    use yash_env::system::Umask as _;
    let handle = VirtualSystem { state: Rc::clone(state), process_id: yash_env::job::Pid(pid) };
    let old = handle.umask(Mode::empty());
    handle.umask(old);
    info.umask = old.bits() as u32;
    Some(info)
}

fn save_file(state: &mut SystemState, path: &str, spec: &FileSpec) {
    let inode = match spec {
        FileSpec::Regular { content, mode, exec } => Inode {
            body: FileBody::Regular { content: content.clone().into_bytes(), is_native_executable: *exec },
            permissions: Mode::from_bits_truncate(*mode as _),
        },
        FileSpec::Bytes { content, mode } => Inode {
            body: FileBody::Regular { content: content.clone(), is_native_executable: false },
            permissions: Mode::from_bits_truncate(*mode as _),
        },
        FileSpec::Dir { mode } => Inode {
            body: FileBody::Directory { files: Default::default() },
            permissions: Mode::from_bits_truncate(*mode as _),
        },
        FileSpec::Symlink { target } => Inode {
            body: FileBody::Symlink { target: target.as_str().into() },
            permissions: Mode::ALL_9,
        },
        FileSpec::Fifo { mode } => Inode {
            body: FileBody::Fifo {
                content: Default::default(),
                readers: 0,
                writers: 0,
                pending_open_wakers: Default::default(),
                pending_read_wakers: Default::default(),
                pending_write_wakers: Default::default(),
            },
            permissions: Mode::from_bits_truncate(*mode as _),
        },
    };
    // `save` replaces an existing entry; keep an existing directory's children when a Dir spec
    // comes after its children
    if let FileSpec::Dir { mode } = spec {
        if let Ok(existing) = state.file_system.get(path) {
            let mut e = existing.borrow_mut();
            if matches!(e.body, FileBody::Directory { .. }) {
                e.permissions = Mode::from_bits_truncate(*mode as _);
                return;
            }
        }
    }
    state.file_system.save(path, Rc::new(RefCell::new(inode))).expect("save file");
}

/// Runs one complete shell on the simulated OS.
pub fn run(setup: &Setup) -> RunResult {
    probes::reset_stores();
    let system = VirtualSystem::new();
    let state = Rc::clone(&system.state);
    let queue = Rc::new(Queue::default());
    {
        let mut st = state.borrow_mut();
        st.executor = Some(Rc::new(Spawner(Rc::clone(&queue))));
        for name in ["true", "false", "pwd"] {
            save_file(&mut st, &format!("/bin/{name}"), &FileSpec::Regular { content: String::new(), mode: 0o755, exec: true });
        }
        save_file(&mut st, "/dev/null", &FileSpec::Regular { content: String::new(), mode: 0o666, exec: false });
        save_file(&mut st, &setup.cwd, &FileSpec::Dir { mode: 0o755 });
        for path in &setup.remove_files {
            if let Some((dir, name)) = path.rsplit_once('/') {
                if let Ok(d) = st.file_system.get(if dir.is_empty() { "/" } else { dir }) {
                    if let FileBody::Directory { files } = &mut d.borrow_mut().body {
                        files.retain(|k, _| k.to_string_lossy() != name);
                    }
                }
            }
        }
        for (path, spec) in &setup.files {
            let full = if path.starts_with('/') { path.clone() } else { format!("{}/{}", setup.cwd, path) };
            save_file(&mut st, &full, spec);
        }
        // directory permissions last (so that creating children of unsearchable dirs works)
        if let Some(content) = &setup.stdin {
            let inode = st.file_system.get("/dev/stdin").unwrap();
            inode.borrow_mut().body = FileBody::Regular { content: content.clone(), is_native_executable: false };
        }
        let p = st.processes.get_mut(&system.process_id).unwrap();
        p.chdir(setup.cwd.as_str().into());
    }
    if let Some(m) = setup.umask {
        use yash_env::system::Umask as _;
        let _ = system.umask(Mode::from_bits_truncate(m as _));
    }
    if let Some(n) = setup.nofile {
        use yash_env::system::resource::{LimitPair, Resource, SetRlimit as _};
        let _ = system.setrlimit(Resource::NOFILE, LimitPair { soft: n, hard: n.max(1024) });
    }
    // optional: stdin is a pipe, written chunk by chunk by a helper virtual process (pid 3)
    let mut feeder: Option<Pin<Box<dyn Future<Output = ()>>>> = None;
    if let Some(chunks) = &setup.stdin_pipe {
        use yash_env::system::{Close as _, Dup as _, Pipe as _};
        let (r, w) = system.pipe().expect("pipe");
        system.dup2(r, Fd(0)).expect("dup2");
        system.close(r).expect("close");
        if setup.stdin_nonblock {
            use yash_env::system::Fcntl as _;
            system.get_and_set_nonblocking(Fd(0), true).expect("fcntl");
        }
        {
            let mut st = state.borrow_mut();
            let helper = yash_env::system::r#virtual::Process::fork_from(yash_env::job::Pid(1), &st.processes[&system.process_id]);
            st.processes.insert(yash_env::job::Pid(3), helper);
        }
        system.close(w).expect("close");
        let hs = VirtualSystem { state: Rc::clone(&state), process_id: yash_env::job::Pid(3) };
        let _ = hs.close(Fd(0));
        let chunks = chunks.clone();
        let state3 = Rc::clone(&state);
        // A plain task (not under run_virtual): blocking-mode pipe writes park on the pipe's own
        // wakers, and a bare self-wake yields to the scheduler between chunks.
        feeder = Some(Box::pin(async move {
            use yash_env::system::Write as _;
            'outer: for chunk in chunks {
                let mut data = &chunk[..];
                while !data.is_empty() {
                    match hs.write(w, data).await {
                        Ok(n) => data = &data[n..],
                        Err(_) => break 'outer,
                    }
                }
                let mut yielded = false;
                std::future::poll_fn(|cx| {
                    if yielded {
                        Poll::Ready(())
                    } else {
                        yielded = true;
                        cx.waker().wake_by_ref();
                        Poll::Pending
                    }
                })
                .await;
            }
            let _ = hs.close(w);
            if let Some(p) = state3.borrow_mut().processes.get_mut(&yash_env::job::Pid(3)) {
                p.close_fds();
                let _ = p.set_state(ProcessState::exited(yash_env::semantics::ExitStatus(0)));
            }
        }));
    }
    if let Some((path, chunks)) = &setup.fifo_feed {
        {
            let mut st = state.borrow_mut();
            let helper = yash_env::system::r#virtual::Process::fork_from(yash_env::job::Pid(1), &st.processes[&system.process_id]);
            st.processes.insert(yash_env::job::Pid(3), helper);
        }
        let hs = VirtualSystem { state: Rc::clone(&state), process_id: yash_env::job::Pid(3) };
        let chunks = chunks.clone();
        let state3 = Rc::clone(&state);
        let cpath = std::ffi::CString::new(path.as_str()).unwrap();
        feeder = Some(Box::pin(async move {
            use yash_env::system::{Close as _, Open as _, Write as _};
            // blocks (parks on the pipe's wakers) until the shell has opened the other end
            let opened = hs.open(&cpath, yash_env::system::OfdAccess::WriteOnly, Default::default(), Mode::empty()).await;
            if let Ok(w) = opened {
                'outer: for chunk in chunks {
                    let mut data = &chunk[..];
                    while !data.is_empty() {
                        match hs.write(w, data).await {
                            Ok(n) => data = &data[n..],
                            Err(_) => break 'outer,
                        }
                    }
                    let mut yielded = false;
                    std::future::poll_fn(|cx| {
                        if yielded {
                            Poll::Ready(())
                        } else {
                            yielded = true;
                            cx.waker().wake_by_ref();
                            Poll::Pending
                        }
                    })
                    .await;
                }
                let _ = hs.close(w);
            }
            if let Some(p) = state3.borrow_mut().processes.get_mut(&yash_env::job::Pid(3)) {
                p.close_fds();
                let _ = p.set_state(ProcessState::exited(yash_env::semantics::ExitStatus(0)));
            }
        }));
    }
    if setup.fifo_feed.is_some() {
        // The writer opens the named pipe before the shell starts: a shell that is the first to
        // open blocks inside `open`, which a process under `run_virtual` never gets out of (it only
        // resumes through `select`; the simulator offers no way to wait for a peer opening a FIFO).
        if let Some(f) = feeder.as_mut() {
            let mut cx = std::task::Context::from_waker(Waker::noop());
            let _ = f.as_mut().poll(&mut cx);
        }
    }
    // stdin of a regular file must not be in append mode for reading from offset 0; the default
    // open file description is fine (offset 0, readable).
    let main_pid = system.process_id.0;
    let concurrent = Rc::new(Concurrent::new(system));
    let env = Env::with_system(Rc::clone(&concurrent));

    // hook for `snap`: record the simulated process too
    let proc_snaps: Rc<RefCell<Vec<(String, ProcInfo)>>> = Rc::new(RefCell::new(vec![]));
    {
        let state2 = Rc::clone(&state);
        let ps = Rc::clone(&proc_snaps);
        probes::PROC_HOOK.with(|h| {
            *h.borrow_mut() = Some(Box::new(move |tag: &str, pid: i32| {
                if state2.try_borrow_mut().is_ok() {
                    if let Some(info) = proc_info_full(&state2, pid) {
                        ps.borrow_mut().push((tag.to_string(), info));
                    }
                }
            }));
        });
    }

    let done: Rc<Cell<bool>> = Rc::new(Cell::new(false));
    let env_out: Rc<RefCell<Option<VEnv>>> = Rc::new(RefCell::new(None));
    let main_task: Pin<Box<dyn Future<Output = ()>>> = {
        let done = Rc::clone(&done);
        let env_out = Rc::clone(&env_out);
        let argv = setup.argv.clone();
        let env_vars = setup.env_vars.clone();
        let concurrent = Rc::clone(&concurrent);
        Box::pin(async move {
            let mut env = env;
            let inner = async {
                shell_main(&mut env, &argv, &env_vars, &|env| probes::register(env)).await;
            };
            concurrent.run_virtual(inner).await;
            *env_out.borrow_mut() = Some(env);
            done.set(true);
        })
    };

    set_preemption(setup.preempt);
    let mut log = SchedLog::default();
    let mut tasks: Vec<Task> = vec![Task { fut: Some(main_task), flag: Arc::new(Flag(AtomicBool::new(true))) }];
    if let Some(f) = feeder {
        tasks.push(Task { fut: Some(f), flag: Arc::new(Flag(AtomicBool::new(true))) });
    }
    let mut chooser = ChooserState::new(&setup.chooser);
    let panic = crate::engine::guarded(|| {
        let mut main_done_at: Option<u64> = None;
        loop {
            for fut in queue.incoming.borrow_mut().drain(..) {
                tasks.push(Task { fut: Some(fut), flag: Arc::new(Flag(AtomicBool::new(true))) });
            }
            if done.get() && main_done_at.is_none() {
                main_done_at = Some(log.steps);
                if !setup.drain {
                    break;
                }
            }
            if let Some(at) = setup.raise_usr1_at_step {
                if !log.raised && log.steps >= at as u64 && !done.get() {
                    use yash_env::system::r#virtual::SIGUSR1;
                    let mut st = state.borrow_mut();
                    if let Some(p) = st.processes.get_mut(&yash_env::job::Pid(main_pid)) {
                        if p.disposition(SIGUSR1) == yash_env::system::Disposition::Catch && p.state().is_alive() {
                            let _ = p.raise_signal(SIGUSR1);
                            log.raised = true;
                            log.raised_trace_len = probes::TRACE.with(|t| t.borrow().len());
                        }
                    }
                }
            }
            if let Some(marker) = &setup.raise_usr1_when_blocked_after {
                if !log.raised && !done.get() && !tasks[0].flag.0.load(Ordering::SeqCst) {
                    let seen = probes::TRACE.with(|t| {
                        t.borrow().iter().any(|e| e.pid == main_pid && e.args.first().is_some_and(|a| a == marker))
                    });
                    if seen {
                        use yash_env::system::r#virtual::SIGUSR1;
                        let mut st = state.borrow_mut();
                        if let Some(p) = st.processes.get_mut(&yash_env::job::Pid(main_pid)) {
                            if p.disposition(SIGUSR1) == yash_env::system::Disposition::Catch && p.state().is_alive() {
                                let _ = p.raise_signal(SIGUSR1);
                                if setup.raise_usr2_too && p.disposition(yash_env::system::r#virtual::SIGUSR2) == yash_env::system::Disposition::Catch {
                                    let _ = p.raise_signal(yash_env::system::r#virtual::SIGUSR2);
                                }
                                if setup.raise_chld_too {
                                    let _ = p.raise_signal(yash_env::system::r#virtual::SIGCHLD);
                                }
                                log.raised = true;
                                log.raised_trace_len = probes::TRACE.with(|t| t.borrow().len());
                            }
                        }
                    }
                }
            }
            let runnable: Vec<usize> = tasks
                .iter()
                .enumerate()
                .filter(|(_, t)| t.fut.is_some() && t.flag.0.load(Ordering::SeqCst))
                .map(|(i, _)| i)
                .collect();
            log.max_runnable = log.max_runnable.max(runnable.len());
            if runnable.is_empty() {
                if done.get() {
                    break;
                }
                if setup.cont_on_stall {
                    let stopped: Vec<yash_env::job::Pid> =
                        state.borrow().processes.iter().filter(|(_, p)| p.state().is_stopped()).map(|(k, _)| *k).collect();
                    if !stopped.is_empty() {
                        use yash_env::system::SendSignal as _;
                        for pid in stopped {
                            let sys = VirtualSystem { state: Rc::clone(&state), process_id: yash_env::job::Pid(main_pid) };
                            drop(sys.kill(pid, Some(yash_env::system::r#virtual::SIGCONT)));
                        }
                        log.conts += 1;
                        continue;
                    }
                }
                let mut st = state.borrow_mut();
                if let Some(t) = st.scheduled_wakers.next_wake_time() {
                    st.advance_time(t);
                    log.time_advances += 1;
                    continue;
                }
                log.deadlock = true;
                break;
            }
            let pick = if runnable.len() > 1 && !done.get() {
                let c = chooser.choose(runnable.len());
                log.choices.push((runnable.len().min(255) as u8, c as u8));
                runnable[c]
            } else {
                runnable[0]
            };
            let task = &mut tasks[pick];
            task.flag.0.store(false, Ordering::SeqCst);
            let waker = Waker::from(Arc::clone(&task.flag));
            let mut cx = Context::from_waker(&waker);
            if let Poll::Ready(()) = task.fut.as_mut().unwrap().as_mut().poll(&mut cx) {
                task.fut = None;
            }
            log.steps += 1;
            if log.steps >= setup.max_steps {
                log.step_limit_hit = true;
                break;
            }
        }
    })
    .err();
    set_preemption(false);
    probes::PROC_HOOK.with(|h| *h.borrow_mut() = None);
    // Drop the tasks before reading state (they may hold borrows only while polled, so this is
    // just tidiness).
    drop(tasks);

    let env = env_out.borrow_mut().take();
    let status = env.as_ref().map_or(-1, |e| e.exit_status.0);
    let read = |path: &str| -> String {
        let st = state.borrow();
        match st.file_system.get(path) {
            Ok(inode) => match &inode.borrow().body {
                FileBody::Regular { content, .. } => String::from_utf8_lossy(content).into_owned(),
                _ => String::new(),
            },
            Err(_) => String::new(),
        }
    };
    let stdout = read("/dev/stdout");
    let stderr = read("/dev/stderr");
    let procs = {
        let pids: Vec<i32> = state.borrow().processes.keys().map(|p| p.0).collect();
        pids.into_iter().filter_map(|p| proc_info_full(&state, p)).collect()
    };
    RunResult {
        stdout,
        stderr,
        status,
        finished: done.get(),
        trace: probes::TRACE.with(|t| t.borrow().clone()),
        sinks: probes::SINKS.with(|t| t.borrow().clone()),
        snaps: probes::SNAPS.with(|t| t.borrow().clone()),
        proc_snaps: proc_snaps.borrow().clone(),
        log,
        procs,
        state,
        env,
        main_pid,
        panic,
    }
}

#[allow(unused_variables)]
fn set_preemption(on: bool) {
    #[cfg(feature = "hooks")]
    yash_env::verif_hooks::set_preemption(on);
}

pub fn process_state_is_alive(s: &ProcessState) -> bool {
    s.is_alive()
}

#[allow(dead_code)]
pub fn fd_of(i: i32) -> Fd {
    Fd(i)
}

/// Stateless depth-first enumeration of schedules by re-execution. `run_with` executes the case
/// under `Chooser::Exact(prefix)` (beyond the prefix the scheduler picks choice 0). `visit` gets
/// each result and returns false to stop. Returns (schedules run, whether the space was exhausted).
pub fn dfs_schedules(
    budget: usize,
    mut run_with: impl FnMut(Chooser) -> RunResult,
    mut visit: impl FnMut(&RunResult, &[u8]) -> bool,
) -> (usize, bool) {
    let mut prefix: Vec<u8> = vec![];
    let mut runs = 0;
    loop {
        let r = run_with(Chooser::Exact(prefix.clone()));
        runs += 1;
        let taken: Vec<u8> = r.log.choices.iter().map(|c| c.1).collect();
        if !visit(&r, &taken) {
            return (runs, false);
        }
        // next schedule: bump the last choice that still has an untried alternative
        let mut next = None;
        for i in (0..r.log.choices.len()).rev() {
            let (n, c) = r.log.choices[i];
            if c + 1 < n {
                let mut p: Vec<u8> = taken[..i].to_vec();
                p.push(c + 1);
                next = Some(p);
                break;
            }
        }
        match next {
            None => return (runs, true),
            Some(p) => prefix = p,
        }
        if runs >= budget {
            return (runs, false);
        }
    }
}
