//! Library half of the harness: everything except the command-line dispatch, so that the
//! libFuzzer targets in /verif/fuzz can call the same oracles.
#![allow(dead_code)]
pub mod engine;
pub mod fuzzing;
pub mod model;
pub mod probes;
pub mod props;
pub mod rsys;
pub mod sys;
pub mod vsys;
