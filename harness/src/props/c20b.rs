//! C20 (built-in catalogue half) — every spelling of a built-in invocation that the manual
//! declares equivalent behaves identically, and malformed invocations are rejected without effect.
//!
//! Source of truth: `docs/src/builtins/README.md` ("Command line argument syntax conventions":
//! grouping, attached/separate option-arguments, `--`, long names and unambiguous abbreviations,
//! `--name=arg`), the per-built-in pages for the documented options and their long names, and
//! `docs/src/environment/options.md` for the option syntax of `set`.
//!
//! Oracle (metamorphic, never calls a parser): each spelling is run by the complete shell on the
//! simulated OS (`vsys`) after the same set-up; stdout, stderr-emptiness, exit status, the `snap`
//! state (variables with attributes, functions, aliases, options, traps, positional parameters),
//! cwd, umask and the probe trace must be identical to those of the canonical spelling. Malformed
//! variants must give a non-zero status, a diagnostic, no output and an unchanged state.

use crate::engine::*;
use crate::probes::Snap;
use crate::vsys;
use proptest::prelude::*;
use serde::{Deserialize, Serialize};
use std::collections::BTreeSet;
use std::sync::OnceLock;

pub const INFO: PropInfo = PropInfo {
    id: "C20",
    level: "exploration",
    rule: "builtin-catalogue: cases = (catalogue entry, spelling). The catalogue has one entry per (built-in, option set, operands, set-up) for every built-in of docs/src/builtins; each entry is rewritten into every spelling the manual declares equivalent (all orders when the manual makes order irrelevant x short/long name x grouped/separate x attached/separate option-argument x with/without `--`; every unambiguous prefix of every long name, with `=arg` and separate arg) plus malformed variants (unknown short/long option, ambiguous prefix, missing option-argument, argument given to a flag; special built-ins both directly and through `command`). Exhaustive over the catalogue. builtin-random: the same with operand values/option subsets drawn by proptest from a small alphabet including words starting with `-`/`+` (then `--` is mandatory). A case is non-trivial if the variant differs from the canonical spelling (so the invocation has >= 2 distinct spellings), or if it is a malformed variant of a built-in that documents >= 1 option; distinct by enumeration index (catalogue) / serialised case (random).",
    assumptions: &[
        "the manual (docs/src/builtins/*.md, README.md, environment/options.md) is the source of truth for which options and long names exist; typeset's deprecated `--unexport` (mentioned only in its Compatibility section) takes part in ambiguity computation",
        "kill, set, typeset `+` forms and ulimit get only the equivalences their pages (and options.md for set) state; ulimit option grouping is included because its page says only the `portable` option rejects it",
        "`++name` long options of typeset are only generated spelled out in full (the page shows `++export`; abbreviation of `++` names is not stated)",
        "a long option with an empty argument (`--delimiter=`) is not generated (unspecified); an empty option-argument is only given as a separate argument, as the README says",
        "stderr is compared for emptiness only (diagnostics quote the spelling)",
        "malformed special built-ins: run through `command` the shell must continue with unchanged state; run directly either that or the shell exits with non-zero status (termination.md)",
        "order of distinct options is permuted only where the manual does not make it significant (not for -L/-P of cd and pwd, -v/-V of command)",
    ],
};

// =============================================================================================
// Built-in table (from the manual)
// =============================================================================================

#[derive(Clone, Copy, Debug, PartialEq, Eq)]
enum Syn {
    /// README conventions
    Generic,
    /// README conventions plus `+x` / `++export`
    Typeset,
    /// bespoke: spellings written out in the catalogue
    Bespoke,
}

type OptDef = (Option<char>, Option<&'static str>, bool);

#[derive(Debug)]
struct BSpec {
    name: &'static str,
    label: &'static str,
    special: bool,
    syn: Syn,
    opts: &'static [OptDef],
}

const fn od(s: char, l: &'static str) -> OptDef {
    (Some(s), Some(l), false)
}

const NONE: &[OptDef] = &[];
const TYPESET_OPTS: &[OptDef] = &[
    od('f', "functions"),
    od('g', "global"),
    od('p', "print"),
    od('r', "readonly"),
    od('x', "export"),
    od('X', "unexport"),
];
const ULIMIT_OPTS: &[OptDef] = &[
    od('S', "soft"),
    od('H', "hard"),
    od('a', "all"),
    od('b', "sbsize"),
    od('c', "core"),
    od('d', "data"),
    od('e', "nice"),
    od('f', "fsize"),
    od('i', "sigpending"),
    od('k', "kqueues"),
    od('l', "memlock"),
    od('m', "rss"),
    od('n', "nofile"),
    od('q', "msgqueue"),
    od('R', "rttime"),
    od('r', "rtprio"),
    od('s', "stack"),
    od('t', "cpu"),
    od('u', "nproc"),
    od('v', "as"),
    od('w', "swap"),
    od('x', "locks"),
];

macro_rules! b {
    ($name:expr, $special:expr, $syn:expr, $opts:expr) => {
        BSpec { name: $name, label: concat!("builtin:", $name), special: $special, syn: $syn, opts: $opts }
    };
}

const BSPECS: &[BSpec] = &[
    b!("alias", false, Syn::Generic, NONE),
    b!("bg", false, Syn::Generic, NONE),
    b!("break", true, Syn::Generic, NONE),
    b!("cd", false, Syn::Generic, &[od('L', "logical"), od('P', "physical"), od('e', "ensure-pwd")]),
    b!("command", false, Syn::Generic, &[od('p', "path"), od('v', "identify"), od('V', "verbose-identify")]),
    b!("continue", true, Syn::Generic, NONE),
    b!("eval", true, Syn::Generic, NONE),
    b!("exec", true, Syn::Generic, NONE),
    b!("exit", true, Syn::Generic, &[od('f', "force")]),
    b!("export", true, Syn::Typeset, &[od('p', "print")]),
    b!("fg", false, Syn::Generic, NONE),
    b!("getopts", false, Syn::Generic, NONE),
    b!("jobs", false, Syn::Generic, &[od('l', "verbose"), od('p', "pgid-only")]),
    b!("kill", false, Syn::Bespoke, &[(Some('s'), None, true), (Some('n'), None, true), (Some('l'), None, false), (Some('v'), None, false)]),
    b!("pwd", false, Syn::Generic, &[od('L', "logical"), od('P', "physical")]),
    b!("read", false, Syn::Generic, &[(Some('d'), Some("delimiter"), true), od('r', "raw-mode")]),
    b!("readonly", true, Syn::Typeset, &[od('p', "print")]),
    b!("return", true, Syn::Generic, &[od('n', "no-return")]),
    b!("set", true, Syn::Bespoke, &[(Some('o'), None, true)]),
    b!("shift", true, Syn::Generic, NONE),
    b!(".", true, Syn::Generic, NONE),
    b!("source", true, Syn::Generic, NONE),
    b!("times", true, Syn::Generic, NONE),
    b!("trap", true, Syn::Generic, &[od('p', "print")]),
    b!("type", false, Syn::Generic, NONE),
    b!("typeset", false, Syn::Typeset, TYPESET_OPTS),
    b!("ulimit", false, Syn::Generic, ULIMIT_OPTS),
    b!("umask", false, Syn::Generic, &[od('S', "symbolic")]),
    b!("unalias", false, Syn::Generic, &[od('a', "all")]),
    b!("unset", true, Syn::Generic, &[od('f', "functions"), od('v', "variables")]),
    b!("wait", false, Syn::Generic, NONE),
];

fn bspec(name: &str) -> &'static BSpec {
    BSPECS.iter().find(|b| b.name == name).unwrap_or_else(|| panic!("no built-in {name} in the table"))
}

fn long_names(b: &BSpec) -> Vec<&'static str> {
    b.opts.iter().filter_map(|o| o.1).collect()
}

// =============================================================================================
// Spellings
// =============================================================================================

const F_GROUPED: u16 = 1;
const F_ATTACHED: u16 = 2;
const F_DD: u16 = 4;
const F_LPREFIX: u16 = 8;
const F_LEQ: u16 = 16;
const F_LFULL: u16 = 32;
const F_REORDER: u16 = 64;
const F_MANUAL: u16 = 128;
const F_SEPARG: u16 = 256;
const F_NAMEVARIANT: u16 = 512;

const FEATS: [(u16, &str); 10] = [
    (F_GROUPED, "grouped"),
    (F_ATTACHED, "attached-arg"),
    (F_DD, "double-dash"),
    (F_LPREFIX, "long-prefix"),
    (F_LEQ, "long-eq"),
    (F_LFULL, "long-full"),
    (F_REORDER, "reordered"),
    (F_MANUAL, "manual-equivalence"),
    (F_SEPARG, "separate-arg"),
    (F_NAMEVARIANT, "set-name-variant"),
];

pub fn sq(s: &str) -> String {
    format!("'{}'", s.replace('\'', "'\\''"))
}

/// quote only when needed (keeps failure messages readable)
fn q(s: &str) -> String {
    if !s.is_empty() && s.chars().all(|c| c.is_ascii_alphanumeric() || "_-+=/.,:%@".contains(c)) {
        s.to_string()
    } else {
        sq(s)
    }
}

/// One option of an invocation.
#[derive(Clone, Debug)]
struct ROpt {
    short: Option<char>,
    long: Option<String>,
    /// raw option-argument value
    arg: Option<String>,
    /// `+x` / `++export` (typeset family)
    plus: bool,
}

#[derive(Clone, Copy, Debug, PartialEq, Eq)]
enum Form {
    Short,
    /// long name cut to this many bytes
    Long(usize),
}

#[derive(Clone, Copy, Debug, PartialEq, Eq)]
enum Dd {
    /// both with and without `--`
    Auto,
    Always,
    Never,
}

#[derive(Clone, Debug)]
struct Spelling {
    words: Vec<String>,
    feats: u16,
}

fn prefix_ok(names: &[&str], name: &str, len: usize) -> bool {
    let p = &name[..len];
    p == name || !names.iter().any(|n| *n != name && n.starts_with(p))
}

/// All non-empty prefixes that match >= 2 documented long names and are not a complete name.
fn ambiguous_prefixes(names: &[&str]) -> Vec<String> {
    let mut out = BTreeSet::new();
    for n in names {
        for len in 1..n.len() {
            let p = &n[..len];
            if names.iter().any(|m| *m == p) {
                continue;
            }
            if names.iter().filter(|m| m.starts_with(p)).count() >= 2 {
                out.insert(p.to_string());
            }
        }
    }
    out.into_iter().collect()
}

/// Renders option items; bit j of `mask` = item j+1 is glued onto item j. None if impossible.
fn render_opts(items: &[(&ROpt, Form, bool)], mask: u32) -> Option<(Vec<String>, u16)> {
    let n = items.len();
    for j in 0..n.saturating_sub(1) {
        if mask & (1 << j) != 0 {
            let (a, fa, _) = items[j];
            let (b, fb, _) = items[j + 1];
            if fa != Form::Short || fb != Form::Short || a.arg.is_some() || a.plus != b.plus {
                return None;
            }
        }
    }
    let mut words = vec![];
    let mut feats = 0u16;
    let mut k = 0;
    while k < n {
        let (o, f, attached) = items[k];
        let sign = if o.plus { '+' } else { '-' };
        match f {
            Form::Long(len) => {
                let name = o.long.as_ref()?;
                let mut w = format!("{sign}{sign}{}", &name[..len]);
                feats |= if len < name.len() { F_LPREFIX } else { F_LFULL };
                match &o.arg {
                    None => words.push(w),
                    Some(a) if attached => {
                        if a.is_empty() {
                            return None;
                        }
                        w.push('=');
                        w.push_str(&q(a));
                        feats |= F_LEQ;
                        words.push(w);
                    }
                    Some(a) => {
                        feats |= F_SEPARG;
                        words.push(w);
                        words.push(q(a));
                    }
                }
                k += 1;
            }
            Form::Short => {
                let mut w = String::from(sign);
                let mut j = k;
                let mut count = 0;
                loop {
                    w.push(items[j].0.short?);
                    count += 1;
                    if j + 1 < n && mask & (1 << j) != 0 {
                        j += 1;
                    } else {
                        break;
                    }
                }
                if count >= 2 {
                    feats |= F_GROUPED;
                }
                let (last, _, att) = items[j];
                match &last.arg {
                    None => words.push(w),
                    Some(a) if att => {
                        if a.is_empty() {
                            return None;
                        }
                        w.push_str(&q(a));
                        feats |= F_ATTACHED;
                        words.push(w);
                    }
                    Some(a) => {
                        feats |= F_SEPARG;
                        words.push(w);
                        words.push(q(a));
                    }
                }
                k = j + 1;
            }
        }
    }
    Some((words, feats))
}

fn permutations(n: usize) -> Vec<Vec<usize>> {
    fn rec(cur: &mut Vec<usize>, used: &mut Vec<bool>, out: &mut Vec<Vec<usize>>) {
        if cur.len() == used.len() {
            out.push(cur.clone());
            return;
        }
        for i in 0..used.len() {
            if !used[i] {
                used[i] = true;
                cur.push(i);
                rec(cur, used, out);
                cur.pop();
                used[i] = false;
            }
        }
    }
    let mut out = vec![];
    rec(&mut vec![], &mut vec![false; n], &mut out);
    out
}

fn dd_choices(dd: Dd) -> &'static [bool] {
    match dd {
        Dd::Auto => &[false, true],
        Dd::Always => &[true],
        Dd::Never => &[false],
    }
}

fn assemble(optwords: &[String], dd: bool, operands: &[String]) -> Vec<String> {
    let mut w = optwords.to_vec();
    if dd {
        w.push("--".into());
    }
    w.extend(operands.iter().cloned());
    w
}

fn canonical_form(o: &ROpt) -> Form {
    if o.short.is_some() { Form::Short } else { Form::Long(o.long.as_ref().map_or(0, |l| l.len())) }
}

/// Every spelling of (options, operands) under the README conventions. The first is canonical.
fn generic_spellings(names: &[&str], opts: &[ROpt], operands: &[String], order_free: bool, dd: Dd) -> Vec<Spelling> {
    let n = opts.len();
    let mut out: Vec<Spelling> = vec![];
    let mut seen: BTreeSet<Vec<String>> = BTreeSet::new();
    let mut push = |words: Vec<String>, feats: u16, out: &mut Vec<Spelling>| {
        if seen.insert(words.clone()) {
            out.push(Spelling { words, feats });
        }
    };
    // canonical
    {
        let items: Vec<(&ROpt, Form, bool)> = opts.iter().map(|o| (o, canonical_form(o), false)).collect();
        let (w, _) = render_opts(&items, 0).expect("canonical spelling");
        let with_dd = dd == Dd::Always;
        push(assemble(&w, with_dd, operands), 0, &mut out);
    }
    let perms = if order_free { permutations(n) } else { vec![(0..n).collect()] };
    // (A) orders x {short, full long name} x attached/separate x grouping x `--`
    for (pi, perm) in perms.iter().enumerate() {
        let form_choices: Vec<Vec<Form>> = perm
            .iter()
            .map(|&i| {
                let o = &opts[i];
                let mut v = vec![];
                if o.short.is_some() {
                    v.push(Form::Short);
                }
                if let Some(l) = &o.long {
                    v.push(Form::Long(l.len()));
                }
                v
            })
            .collect();
        let att_choices: Vec<Vec<bool>> = perm
            .iter()
            .map(|&i| if opts[i].arg.as_ref().is_some_and(|a| !a.is_empty()) { vec![false, true] } else { vec![false] })
            .collect();
        let nf: usize = form_choices.iter().map(|v| v.len()).product();
        let na: usize = att_choices.iter().map(|v| v.len()).product();
        for fc in 0..nf {
            for ac in 0..na {
                let (mut f, mut a) = (fc, ac);
                let items: Vec<(&ROpt, Form, bool)> = perm
                    .iter()
                    .enumerate()
                    .map(|(k, &i)| {
                        let form = form_choices[k][f % form_choices[k].len()];
                        f /= form_choices[k].len();
                        let att = att_choices[k][a % att_choices[k].len()];
                        a /= att_choices[k].len();
                        (&opts[i], form, att)
                    })
                    .collect();
                for mask in 0..(1u32 << n.saturating_sub(1)) {
                    let Some((w, feats)) = render_opts(&items, mask) else { continue };
                    for &with_dd in dd_choices(dd) {
                        let mut ft = feats;
                        if with_dd {
                            ft |= F_DD;
                        }
                        if pi != 0 {
                            ft |= F_REORDER;
                        }
                        push(assemble(&w, with_dd, operands), ft, &mut out);
                    }
                }
            }
        }
    }
    // (B) every unambiguous abbreviation of each long name, the other options canonical
    for i in 0..n {
        let o = &opts[i];
        let Some(l) = &o.long else { continue };
        if o.plus {
            continue; // `++name` only in full (see assumptions)
        }
        for len in 1..l.len() {
            if !prefix_ok(names, l, len) {
                continue;
            }
            let atts: &[bool] = if o.arg.as_ref().is_some_and(|a| !a.is_empty()) { &[false, true] } else { &[false] };
            for &att in atts {
                let items: Vec<(&ROpt, Form, bool)> = opts
                    .iter()
                    .enumerate()
                    .map(|(k, p)| if k == i { (p, Form::Long(len), att) } else { (p, canonical_form(p), false) })
                    .collect();
                let Some((w, feats)) = render_opts(&items, 0) else { continue };
                for &with_dd in dd_choices(dd) {
                    push(assemble(&w, with_dd, operands), feats | if with_dd { F_DD } else { 0 }, &mut out);
                }
            }
        }
    }
    out
}

/// Malformed variants under the README conventions: (words, kind).
fn generic_malformed(b: &BSpec, opts: &[ROpt], operands: &[String], dd: Dd) -> Vec<(Vec<String>, &'static str)> {
    let names = long_names(b);
    let mut out: Vec<(Vec<String>, &'static str)> = vec![];
    let canon = |os: &[ROpt]| -> Vec<String> {
        let items: Vec<(&ROpt, Form, bool)> = os.iter().map(|o| (o, canonical_form(o), false)).collect();
        render_opts(&items, 0).map(|x| x.0).unwrap_or_default()
    };
    let w = canon(opts);
    let with_dd = dd == Dd::Always;
    let put = |pre: &[String], bad: &[String], post: &[String], kind: &'static str, out: &mut Vec<(Vec<String>, &'static str)>| {
        let mut ow: Vec<String> = pre.to_vec();
        ow.extend(bad.iter().cloned());
        ow.extend(post.iter().cloned());
        out.push((assemble(&ow, with_dd, operands), kind));
    };
    let s = |x: &str| vec![x.to_string()];
    // unknown options, before and after the valid ones
    put(&[], &s("-Z"), &w, "malformed-unknown-short", &mut out);
    put(&[], &s("--nosuchoption"), &w, "malformed-unknown-long", &mut out);
    if !w.is_empty() {
        put(&w, &s("-Z"), &[], "malformed-unknown-short", &mut out);
        put(&w, &s("--nosuchoption"), &[], "malformed-unknown-long", &mut out);
    }
    if b.syn == Syn::Typeset {
        put(&w, &s("+Z"), &[], "malformed-unknown-short", &mut out);
        put(&w, &s("++nosuchoption"), &[], "malformed-unknown-long", &mut out);
    }
    // unknown option letter inside a group with a valid flag
    if let Some(i) = opts.iter().position(|o| o.short.is_some() && o.arg.is_none()) {
        for tail in [true, false] {
            let mut ws: Vec<String> = vec![];
            for (k, o) in opts.iter().enumerate() {
                if k == i {
                    let sign = if o.plus { '+' } else { '-' };
                    let c = o.short.unwrap();
                    ws.push(if tail { format!("{sign}{c}Z") } else { format!("{sign}Z{c}") });
                } else {
                    ws.extend(canon(std::slice::from_ref(o)));
                }
            }
            out.push((assemble(&ws, with_dd, operands), "malformed-unknown-short"));
        }
    }
    // ambiguous abbreviations
    for p in ambiguous_prefixes(&names).into_iter().take(4) {
        put(&w, &s(&format!("--{p}")), &[], "malformed-ambiguous", &mut out);
    }
    // missing option-argument: the option is the last argument
    let flags_only: Vec<ROpt> = opts.iter().filter(|o| o.arg.is_none()).cloned().collect();
    let fw = canon(&flags_only);
    for d in b.opts.iter().filter(|d| d.2) {
        let mut forms = vec![];
        if let Some(c) = d.0 {
            forms.push(format!("-{c}"));
            if let Some(f) = flags_only.iter().find(|o| o.short.is_some() && !o.plus) {
                forms.push(format!("-{}{c}", f.short.unwrap()));
            }
        }
        if let Some(l) = d.1 {
            forms.push(format!("--{l}"));
        }
        for f in forms {
            let mut ws = fw.clone();
            ws.push(f);
            out.push((ws, "malformed-missing-arg"));
        }
    }
    // argument given to a flag
    let flag_with_long: Option<ROpt> = opts
        .iter()
        .find(|o| o.arg.is_none() && o.long.is_some() && !o.plus)
        .cloned()
        .or_else(|| {
            if opts.is_empty() {
                b.opts.iter().find(|d| !d.2 && d.1.is_some()).map(|d| ROpt { short: d.0, long: d.1.map(String::from), arg: None, plus: false })
            } else {
                None
            }
        });
    if let Some(fl) = flag_with_long {
        let l = fl.long.clone().unwrap();
        let mut lens = vec![l.len()];
        if let Some(len) = (1..l.len()).find(|&len| prefix_ok(&names, &l, len)) {
            lens.push(len);
        }
        for len in lens {
            let mut ws: Vec<String> = vec![];
            let mut done = false;
            for o in opts {
                if !done && o.long.as_deref() == Some(l.as_str()) && !o.plus && o.arg.is_none() {
                    ws.push(format!("--{}=x", &l[..len]));
                    done = true;
                } else {
                    ws.extend(canon(std::slice::from_ref(o)));
                }
            }
            if !done {
                ws.push(format!("--{}=x", &l[..len]));
            }
            out.push((assemble(&ws, with_dd, operands), "malformed-flag-arg"));
        }
    }
    out
}

// =============================================================================================
// `set`: option spellings from docs/src/environment/options.md
// =============================================================================================

/// (long name, short name with the state `-c` gives the long option) — the option list of options.md
const SHOPTS: [(&str, Option<(char, bool)>); 21] = [
    ("allexport", Some(('a', true))),
    ("clobber", Some(('C', false))),
    ("cmdline", Some(('c', true))),
    ("errexit", Some(('e', true))),
    ("exec", Some(('n', false))),
    ("glob", Some(('f', false))),
    ("hashondefinition", Some(('h', true))),
    ("ignoreeof", None),
    ("interactive", Some(('i', true))),
    ("log", None),
    ("login", Some(('l', true))),
    ("monitor", Some(('m', true))),
    ("notify", Some(('b', true))),
    ("pipefail", None),
    ("portable", None),
    ("posixlycorrect", None),
    ("stdin", Some(('s', true))),
    ("unset", Some(('u', false))),
    ("verbose", Some(('v', true))),
    ("vi", None),
    ("xtrace", Some(('x', true))),
];

fn shopt_names() -> Vec<String> {
    let mut v = vec![];
    for (n, _) in SHOPTS {
        v.push(n.to_string());
        v.push(format!("no{n}"));
    }
    v
}

#[derive(Clone, Debug)]
enum SetItem {
    Short { plus: bool, c: char },
    O { plus: bool, name: String, attached: bool },
    Long { plus: bool, name: String },
}

/// "Only alphanumeric characters matter in long option names, and they are case-insensitive."
fn fancy_name(name: &str) -> String {
    let mut out = String::new();
    for (i, ch) in name.chars().enumerate() {
        if i == 2 {
            out.push('-');
        }
        out.push(if i % 2 == 0 { ch.to_ascii_uppercase() } else { ch });
    }
    out
}

/// Main spellings of one effect; `all` adds name variants (case/punctuation, abbreviations).
fn set_items(name: &str, on: bool, all: bool) -> Vec<(SetItem, u16)> {
    let mut out = vec![];
    let short = SHOPTS.iter().find(|(n, _)| *n == name).and_then(|(_, s)| *s);
    if let Some((c, renders_on)) = short {
        out.push((SetItem::Short { plus: renders_on != on, c }, 0));
    }
    let pos = name.to_string();
    let neg = format!("no{name}");
    let (same, opposite) = if on { (pos, neg) } else { (neg, pos) };
    let names = shopt_names();
    let names_ref: Vec<&str> = names.iter().map(|s| s.as_str()).collect();
    for (plus, full) in [(false, &same), (true, &opposite)] {
        let mut variants: Vec<(String, u16)> = vec![(full.clone(), 0)];
        if all {
            variants.push((fancy_name(full), F_NAMEVARIANT));
            variants.push((full.to_ascii_uppercase(), F_NAMEVARIANT));
            for len in 1..full.len() {
                if prefix_ok(&names_ref, full, len) {
                    variants.push((full[..len].to_string(), F_LPREFIX));
                }
            }
        }
        for (v, f) in variants {
            out.push((SetItem::O { plus, name: v.clone(), attached: false }, f | F_SEPARG));
            out.push((SetItem::O { plus, name: v.clone(), attached: true }, f | F_ATTACHED));
            out.push((SetItem::Long { plus, name: v }, f | F_LFULL));
        }
    }
    out
}

fn set_render(items: &[&SetItem], mask: u32) -> Option<(Vec<String>, bool)> {
    let sign_of = |i: &SetItem| match i {
        SetItem::Short { plus, .. } | SetItem::O { plus, .. } | SetItem::Long { plus, .. } => *plus,
    };
    let n = items.len();
    for j in 0..n.saturating_sub(1) {
        if mask & (1 << j) != 0 {
            let ok = matches!(items[j], SetItem::Short { .. })
                && !matches!(items[j + 1], SetItem::Long { .. })
                && sign_of(items[j]) == sign_of(items[j + 1]);
            if !ok {
                return None;
            }
        }
    }
    let mut words = vec![];
    let mut grouped = false;
    let mut k = 0;
    while k < n {
        let sign = if sign_of(items[k]) { '+' } else { '-' };
        if let SetItem::Long { name, .. } = items[k] {
            words.push(format!("{sign}{sign}{name}"));
            k += 1;
            continue;
        }
        let mut w = String::from(sign);
        let mut extra = None;
        let mut j = k;
        loop {
            match items[j] {
                SetItem::Short { c, .. } => w.push(*c),
                SetItem::O { name, attached, .. } => {
                    w.push('o');
                    if *attached {
                        w.push_str(name);
                    } else {
                        extra = Some(name.clone());
                    }
                }
                SetItem::Long { .. } => unreachable!(),
            }
            if j + 1 < n && mask & (1 << j) != 0 {
                j += 1;
                grouped = true;
            } else {
                break;
            }
        }
        words.push(w);
        words.extend(extra);
        k = j + 1;
    }
    Some((words, grouped))
}

/// Spellings of `set <effects> [sep] <operands>`. The first is canonical.
fn set_spellings(effects: &[(&str, bool)], operands: &[String]) -> Vec<Spelling> {
    let n = effects.len();
    let mut out: Vec<Spelling> = vec![];
    let mut seen: BTreeSet<Vec<String>> = BTreeSet::new();
    let first_is_optionlike = operands.first().is_some_and(|o| {
        let t = o.trim_start_matches('\'');
        t.starts_with('-') || t.starts_with('+')
    });
    // separators: the set page: `--`, and `-` "also"; without operands a separator clears the
    // positional parameters, so none is added then
    let seps: Vec<Option<&str>> = if operands.is_empty() {
        vec![None]
    } else if first_is_optionlike {
        vec![Some("--"), Some("-")]
    } else {
        vec![None, Some("--"), Some("-")]
    };
    let main: Vec<Vec<(SetItem, u16)>> = effects.iter().map(|(nm, on)| set_items(nm, *on, false)).collect();
    // canonical first: first spelling of every effect, first separator
    {
        let items: Vec<&SetItem> = main.iter().map(|m| &m[0].0).collect();
        let (w, _) = set_render(&items, 0).unwrap();
        let mut words = w;
        if let Some(s) = seps[0] {
            words.push(s.to_string());
        }
        words.extend(operands.iter().cloned());
        seen.insert(words.clone());
        out.push(Spelling { words, feats: 0 });
    }
    let mut emit = |items: &[&SetItem], feats: u16, reorder: bool, out: &mut Vec<Spelling>| {
        for mask in 0..(1u32 << items.len().saturating_sub(1)) {
            let Some((w, grouped)) = set_render(items, mask) else { continue };
            for sep in &seps {
                let mut words = w.clone();
                let mut ft = feats;
                if let Some(s) = sep {
                    words.push(s.to_string());
                    ft |= F_DD;
                }
                words.extend(operands.iter().cloned());
                if grouped {
                    ft |= F_GROUPED;
                }
                if reorder {
                    ft |= F_REORDER;
                }
                if seen.insert(words.clone()) {
                    out.push(Spelling { words, feats: ft });
                }
            }
        }
    };
    for (pi, perm) in permutations(n).iter().enumerate() {
        // with 3 effects only the short names are combined (all orders and groupings)
        let radices: Vec<usize> = perm.iter().map(|&i| if n >= 3 { 1.min(main[i].len()) } else { main[i].len() }).collect();
        let total: usize = radices.iter().product();
        for mut code in 0..total {
            let mut feats = 0;
            let items: Vec<&SetItem> = perm
                .iter()
                .zip(&radices)
                .map(|(&i, &r)| {
                    let it = &main[i][code % r];
                    code /= r;
                    feats |= it.1;
                    &it.0
                })
                .collect();
            emit(&items, feats, pi != 0, &mut out);
        }
    }
    // name variants of one effect at a time
    for i in 0..n {
        let all = set_items(effects[i].0, effects[i].1, true);
        for (it, f) in &all {
            if f & (F_NAMEVARIANT | F_LPREFIX) == 0 {
                continue;
            }
            let items: Vec<&SetItem> = (0..n).map(|k| if k == i { it } else { &main[k][0].0 }).collect();
            emit(&items, *f, false, &mut out);
        }
    }
    out
}

// =============================================================================================
// Catalogue
// =============================================================================================

#[derive(Clone, Debug)]
enum Exp {
    /// status 0, nothing on stderr
    Ok,
    /// this status after the invocation
    St(i32),
    /// non-zero status and a diagnostic, shell continues or exits
    Fails,
    /// the shell exits during the invocation with this status
    Exit(i32),
    Any,
}

#[derive(Clone, Debug)]
enum Body {
    Structured { opts: Vec<ROpt>, operands: Vec<String>, order_free: bool, dd: Dd },
    Set { effects: Vec<(&'static str, bool)>, operands: Vec<String> },
    /// complete word lists, the first is canonical
    Manual(Vec<Vec<String>>),
}

#[derive(Clone, Debug)]
struct Entry {
    b: &'static BSpec,
    setup: String,
    /// the command line is substituted for `{CMD}`; empty = the command line alone
    wrap: String,
    /// wrapper for the malformed variants (must have no effect of its own); empty = none
    mwrap: String,
    /// state-printing commands run before `snap before` and after `snap after`
    post: String,
    body: Body,
    /// further complete word lists the manual declares equivalent
    extra: Vec<Vec<String>>,
    extra_malformed: Vec<(Vec<String>, &'static str)>,
    exp: Exp,
}

fn ws(words: &[&str]) -> Vec<String> {
    words.iter().map(|s| s.to_string()).collect()
}

impl Entry {
    fn new(b: &str) -> Entry {
        Entry {
            b: bspec(b),
            setup: String::new(),
            wrap: String::new(),
            mwrap: String::new(),
            post: String::new(),
            body: Body::Structured { opts: vec![], operands: vec![], order_free: false, dd: Dd::Auto },
            extra: vec![],
            extra_malformed: vec![],
            exp: Exp::Ok,
        }
    }
    fn setup(mut self, s: &str) -> Self {
        self.setup = s.to_string();
        self
    }
    fn wrap(mut self, s: &str) -> Self {
        self.wrap = s.to_string();
        self
    }
    fn mwrap(mut self, s: &str) -> Self {
        self.mwrap = s.to_string();
        self
    }
    fn post(mut self, s: &str) -> Self {
        self.post = s.to_string();
        self
    }
    fn exp(mut self, e: Exp) -> Self {
        self.exp = e;
        self
    }
    fn push_opt(&mut self, c: char, arg: Option<&str>, plus: bool) {
        let d = self.b.opts.iter().find(|d| d.0 == Some(c)).unwrap_or_else(|| panic!("{} has no -{c}", self.b.name));
        assert_eq!(d.2, arg.is_some(), "{} -{c}: argument", self.b.name);
        if let Body::Structured { opts, .. } = &mut self.body {
            opts.push(ROpt { short: d.0, long: d.1.map(String::from), arg: arg.map(String::from), plus });
        }
    }
    /// flags by short name
    fn o(mut self, cs: &str) -> Self {
        for c in cs.chars() {
            self.push_opt(c, None, false);
        }
        self
    }
    fn plus(mut self, cs: &str) -> Self {
        for c in cs.chars() {
            self.push_opt(c, None, true);
        }
        self
    }
    fn oa(mut self, c: char, arg: &str) -> Self {
        self.push_opt(c, Some(arg), false);
        self
    }
    /// operands as shell words
    fn args(mut self, words: &[&str]) -> Self {
        let optionlike = words.first().is_some_and(|w| {
            let t = w.trim_start_matches('\'');
            t.starts_with('-') && t != "-" || (self.b.syn == Syn::Typeset && t.starts_with('+'))
        });
        if let Body::Structured { operands, dd, .. } = &mut self.body {
            *operands = ws(words);
            if optionlike {
                *dd = Dd::Always;
            }
        }
        self
    }
    fn free(mut self) -> Self {
        if let Body::Structured { order_free, .. } = &mut self.body {
            *order_free = true;
        }
        self
    }
    fn extra(mut self, words: &[&str]) -> Self {
        self.extra.push(ws(words));
        self
    }
    fn bad(mut self, words: &[&str], kind: &'static str) -> Self {
        self.extra_malformed.push((ws(words), kind));
        self
    }
    fn manual(mut self, lists: &[&[&str]]) -> Self {
        self.body = Body::Manual(lists.iter().map(|l| ws(l)).collect());
        self
    }
    fn set(mut self, effects: &[(&'static str, bool)], operands: &[&str]) -> Self {
        self.body = Body::Set { effects: effects.to_vec(), operands: ws(operands) };
        self
    }
}

#[derive(Clone, Debug)]
struct Variant {
    words: Vec<String>,
    /// "equiv" or a malformed-* kind
    kind: &'static str,
    feats: u16,
    via_command: bool,
}

fn variants(e: &Entry) -> Vec<Variant> {
    let mut out = vec![];
    let mut malformed: Vec<(Vec<String>, &'static str)> = vec![];
    match &e.body {
        Body::Structured { opts, operands, order_free, dd } => {
            let names = long_names(e.b);
            for s in generic_spellings(&names, opts, operands, *order_free, *dd) {
                out.push(Variant { words: s.words, kind: "equiv", feats: s.feats, via_command: false });
            }
            malformed = generic_malformed(e.b, opts, operands, *dd);
        }
        Body::Set { effects, operands } => {
            for s in set_spellings(effects, operands) {
                out.push(Variant { words: s.words, kind: "equiv", feats: s.feats, via_command: false });
            }
        }
        Body::Manual(lists) => {
            for (i, l) in lists.iter().enumerate() {
                let dd = l.iter().any(|w| w == "--");
                out.push(Variant {
                    words: l.clone(),
                    kind: "equiv",
                    feats: if i == 0 { 0 } else { F_MANUAL | if dd { F_DD } else { 0 } },
                    via_command: false,
                });
            }
        }
    }
    for l in &e.extra {
        out.push(Variant { words: l.clone(), kind: "equiv", feats: F_MANUAL, via_command: false });
    }
    malformed.extend(e.extra_malformed.iter().cloned());
    let mut seen = BTreeSet::new();
    for (w, kind) in malformed {
        if !seen.insert(w.clone()) {
            continue;
        }
        if e.b.special {
            out.push(Variant { words: w.clone(), kind, feats: 0, via_command: true });
        }
        out.push(Variant { words: w, kind, feats: 0, via_command: false });
    }
    out
}

// =============================================================================================
// Cases and the oracle
// =============================================================================================

/// Self-contained: everything needed to re-run both spellings.
#[derive(Clone, Debug, PartialEq, Eq, Hash, Serialize, Deserialize)]
pub struct Case {
    pub builtin: String,
    pub setup: String,
    pub wrap: String,
    pub post: String,
    /// arguments of the canonical spelling (shell words)
    pub canonical: Vec<String>,
    /// arguments of the spelling under test
    pub variant: Vec<String>,
    /// "equiv" or malformed-unknown-short | -unknown-long | -ambiguous | -missing-arg | -flag-arg
    pub kind: String,
    /// malformed special built-in run through `command`
    pub via_command: bool,
    pub feats: u16,
    /// what the manual says the canonical invocation does: ok | st:N | fails | exit:N | any
    pub expect: String,
}

fn exp_text(e: &Exp) -> String {
    match e {
        Exp::Ok => "ok".into(),
        Exp::St(n) => format!("st:{n}"),
        Exp::Fails => "fails".into(),
        Exp::Exit(n) => format!("exit:{n}"),
        Exp::Any => "any".into(),
    }
}

fn make_case(e: &Entry, canonical: &[String], v: &Variant) -> Case {
    Case {
        builtin: e.b.name.to_string(),
        setup: e.setup.clone(),
        wrap: if v.kind == "equiv" { e.wrap.clone() } else { e.mwrap.clone() },
        post: e.post.clone(),
        canonical: canonical.to_vec(),
        variant: v.words.clone(),
        kind: v.kind.to_string(),
        via_command: v.via_command,
        feats: v.feats,
        expect: exp_text(&e.exp),
    }
}

fn entry_cases(e: &Entry) -> Vec<Case> {
    let vs = variants(e);
    let canonical = vs[0].words.clone();
    vs.iter().map(|v| make_case(e, &canonical, v)).collect()
}

fn command_line(c: &Case, words: &[String], via_command: bool) -> String {
    let mut cmd = String::new();
    if via_command {
        cmd.push_str("command ");
    }
    cmd.push_str(&c.builtin);
    for w in words {
        cmd.push(' ');
        cmd.push_str(w);
    }
    cmd
}

fn script(c: &Case, words: &[String], via_command: bool) -> String {
    script_with(c, &command_line(c, words, via_command))
}

fn script_with(c: &Case, cmd: &str) -> String {
    let body = if c.wrap.is_empty() { cmd.to_string() } else { c.wrap.replace("{CMD}", cmd) };
    format!("{}\n{}\nsnap before\n{}\nsnap after\n{}\n", c.setup, c.post, body, c.post)
}

pub fn files() -> Vec<(String, vsys::FileSpec)> {
    let reg = |content: &str| vsys::FileSpec::Regular { content: content.into(), mode: 0o644, exec: false };
    vec![
        ("sub".into(), vsys::FileSpec::Dir { mode: 0o755 }),
        ("sub/inner".into(), vsys::FileSpec::Dir { mode: 0o755 }),
        ("link".into(), vsys::FileSpec::Symlink { target: "sub".into() }),
        ("-P".into(), vsys::FileSpec::Dir { mode: 0o755 }),
        ("-x".into(), vsys::FileSpec::Dir { mode: 0o755 }),
        ("script.sh".into(), reg("sourced=yes\necho in-script \"$#\"\n")),
        ("-s.sh".into(), reg("sourced=dash\necho in-dash-script\n")),
    ]
}

#[derive(Clone, Debug, PartialEq, Eq)]
struct ProcState {
    tag: String,
    cwd: String,
    umask: u32,
    fds: Vec<(i32, bool, bool, bool)>,
}

#[derive(Clone, Debug, PartialEq, Eq)]
struct Obs {
    stdout: String,
    stderr: String,
    status: i32,
    finished: bool,
    panic: Option<String>,
    snaps: Vec<Snap>,
    procs: Vec<ProcState>,
    trace: Vec<(i32, Vec<String>)>,
}

fn observe(c: &Case, words: &[String], via_command: bool) -> Obs {
    observe_script(&script(c, words, via_command))
}

fn observe_script(script: &str) -> Obs {
    let mut setup = vsys::Setup::script(script);
    setup.files = files();
    let r = vsys::run(&setup);
    let main = r.main_pid;
    Obs {
        stdout: r.stdout.clone(),
        stderr: r.stderr.clone(),
        status: r.status,
        finished: r.finished,
        panic: r.panic.clone(),
        snaps: r.snaps.iter().filter(|s| s.pid == main).cloned().collect(),
        procs: r
            .proc_snaps
            .iter()
            .filter(|(_, p)| p.pid == main)
            .map(|(tag, p)| ProcState {
                tag: tag.clone(),
                cwd: p.cwd.clone(),
                umask: p.umask,
                fds: p.fds.iter().map(|(fd, i)| (*fd, i.cloexec, i.readable, i.writable)).collect(),
            })
            .collect(),
        trace: r.trace.iter().map(|t| (t.status, t.args.clone())).collect(),
    }
}

impl Obs {
    fn snap(&self, tag: &str) -> Option<&Snap> {
        self.snaps.iter().find(|s| s.tag == tag)
    }
    fn proc(&self, tag: &str) -> Option<&ProcState> {
        self.procs.iter().find(|p| p.tag == tag)
    }
}

/// Human-readable difference of two state snapshots (ignoring tag and `$?`).
fn snap_diff(a: &Snap, b: &Snap) -> Option<String> {
    let mut d = vec![];
    for (k, v) in &a.vars {
        match b.vars.get(k) {
            None => d.push(format!("variable {k}: {v:?} vs absent")),
            Some(w) if w != v => d.push(format!("variable {k}: {v:?} vs {w:?} (value, exported, read-only, array)")),
            _ => {}
        }
    }
    for (k, w) in &b.vars {
        if !a.vars.contains_key(k) {
            d.push(format!("variable {k}: absent vs {w:?}"));
        }
    }
    if a.positional != b.positional {
        d.push(format!("positional parameters {:?} vs {:?}", a.positional, b.positional));
    }
    let strip = |f: &std::collections::BTreeMap<String, (String, bool)>| {
        let mut f = f.clone();
        if let Some(w) = f.get_mut("wrapfn") {
            w.0.clear(); // its body contains the spelling itself
        }
        f
    };
    if strip(&a.functions) != strip(&b.functions) {
        d.push(format!("functions {:?} vs {:?}", a.functions, b.functions));
    }
    if a.aliases != b.aliases {
        d.push(format!("aliases {:?} vs {:?}", a.aliases, b.aliases));
    }
    if a.options != b.options {
        let diff: Vec<String> = a.options.iter().zip(&b.options).filter(|(x, y)| x != y).map(|(x, y)| format!("{}: {} vs {}", x.0, x.1, y.1)).collect();
        d.push(format!("options {}", diff.join(", ")));
    }
    if a.traps != b.traps {
        d.push(format!("traps {:?} vs {:?}", a.traps, b.traps));
    }
    if a.arg0 != b.arg0 {
        d.push(format!("$0 {:?} vs {:?}", a.arg0, b.arg0));
    }
    if d.is_empty() { None } else { Some(d.join("; ")) }
}

fn proc_diff(a: &ProcState, b: &ProcState) -> Option<String> {
    let mut d = vec![];
    if a.cwd != b.cwd {
        d.push(format!("cwd {:?} vs {:?}", a.cwd, b.cwd));
    }
    if a.umask != b.umask {
        d.push(format!("umask {:03o} vs {:03o}", a.umask, b.umask));
    }
    if a.fds != b.fds {
        d.push(format!("fd table {:?} vs {:?}", a.fds, b.fds));
    }
    if d.is_empty() { None } else { Some(d.join("; ")) }
}

fn first_line(s: &str) -> &str {
    s.lines().next().unwrap_or("")
}

fn builtin_label(name: &str) -> &'static str {
    BSPECS.iter().find(|b| b.name == name).map_or("builtin:?", |b| b.label)
}

fn kind_label(kind: &str) -> &'static str {
    match kind {
        "malformed-unknown-short" => "malformed-unknown-short",
        "malformed-unknown-long" => "malformed-unknown-long",
        "malformed-ambiguous" => "malformed-ambiguous",
        "malformed-missing-arg" => "malformed-missing-arg",
        "malformed-flag-arg" => "malformed-flag-arg",
        _ => "equiv",
    }
}

fn with_classes(mut o: Outcome, c: &Case) -> Outcome {
    o = o.class(builtin_label(&c.builtin)).class(kind_label(&c.kind));
    if c.kind == "equiv" {
        for (bit, name) in FEATS {
            if c.feats & bit != 0 {
                o = o.class(name);
            }
        }
    } else if c.via_command {
        o = o.class("malformed-via-command");
    }
    o
}

fn check(c: &Case) -> Outcome {
    let o = if c.kind == "equiv" { check_equiv(c) } else { check_malformed(c) };
    with_classes(o, c)
}

fn check_equiv(c: &Case) -> Outcome {
    let canon_cmd = command_line(c, &c.canonical, false);
    let a = observe(c, &c.canonical, false);
    if let Some(p) = &a.panic {
        return Outcome::fail(format!("`{canon_cmd}`: panic: {p}"));
    }
    if !a.finished {
        return Outcome::fail(format!("`{canon_cmd}`: the shell did not finish"));
    }
    // the catalogue's statement of what the canonical spelling does (guards against vacuous passes)
    let after = a.snap("after");
    let exp_err = match c.expect.as_str() {
        "ok" => match after {
            None => Some("the shell exited".to_string()),
            Some(s) if s.status != 0 => Some(format!("status {}", s.status)),
            Some(_) if !a.stderr.is_empty() => Some("a diagnostic".to_string()),
            _ => None,
        },
        "fails" => {
            let st = after.map_or(a.status, |s| s.status);
            if st == 0 || a.stderr.is_empty() { Some(format!("status {st}, stderr {:?}", first_line(&a.stderr))) } else { None }
        }
        "any" => None,
        e => {
            if let Some(n) = e.strip_prefix("st:").and_then(|n| n.parse::<i32>().ok()) {
                match after {
                    Some(s) if s.status == n => None,
                    Some(s) => Some(format!("status {}", s.status)),
                    None => Some("the shell exited".to_string()),
                }
            } else if let Some(n) = e.strip_prefix("exit:").and_then(|n| n.parse::<i32>().ok()) {
                if after.is_some() {
                    Some("the shell went on".to_string())
                } else if a.status != n {
                    Some(format!("shell exit status {}", a.status))
                } else {
                    None
                }
            } else {
                None
            }
        }
    };
    if let Some(m) = exp_err {
        return Outcome::fail(format!(
            "`{canon_cmd}` (canonical spelling) after set-up {:?}: the manual gives `{}`, got {m}; stdout {:?} stderr {:?}",
            c.setup, c.expect, a.stdout, first_line(&a.stderr)
        ));
    }
    if c.variant == c.canonical {
        return Outcome::pass(false);
    }
    let var_cmd = command_line(c, &c.variant, false);
    let b = observe(c, &c.variant, false);
    if let Some(p) = &b.panic {
        return Outcome::fail(format!("`{var_cmd}`: panic: {p}"));
    }
    let head = || format!("`{var_cmd}` differs from the equivalent `{canon_cmd}` (set-up {:?})", c.setup);
    if a.finished != b.finished {
        return Outcome::fail(format!("{}: shell finished {} vs {}", head(), b.finished, a.finished));
    }
    let (sa, sb) = (a.snap("after"), b.snap("after"));
    if sa.is_some() != sb.is_some() {
        return Outcome::fail(format!(
            "{}: the shell {} vs {}; stderr {:?} vs {:?}",
            head(),
            if sb.is_some() { "went on" } else { "exited" },
            if sa.is_some() { "went on" } else { "exited" },
            first_line(&b.stderr),
            first_line(&a.stderr)
        ));
    }
    let (sta, stb) = (sa.map_or(a.status, |s| s.status), sb.map_or(b.status, |s| s.status));
    if sta != stb {
        return Outcome::fail(format!("{}: exit status {stb} vs {sta}; stderr {:?} vs {:?}", head(), first_line(&b.stderr), first_line(&a.stderr)));
    }
    if a.stdout != b.stdout {
        return Outcome::fail(format!("{}: stdout {:?} vs {:?}; stderr {:?} vs {:?}", head(), b.stdout, a.stdout, first_line(&b.stderr), first_line(&a.stderr)));
    }
    if a.stderr.is_empty() != b.stderr.is_empty() {
        return Outcome::fail(format!("{}: stderr {:?} vs {:?}", head(), first_line(&b.stderr), first_line(&a.stderr)));
    }
    if a.status != b.status {
        return Outcome::fail(format!("{}: final shell status {} vs {}", head(), b.status, a.status));
    }
    if let (Some(x), Some(y)) = (sb, sa) {
        if let Some(d) = snap_diff(x, y) {
            return Outcome::fail(format!("{}: state afterwards: {d}", head()));
        }
    }
    if let (Some(x), Some(y)) = (b.proc("after"), a.proc("after")) {
        if let Some(d) = proc_diff(x, y) {
            return Outcome::fail(format!("{}: process afterwards: {d}", head()));
        }
    }
    if a.trace != b.trace {
        return Outcome::fail(format!("{}: probe calls {:?} vs {:?}", head(), b.trace, a.trace));
    }
    Outcome::pass(true)
}

fn check_malformed(c: &Case) -> Outcome {
    let cmd = command_line(c, &c.variant, c.via_command);
    let r = observe(c, &c.variant, c.via_command);
    let special = BSPECS.iter().any(|b| b.name == c.builtin && b.special);
    let documents_options = BSPECS.iter().any(|b| b.name == c.builtin && !b.opts.is_empty());
    let head = || format!("malformed `{cmd}` ({}, set-up {:?})", c.kind, c.setup);
    if let Some(p) = &r.panic {
        return Outcome::fail(format!("{}: panic: {p}", head()));
    }
    if !r.finished {
        return Outcome::fail(format!("{}: the shell did not finish", head()));
    }
    let Some(before) = r.snap("before") else {
        return Outcome::fail(format!("{}: the set-up did not reach the invocation; stderr {:?}", head(), first_line(&r.stderr)));
    };
    if r.stderr.is_empty() {
        return Outcome::fail(format!("{}: no diagnostic; status {}", head(), r.snap("after").map_or(r.status, |s| s.status)));
    }
    match r.snap("after") {
        None => {
            if !special || c.via_command {
                return Outcome::fail(format!("{}: the shell exited (status {}) although {}", head(), r.status, if special { "the built-in was run through `command`" } else { "the built-in is not special" }));
            }
            if r.status == 0 {
                return Outcome::fail(format!("{}: the shell exited with status 0", head()));
            }
            // same output as when the invocation is replaced by a plain `exit`
            let base = observe_script(&script_with(c, "exit 2"));
            if r.stdout != base.stdout {
                return Outcome::fail(format!("{}: output {:?}, but {:?} when `exit 2` stands in its place", head(), r.stdout, base.stdout));
            }
        }
        Some(after) => {
            if after.status == 0 {
                return Outcome::fail(format!("{}: exit status 0; stderr {:?}", head(), first_line(&r.stderr)));
            }
            if let Some(d) = snap_diff(after, before) {
                return Outcome::fail(format!("{}: state changed (after vs before): {d}", head()));
            }
            if let (Some(x), Some(y)) = (r.proc("after"), r.proc("before")) {
                if let Some(d) = proc_diff(x, y) {
                    return Outcome::fail(format!("{}: process changed (after vs before): {d}", head()));
                }
            }
            // no effect: same output and final state as when a no-op with non-zero status
            // stands in place of the invocation
            let base = observe_script(&script_with(c, "st 2"));
            if r.stdout != base.stdout {
                return Outcome::fail(format!("{}: output or observable state changed: stdout {:?}, but {:?} when the no-op `st 2` stands in its place", head(), r.stdout, base.stdout));
            }
            if let Some(bs) = base.snap("after") {
                if let Some(d) = snap_diff(after, bs) {
                    return Outcome::fail(format!("{}: state differs from a no-op: {d}", head()));
                }
            }
        }
    }
    if !r.trace.is_empty() {
        return Outcome::fail(format!("{}: a command ran: {:?}", head(), r.trace));
    }
    // the same rejected invocation carrying a redirection: "no effect" includes the redirection
    // being undone (also for `exec`, whose redirections persist only when it is accepted)
    if r.snap("after").is_some() {
        let rr = observe_script(&script_with(c, &format!("{cmd} 7>/dev/null")));
        if let Some(p) = &rr.panic {
            return Outcome::fail(format!("{} with a redirection: panic: {p}", head()));
        }
        match (rr.snap("after"), rr.proc("after"), rr.proc("before")) {
            (Some(after), Some(x), Some(y)) => {
                if after.status == 0 {
                    return Outcome::fail(format!("{} with `7>/dev/null`: exit status 0", head()));
                }
                if let Some(d) = proc_diff(x, y) {
                    return Outcome::fail(format!("{} with `7>/dev/null`: the rejected invocation left its redirection behind (after vs before): {d}", head()));
                }
            }
            _ => return Outcome::fail(format!("{} with `7>/dev/null`: the shell exited although it goes on without the redirection; stderr {:?}", head(), first_line(&rr.stderr))),
        }
    }
    Outcome::pass(documents_options)
}

// ---------------------------------------------------------------------------------------------
// The catalogue. Operands are shell words; the fixed file system is `files()`; cwd is /work.

fn e(b: &str) -> Entry {
    Entry::new(b)
}

fn catalogue() -> Vec<Entry> {
    let mut v: Vec<Entry> = vec![];
    let heredoc = |line: &str| format!("{{CMD}} <<'EOF'\n{line}\nEOF");

    // ---- cd: -L/--logical -P/--physical -e/--ensure-pwd; "The default is -L"; "The last
    // specified one applies if given both"
    v.push(e("cd").args(&["sub"]).extra(&["-L", "sub"]).extra(&["-P", "-L", "sub"]));
    v.push(e("cd").o("L").args(&["link"]));
    v.push(e("cd").o("P").args(&["link"]).extra(&["-L", "-P", "link"]));
    v.push(e("cd").o("Pe").free().args(&["link"]));
    v.push(e("cd").o("LP").args(&["link"]));
    v.push(e("cd").o("PL").args(&["link"]));
    v.push(e("cd").o("LPe").args(&["sub/inner"]));
    v.push(e("cd").setup("HOME=/work/sub").o("P"));
    v.push(e("cd").setup("HOME=/work/link"));
    v.push(e("cd").setup("cd sub; cd ..").o("L").args(&["-"]));
    v.push(e("cd").setup("cd link; cd ..").o("P").args(&["-"]));
    v.push(e("cd").o("P").args(&["-P"]));
    v.push(e("cd").args(&["-x"]));
    v.push(e("cd").setup("CDPATH=/work/sub").o("L").args(&["inner"]));
    v.push(e("cd").o("P").args(&["nosuchdir"]).exp(Exp::St(2)));
    v.push(e("cd").o("L").args(&["sub", "extra"]).exp(Exp::St(5)));

    // ---- pwd: -L/--logical -P/--physical, no operands
    v.push(e("pwd").setup("cd link").extra(&["-L"]).extra(&["-P", "-L"]));
    v.push(e("pwd").setup("cd link").o("L"));
    v.push(e("pwd").setup("cd link").o("P").extra(&["-L", "-P"]));
    v.push(e("pwd").setup("cd link").o("LP"));
    v.push(e("pwd").setup("cd link").o("PL"));

    // ---- command: -p/--path -v/--identify -V/--verbose-identify
    v.push(e("command").setup("f() { :; }; alias al=x").o("v").args(&["echo", "cd", "f", "al", "if", "true"]).extra(&["-V", "-v", "echo", "cd", "f", "al", "if", "true"]));
    v.push(e("command").setup("f() { :; }; alias al=x").o("V").args(&["echo", "cd", "f", "al", "if", "true"]).extra(&["-v", "-V", "echo", "cd", "f", "al", "if", "true"]));
    v.push(e("command").o("v").args(&["nosuchcmd"]).exp(Exp::St(1)));
    v.push(e("command").o("pv").free().args(&["true"]).exp(Exp::Any));
    v.push(e("command").o("pV").free().args(&["true", "cd"]).exp(Exp::Any));
    v.push(e("command").o("vV").args(&["cd"]));
    v.push(e("command").o("Vv").args(&["cd"]));
    v.push(e("command").o("pvV").args(&["cd"]));
    v.push(e("command").o("p").args(&["probe", "a", "-b"]));
    v.push(e("command").args(&["probe", "-v", "--", "x"]));
    v.push(e("command").setup("echo() { probe shadowed; }").args(&["echo", "-x", "y"]));
    v.push(e("command").o("v").args(&["-x"]).exp(Exp::St(1)));
    v.push(e("command"));
    v.push(e("command").o("p").args(&["st", "7"]).exp(Exp::St(7)));

    // ---- read: -d/--delimiter ARG, -r/--raw-mode
    v.push(e("read").wrap(&heredoc("one two three")).args(&["a", "b"]));
    v.push(e("read").wrap(&heredoc("o\\ne t\\\\wo three")).o("r").args(&["a", "b"]));
    v.push(e("read").wrap(&heredoc("12 42 + foo bar")).oa('d', "+").args(&["a", "b"]));
    v.push(e("read").wrap(&heredoc("1\\2 4\\+2 + foo")).o("r").oa('d', "+").free().args(&["a", "b"]));
    v.push(e("read").wrap(&heredoc("x y-z w")).oa('d', "-").args(&["a"]));
    v.push(e("read").wrap(&heredoc("x y:z w")).oa('d', ":").o("r").args(&["a", "b", "c"]));
    v.push(e("read").wrap(&heredoc("p q")).oa('d', "").args(&["a"]).exp(Exp::St(1)));
    v.push(e("read").wrap(&heredoc("p q")).o("r").args(&["-v", "w"]));
    v.push(e("read").wrap(&heredoc("p q")).oa('d', "q").args(&["-r"]));
    // option-arguments that look like something else: `-dr` is `-d r`, not `-d -r`
    v.push(e("read").wrap(&heredoc("a\\b rest r tail")).oa('d', "r").args(&["a", "b"]));
    v.push(e("read").wrap(&heredoc("a\\b rest r tail")).o("r").oa('d', "r").free().args(&["a", "b"]));
    v.push(e("read").wrap(&heredoc("a=b c")).oa('d', "=").args(&["a"]));
    v.push(e("read").wrap(&heredoc("p q")).oa('d', "-r").args(&["a"]).exp(Exp::Fails));
    v.push(e("read").wrap(&heredoc("p q")).oa('d', "--").args(&["a"]).exp(Exp::Fails));

    // ---- unset: -f/--functions -v/--variables; -v "is the default behavior"
    let us = "a=1 b=2; f() { :; }; g() { :; }";
    v.push(e("unset").setup(us).args(&["a"]).extra(&["-v", "a"]));
    v.push(e("unset").setup(us).o("v").args(&["a", "b", "nosuch"]));
    v.push(e("unset").setup(us).o("f").args(&["f", "a"]));
    v.push(e("unset").setup(us).o("v").args(&["f"]));
    v.push(e("unset").setup(us).o("f"));
    v.push(e("unset").setup("export -- -a=1; b=2").o("v").args(&["-a", "b"]));
    v.push(e("unset").setup("readonly a=1").o("v").args(&["a"]).exp(Exp::Any));

    // ---- unalias: -a/--all
    let al = "alias x=1 y=2; alias -- -a=3";
    v.push(e("unalias").setup(al).args(&["x"]));
    v.push(e("unalias").setup(al).o("a"));
    v.push(e("unalias").setup(al).args(&["x", "y"]));
    v.push(e("unalias").setup(al).args(&["-a"]));
    v.push(e("unalias").setup(al).args(&["nosuch"]).exp(Exp::Fails));

    // ---- umask: -S/--symbolic
    v.push(e("umask").setup("umask 027"));
    v.push(e("umask").setup("umask 027").o("S"));
    v.push(e("umask").args(&["027"]));
    v.push(e("umask").o("S").args(&["u=rwx,g=rx,o="]));
    v.push(e("umask").setup("umask 000").args(&["-w"]));
    v.push(e("umask").o("S").args(&["-x,u+x"]));

    // ---- alias: no options
    v.push(e("alias").args(&["x=1", "y='a b'"]));
    v.push(e("alias").setup("alias x=1 y=2"));
    v.push(e("alias").setup("alias x=1 y=2").args(&["y"]));
    v.push(e("alias").args(&["-x=1", "--=2"]));
    v.push(e("alias").args(&["nosuch"]).exp(Exp::Fails));

    // ---- export: -p/--print; "If no names are given, or if the -p option is given, ... displayed"
    let ex = "a=1; export b=2; export -- -c=3";
    v.push(e("export").setup(ex).args(&["a"]).bad(&["-+q=1"], "malformed-unknown-short").bad(&["+-q"], "malformed-unknown-short"));
    v.push(e("export").setup(ex).args(&["a=5", "d", "-e=6"]));
    v.push(e("export").setup(ex).o("p"));
    v.push(e("export").setup(ex).o("p").args(&["b"]));
    v.push(e("export").setup(ex).o("p").args(&["-c", "b"]));
    v.push(e("export").setup(ex).extra(&["-p"]));
    v.push(e("export").setup(ex).args(&["-x=1"]));

    // ---- readonly: -p/--print
    let ro = "a=1; readonly b=2";
    v.push(e("readonly").setup(ro).args(&["a"]).bad(&["-+q=1"], "malformed-unknown-short").bad(&["+-q"], "malformed-unknown-short"));
    v.push(e("readonly").setup(ro).args(&["a=5", "d"]));
    v.push(e("readonly").setup(ro).o("p"));
    v.push(e("readonly").setup(ro).o("p").args(&["b"]));
    v.push(e("readonly").setup(ro).extra(&["-p"]));
    v.push(e("readonly").setup(ro).args(&["-r=1"]));

    // ---- typeset: -f/--functions -g/--global -p/--print -r/--readonly -x/--export, +r +x
    let ts = "a=1; export b=2; readonly c=3; f() { :; }; g() { :; }; typeset -fr g";
    let infn = "wrapfn() { {CMD}; }\nwrapfn";
    v.push(e("typeset").setup(ts).o("x").args(&["a"]).bad(&["-+x", "q"], "malformed-unknown-short").bad(&["+-x", "q"], "malformed-unknown-short"));
    v.push(e("typeset").setup(ts).o("r").args(&["a", "n=1"]));
    v.push(e("typeset").setup(ts).o("rx").free().args(&["a=3"]));
    v.push(e("typeset").setup(ts).plus("x").args(&["b"]));
    v.push(e("typeset").setup(ts).o("r").plus("x").free().args(&["b"]));
    v.push(e("typeset").setup(ts).plus("x").o("x").args(&["b"]));
    v.push(e("typeset").setup(ts).wrap(infn).o("g").args(&["n=1"]));
    v.push(e("typeset").setup(ts).wrap(infn).args(&["n=1", "a=local"]));
    v.push(e("typeset").setup(ts).wrap(infn).o("gx").free().args(&["n=1", "a"]));
    v.push(e("typeset").setup(ts).wrap(infn).o("grx").free().args(&["n=1"]));
    v.push(e("typeset").setup(ts).o("p").extra(&[]));
    v.push(e("typeset").setup(ts).o("p").args(&["a", "b", "c"]));
    v.push(e("typeset").setup(ts).o("px").free().extra(&["-x"]));
    v.push(e("typeset").setup(ts).o("p").plus("x").free().extra(&["+x"]));
    v.push(e("typeset").setup(ts).o("pr").free().args(&["c"]));
    v.push(e("typeset").setup(ts).wrap(infn).o("gp").free().args(&["a"]));
    v.push(e("typeset").setup(ts).o("f").extra(&["-f", "-p"]));
    v.push(e("typeset").setup(ts).o("fp").free().args(&["f", "g"]));
    v.push(e("typeset").setup(ts).o("fr").free().args(&["f"]));
    v.push(e("typeset").setup(ts).o("fpr").free());
    v.push(e("typeset").setup(ts).o("fp").plus("r").free());
    v.push(e("typeset").setup(ts).o("x").args(&["-y=1", "+z=2"]));
    v.push(e("typeset").setup(ts).o("p").args(&["nosuchvar"]).exp(Exp::Fails));

    // ---- trap: -p/--print
    let tr = "trap 'echo x' INT; trap '' QUIT";
    v.push(e("trap").setup(tr));
    v.push(e("trap").setup(tr).o("p"));
    v.push(e("trap").setup(tr).o("p").args(&["INT"]));
    v.push(e("trap").setup(tr).o("p").args(&["TERM", "QUIT", "EXIT"]));
    v.push(e("trap").setup(tr).args(&["'echo y'", "TERM", "USR1"]));
    v.push(e("trap").setup(tr).args(&["-", "INT"]));
    v.push(e("trap").setup(tr).args(&["''", "TERM"]));
    v.push(e("trap").setup(tr).args(&["-x", "TERM"]));
    v.push(e("trap").setup(tr).args(&["2"]));
    v.push(e("trap").setup(tr).args(&["'echo y'", "NOSUCHSIG"]).exp(Exp::Any));

    catalogue_part2(&mut v);
    v
}

fn catalogue_part2(v: &mut Vec<Entry>) {
    // ---- jobs: -l/--verbose -p/--pgid-only
    let jb = "st 4 &";
    v.push(e("jobs").setup(jb));
    v.push(e("jobs").setup(jb).o("l"));
    v.push(e("jobs").setup(jb).o("p"));
    v.push(e("jobs").setup(jb).o("l").args(&["%1"]));
    v.push(e("jobs").setup(jb).o("p").args(&["%st"]));
    v.push(e("jobs").setup(jb).args(&["%1"]));
    v.push(e("jobs").setup(jb).o("l").args(&["%nosuch"]).exp(Exp::Fails));

    // ---- wait, bg, fg: no options (bg/fg cannot work without job control: error paths only)
    v.push(e("wait").setup("st 3 &"));
    v.push(e("wait").setup("st 3 &").args(&["$!"]).exp(Exp::St(3)));
    v.push(e("wait").args(&["999"]).exp(Exp::St(127)));
    v.push(e("bg").exp(Exp::Fails));
    v.push(e("bg").args(&["%1"]).exp(Exp::Fails));
    v.push(e("fg").exp(Exp::Fails));
    v.push(e("fg").args(&["%1"]).exp(Exp::Fails));

    // ---- kill (bespoke): only what kill.md states. `-s`/`-n` name or number, attached or
    // separate; "INT, int, and SIGINT all denote the same signal"; "-TERM and -15 instead of
    // -s TERM and -n 15"; POSIX numbers 2 = INT, 15 = TERM; "The default signal is SIGTERM";
    // "-v ... implies ... -l"
    let pid = "$$";
    let mut int_forms: Vec<Vec<&str>> = vec![];
    for f in [
        &["-s", "INT"][..], &["-sINT"], &["-s", "int"], &["-sint"], &["-s", "SIGINT"], &["-sSIGINT"], &["-s", "Int"],
        &["-n", "INT"], &["-nINT"], &["-n", "sigint"], &["-n", "2"], &["-n2"], &["-s", "2"], &["-s2"],
        &["-INT"], &["-int"], &["-SIGINT"], &["-2"],
    ] {
        let mut a = f.to_vec();
        a.push(pid);
        int_forms.push(a);
        let mut b = f.to_vec();
        b.push("--");
        b.push(pid);
        int_forms.push(b);
    }
    let refs: Vec<&[&str]> = int_forms.iter().map(|x| x.as_slice()).collect();
    v.push(
        e("kill")
            .setup("trap 'echo got-int' INT; trap 'echo got-term' TERM")
            .manual(&refs)
            .bad(&["-Z", pid], "malformed-unknown-short")
            .bad(&["--nosuchoption", pid], "malformed-unknown-long")
            .bad(&["-s", "INT", "-Z", pid], "malformed-unknown-short")
            .bad(&["-s"], "malformed-missing-arg")
            .bad(&["-n"], "malformed-missing-arg"),
    );
    v.push(e("kill").setup("trap 'echo got-int' INT; trap 'echo got-term' TERM").manual(&[&[pid][..], &["--", pid], &["-s", "TERM", pid], &["-sTERM", pid], &["-s", "term", "--", pid], &["-n", "15", pid], &["-n15", pid],
        &["-TERM", pid], &["-15", pid], &["-15", "--", pid], &["-SIGTERM", pid], &["-n", "SIGTERM", pid],
    ]));
    v.push(e("kill").manual(&[&["-s", "0", pid][..], &["-s0", pid], &["-n", "0", pid], &["-n0", pid], &["-0", pid], &["-s", "0", "--", pid], &["-0", "--", pid]]));
    // operands that start with a hyphen (negative process IDs) after `--`: -1 = every process
    v.push(e("kill").manual(&[&["-s", "0", "--", "-1"][..], &["-s0", "--", "-1"], &["-n", "0", "--", "-1"], &["-n0", "--", "-1"], &["-0", "--", "-1"], &["-s", "0", "--", "-1", pid], &["-0", "--", pid, "-1"]]).exp(Exp::Ok));
    v.push(e("kill").manual(&[&["-l"][..], &["-l", "--"]]).bad(&["-l", "-Z"], "malformed-unknown-short").bad(&["-Z", "-l"], "malformed-unknown-short"));
    v.push(e("kill").manual(&[&["-l", "2", "15"][..], &["-l", "--", "2", "15"]]));
    v.push(e("kill").manual(&[&["-v"][..], &["-l", "-v"], &["-v", "-l"], &["-lv"], &["-vl"], &["-v", "--"], &["-lv", "--"]]));
    v.push(e("kill").manual(&[&["-v", "INT"][..], &["-l", "-v", "INT"], &["-lv", "INT"], &["-vl", "--", "INT"], &["-v", "--", "INT"]]));

    // ---- getopts: no options
    v.push(e("getopts").args(&["ab:", "o", "-a", "-b", "x"]));
    v.push(e("getopts").setup("set -- -b y z").args(&["ab:", "o"]));
    v.push(e("getopts").args(&[":a", "o", "-z"]));
    v.push(e("getopts").args(&["a", "o", "--", "-a"]).exp(Exp::St(1)));
    // a whole getopts loop: grouped options mean the same as separate ones, also after an option
    // character that is not in the option string (silent mode: no diagnostic)
    v.push(
        e("getopts")
            .wrap("while {CMD}; do echo \"<$o|$OPTARG>\"; done; OPTIND=1; unset OPTARG o")
            .manual(&[
                &[":ab:", "o", "-x", "-a", "-b", "foo", "rest"][..],
                &[":ab:", "o", "-xab", "foo", "rest"],
                &[":ab:", "o", "-xa", "-bfoo", "rest"],
                &[":ab:", "o", "-x", "-abfoo", "--", "rest"],
                &[":ab:", "o", "-x", "-ab", "foo", "rest"],
            ]),
    );

    // ---- eval, exec: no options
    v.push(e("eval").args(&["'n=1; echo hi'"]));
    v.push(e("eval").args(&["echo", "a", "-b", "--"]));
    v.push(e("eval"));
    v.push(e("eval").args(&["-x"]).exp(Exp::St(127)));
    v.push(e("exec"));
    v.push(e("exec").args(&["/bin/nosuch"]).exp(Exp::Exit(127)));
    v.push(e("exec").args(&["-x"]).exp(Exp::Exit(127)));

    // ---- exit: -f/--force
    let ex = "trap 'echo bye' EXIT";
    v.push(e("exit").setup(ex).args(&["3"]).exp(Exp::Exit(3)));
    v.push(e("exit").setup(ex).o("f").args(&["4"]).exp(Exp::Exit(4)));
    v.push(e("exit").setup(ex).wrap("st 5\n{CMD}").o("f").exp(Exp::Exit(5)));
    v.push(e("exit").setup(ex).wrap("st 6\n{CMD}").exp(Exp::Exit(6)));

    // ---- return: -n/--no-return
    let infn = "wrapfn() { {CMD}; echo \"after $?\"; }\nwrapfn";
    v.push(e("return").wrap(infn).args(&["3"]).exp(Exp::St(3)));
    v.push(e("return").wrap(infn).o("n").args(&["3"]));
    v.push(e("return").wrap("wrapfn() { st 7; {CMD}; echo \"after $?\"; }\nwrapfn").o("n"));
    v.push(e("return").wrap("wrapfn() { st 7; {CMD}; echo \"after $?\"; }\nwrapfn").exp(Exp::St(7)));
    v.push(e("return").o("n").args(&["9"]).exp(Exp::St(9)));

    // ---- shift: no options
    let sh = "set -- a b c";
    v.push(e("shift").setup(sh));
    v.push(e("shift").setup(sh).args(&["2"]));
    v.push(e("shift").setup(sh).args(&["0"]));

    // ---- . / source: no options
    for name in [".", "source"] {
        v.push(e(name).args(&["./script.sh"]));
        v.push(e(name).args(&["./script.sh", "arg1", "-x"]));
        v.push(e(name).setup("PATH=/work:$PATH").args(&["-s.sh"]));
    }
    v.push(e(".").args(&["./nosuch.sh"]).exp(Exp::Any));

    // ---- times: no options, no operands
    v.push(e("times"));

    // ---- break, continue: no options
    let lp = "for i in 1 2; do echo $i; {CMD}; echo after; done";
    let lp2 = "for j in x y; do for i in 1 2; do echo $j$i; {CMD}; echo after; done; echo outer; done";
    let ml = "for i in 1; do {CMD}; done";
    for name in ["break", "continue"] {
        v.push(e(name).setup("i=1").wrap(lp).mwrap(ml));
        v.push(e(name).setup("i=1").wrap(lp).mwrap(ml).args(&["1"]));
        v.push(e(name).setup("i=1").wrap(lp2).mwrap(ml).args(&["2"]));
    }

    // ---- type: no options
    v.push(e("type").setup("f() { :; }; alias al=x").args(&["echo", "cd", "f", "al", "if", "true"]));
    v.push(e("type").args(&["nosuchcmd"]).exp(Exp::Fails));
    v.push(e("type").args(&["-x"]).exp(Exp::Fails));
    v.push(e("type"));

    // ---- set (bespoke): set.md + environment/options.md
    let set_bad = |en: Entry| {
        en.bad(&["-Z"], "malformed-unknown-short")
            .bad(&["-eZ"], "malformed-unknown-short")
            .bad(&["+Z"], "malformed-unknown-short")
            .bad(&["--nosuchoption"], "malformed-unknown-long")
            .bad(&["++nosuchoption"], "malformed-unknown-long")
            .bad(&["-o", "nosuchoption"], "malformed-unknown-long")
            .bad(&["+o", "nosuchoption"], "malformed-unknown-long")
            .bad(&["-e", "--nosuchoption", "a"], "malformed-unknown-long")
            .bad(&["--c"], "malformed-ambiguous")
            .bad(&["-o", "c"], "malformed-ambiguous")
            .bad(&["++no"], "malformed-ambiguous")
            .bad(&["-e", "--p", "a"], "malformed-ambiguous")
            // two different signs at the start of one argument name no option
            .bad(&["-+x"], "malformed-unknown-short")
            .bad(&["+-e"], "malformed-unknown-short")
            .bad(&["-e", "+-u", "foo"], "malformed-unknown-short")
    };
    let sp = "set -- p q";
    v.push(set_bad(e("set").setup(sp).set(&[("errexit", true)], &[])));
    v.push(e("set").setup(sp).set(&[("errexit", true)], &["a", "b"]));
    v.push(e("set").setup("set -e -- p q").set(&[("errexit", false)], &[]));
    v.push(e("set").setup(sp).set(&[("clobber", false)], &[]));
    v.push(e("set").setup("set -C").set(&[("clobber", true)], &["-a", "+b"]));
    v.push(e("set").setup(sp).set(&[("glob", false)], &["'*'"]));
    v.push(e("set").setup(sp).set(&[("unset", false)], &[]));
    v.push(e("set").setup(sp).set(&[("pipefail", true)], &[]));
    v.push(e("set").setup(sp).set(&[("ignoreeof", true)], &["x"]));
    v.push(e("set").setup(sp).set(&[("posixlycorrect", true)], &[]));
    v.push(e("set").setup(sp).set(&[("hashondefinition", true)], &[]));
    v.push(e("set").setup(sp).set(&[("notify", true)], &[]));
    v.push(e("set").setup(sp).set(&[("log", false)], &[]));
    v.push(e("set").setup(sp).set(&[("vi", true)], &[]));
    v.push(e("set").setup(sp).set(&[("allexport", true), ("errexit", true)], &[]));
    v.push(e("set").setup("set -a").set(&[("allexport", false), ("unset", false)], &["x", "-y"]));
    v.push(e("set").setup(sp).set(&[("errexit", true), ("pipefail", true)], &["+z"]));
    v.push(e("set").setup(sp).set(&[("allexport", true), ("errexit", true), ("unset", false)], &[]));
    v.push(e("set").setup("set -C").set(&[("allexport", true), ("clobber", true), ("glob", false)], &["a"]));
    // positional parameters only: `--`, and "yash-rs also accepts `-` as a separator"
    v.push(e("set").setup(sp).manual(&[&["a", "b"][..], &["--", "a", "b"], &["-", "a", "b"]]));
    v.push(e("set").setup(sp).manual(&[&["--"][..], &["-"]]));
    v.push(e("set").setup(sp).manual(&[&["--", "-e", "+x", "--"][..], &["-", "-e", "+x", "--"]]));
    v.push(e("set").setup(sp).manual(&[&["+", "a"][..], &["--", "+", "a"]]));

    // ---- ulimit: -S/--soft -H/--hard, resource options, -a/--all; "defaults to -f (--fsize)"
    let np = "ulimit -S -n; ulimit -H -n; ulimit -S -c; ulimit -H -c; ulimit -S -f; ulimit -H -f";
    v.push(e("ulimit").post(np).o("n").args(&["64"]));
    v.push(e("ulimit").setup("ulimit -n 64").post(np).o("Sn").free().args(&["32"]));
    v.push(e("ulimit").setup("ulimit -n 64; ulimit -S -n 32").post(np).o("Hn").free().args(&["48"]));
    v.push(e("ulimit").setup("ulimit -n 64").post(np).o("SHn").free().args(&["16"]));
    v.push(e("ulimit").setup("ulimit -n 64; ulimit -S -n 32").o("n"));
    v.push(e("ulimit").setup("ulimit -n 64; ulimit -S -n 32").o("Hn").free());
    v.push(e("ulimit").setup("ulimit -n 64; ulimit -S -n 32").o("Sn").free());
    v.push(e("ulimit").setup("ulimit -c 10").post(np).o("Sc").free().args(&["soft"]));
    v.push(e("ulimit").setup("ulimit -S -c 10").post(np).o("c").args(&["hard"]));
    v.push(e("ulimit").setup("ulimit -f 100").extra(&["-f"]).extra(&["-S"]).extra(&["-S", "-f"]));
    v.push(e("ulimit").post(np).o("f").args(&["200"]).extra(&["200"]));
    v.push(e("ulimit").setup("ulimit -n 64; ulimit -S -c 3").o("a"));
    v.push(e("ulimit").setup("ulimit -n 64; ulimit -S -c 3").o("Ha").free());
    v.push(e("ulimit").post(np).o("t").args(&["unlimited"]));
    v.push(e("ulimit").o("v"));
    v.push(e("ulimit").o("Hs").free());
    v.push(e("ulimit").o("d"));
    v.push(e("ulimit").post(np).o("SH").args(&["100"]));
    v.push(e("ulimit").o("nc").exp(Exp::Fails));
}

// =============================================================================================
// Random operands
// =============================================================================================

/// Raw material of a random case; turned into a self-contained `Case` by `random_case`.
#[derive(Clone, Debug)]
struct Raw {
    template: u8,
    names: Vec<String>,
    values: Vec<String>,
    optbits: u8,
    variant: u16,
}

const N_TEMPLATES: u8 = 20;

fn optionlike(word: &str, plus_too: bool) -> bool {
    (word.starts_with('-') && word != "-") || (plus_too && word.starts_with('+'))
}

/// Builds the entry of a random case. Operand values are arbitrary strings (quoted here).
fn random_entry(r: &Raw) -> Entry {
    let names: Vec<String> = r.names.iter().filter(|n| !n.is_empty()).cloned().collect();
    let vals = &r.values;
    let bit = |k: u8| r.optbits & (1 << k) != 0;
    let qv = |xs: &[String]| -> Vec<String> { xs.iter().map(|s| q(s)).collect() };
    let assigns: Vec<String> = names.iter().enumerate().map(|(i, n)| format!("{}={}", n, vals.get(i).cloned().unwrap_or_default())).collect();
    let mut en;
    let set_operands = |en: &mut Entry, words: Vec<String>, plus_too: bool| {
        let first_raw_optionlike = words.first().is_some_and(|w| optionlike(w.trim_start_matches('\''), plus_too));
        if let Body::Structured { operands, dd, .. } = &mut en.body {
            *operands = words;
            *dd = if first_raw_optionlike { Dd::Always } else { Dd::Auto };
        }
    };
    match r.template % N_TEMPLATES {
        0 => {
            // set [options] [sep] values
            let mut eff: Vec<(&'static str, bool)> = vec![];
            if bit(0) {
                eff.push(("allexport", true));
            }
            if bit(1) {
                eff.push(("glob", false));
            }
            if bit(2) {
                eff.push(("pipefail", true));
            }
            en = e("set").setup("set -- p q");
            if eff.is_empty() {
                let ops = qv(vals);
                let mut lists: Vec<Vec<String>> = vec![];
                let mut a = vec!["--".to_string()];
                a.extend(ops.iter().cloned());
                lists.push(a);
                let mut b2 = vec!["-".to_string()];
                b2.extend(ops.iter().cloned());
                lists.push(b2);
                if !ops.is_empty() && !optionlike(&vals[0], true) && vals[0] != "-" {
                    lists.push(ops.clone());
                }
                en.body = Body::Manual(lists);
            } else {
                let mut ops = qv(vals);
                // a lone `-` first operand would itself be taken as the separator
                if vals.first().is_some_and(|v| v == "-") {
                    ops.insert(0, q("x"));
                }
                en.body = Body::Set { effects: eff, operands: ops };
            }
        }
        1 => {
            en = e("export").setup("a=1; b=2");
            set_operands(&mut en, qv(&assigns), true);
        }
        2 => {
            en = e("readonly").setup("a=1; b=2");
            set_operands(&mut en, qv(&assigns), true);
        }
        3 => {
            en = e("typeset").setup("a=1; export b=2");
            if bit(0) {
                en = en.o("x");
            }
            if bit(1) {
                en = en.o("r");
            }
            if bit(2) {
                en = en.plus("x");
            }
            if !(bit(0) && bit(2)) {
                en = en.free();
            }
            let ops = if bit(3) { qv(&names) } else { qv(&assigns) };
            set_operands(&mut en, ops, true);
        }
        4 => {
            en = e("alias").setup("alias a=1");
            set_operands(&mut en, qv(&assigns), false);
        }
        5 => {
            en = e("unset").setup("a=1 b=2 c=3; f() { :; }");
            if bit(0) {
                en = en.o("v");
            } else if bit(1) {
                en = en.o("f");
            }
            set_operands(&mut en, qv(&names), false);
        }
        6 => {
            let d = if bit(2) { ";" } else { ":" };
            let line = format!("{}{d} rest", vals.join(" "));
            en = e("read").wrap(&format!("{{CMD}} <<'EOF'\n{line}\nEOF"));
            if bit(0) {
                en = en.o("r");
            }
            if bit(1) {
                en = en.oa('d', d);
            }
            en = en.free();
            let mut ops = qv(&names);
            if ops.is_empty() {
                ops.push("v".into());
            }
            set_operands(&mut en, ops, false);
        }
        7 => {
            en = e("eval");
            let mut ops = vec!["probe".to_string()];
            ops.extend(vals.iter().map(|s| sq(&sq(s))));
            if bit(0) {
                ops.remove(0);
                ops = vals.iter().map(|s| sq(s)).collect();
            }
            set_operands(&mut en, ops, false);
        }
        8 => {
            en = e("command");
            if bit(0) {
                en = en.o("p");
            }
            let mut ops = vec!["probe".to_string()];
            ops.extend(qv(vals));
            set_operands(&mut en, ops, false);
        }
        9 => {
            en = e("command").setup("f() { :; }; alias al=x");
            en = if bit(0) { en.o("v") } else { en.o("V") };
            if bit(1) {
                en = en.o("p").free();
            }
            let pool = ["echo", "cd", "f", "al", "if", "true", "nosuch", "-x", "--", "-", "export"];
            let ops: Vec<String> = vals.iter().enumerate().map(|(i, s)| pool[(s.len() * 3 + i + r.optbits as usize) % pool.len()].to_string()).collect();
            set_operands(&mut en, ops, false);
        }
        10 => {
            en = e("getopts");
            let mut ops = vec![if bit(0) { ":ab:" } else { "ab:" }.to_string(), "o".to_string()];
            ops.extend(qv(vals));
            set_operands(&mut en, ops, false);
        }
        11 => {
            en = e("trap").setup("trap 'echo x' INT");
            let action = vals.first().cloned().unwrap_or_default();
            let mut ops = vec![sq(&action)];
            ops.push(if bit(0) { "INT" } else { "TERM" }.to_string());
            if bit(1) {
                ops.push("USR1".into());
            }
            set_operands(&mut en, ops, false);
        }
        12 => {
            en = e("cd").setup("CDPATH=");
            if bit(0) {
                en = en.o("L");
            }
            if bit(1) {
                en = en.o("P");
            }
            if bit(1) && bit(2) {
                en = en.o("e");
            }
            let pool = ["sub", "link", "-P", "-x", "./sub", "sub/inner", "nosuch", "sub/../sub", "..", "./-x", "/work/link"];
            let d = pool[(r.variant as usize + vals.len() * 5 + r.names.len()) % pool.len()];
            set_operands(&mut en, vec![d.to_string()], false);
        }
        13 => {
            en = e("umask").setup("umask 022");
            if bit(0) {
                en = en.o("S");
            }
            let pool = ["-w", "a-w", "022", "u=rwx", "-x", "=", "777", "-rwx", "g+w", "-r,u+r", "0"];
            let mut ops = vec![];
            if !bit(1) {
                ops.push(pool[(vals.len() * 7 + r.names.len() + r.optbits as usize) % pool.len()].to_string());
            }
            set_operands(&mut en, ops, false);
        }
        14 => {
            en = e("type").setup("f() { :; }; alias al=x");
            let mut ops = qv(&names);
            ops.push("cd".into());
            set_operands(&mut en, ops, false);
        }
        15 => {
            let mut setup = String::from("alias zz=1");
            for n in &names {
                setup.push_str(&format!("; alias -- {}=v", q(n)));
            }
            en = e("unalias").setup(&setup);
            let mut ops = qv(&names);
            if ops.is_empty() || bit(0) {
                ops.push("zz".into());
            }
            set_operands(&mut en, ops, false);
        }
        16 => {
            let n = (vals.len() + r.names.len()) % 4;
            en = e("return").wrap("wrapfn() { st 7; {CMD}; echo \"after $?\"; }\nwrapfn");
            if bit(0) {
                en = en.o("n");
            }
            if !bit(1) {
                set_operands(&mut en, vec![n.to_string()], false);
            }
        }
        17 => {
            let n = (vals.len() * 2 + r.names.len()) % 5;
            en = e("exit").setup("trap 'echo bye' EXIT");
            if bit(0) {
                en = en.o("f");
            }
            set_operands(&mut en, vec![n.to_string()], false);
        }
        18 => {
            let n = 8 + (vals.len() * 13 + r.names.len() * 7 + r.optbits as usize) % 50;
            en = e("ulimit").post("ulimit -S -n; ulimit -H -n; ulimit -S -c; ulimit -H -c");
            if bit(0) {
                en = en.o("S");
            }
            if bit(1) {
                en = en.o("H");
            }
            en = if bit(2) { en.o("c") } else { en.o("n") };
            en = en.free();
            if !(bit(0) && bit(1) && bit(3)) {
                set_operands(&mut en, vec![n.to_string()], false);
            }
        }
        _ => {
            en = e("shift").setup("set -- a b c d");
            let n = (vals.len() + r.names.len()) % 6;
            set_operands(&mut en, vec![n.to_string()], false);
        }
    }
    en.exp = Exp::Any;
    en
}

fn random_case(r: &Raw) -> Case {
    let en = random_entry(r);
    let vs = variants(&en);
    let canonical = vs[0].words.clone();
    let k = pick_idx(r.variant, vs.len());
    make_case(&en, &canonical, &vs[k])
}

fn arb_raw() -> impl Strategy<Value = Raw> {
    let name = prop::sample::select(vec!["a", "b", "c", "-a", "-x", "--", "-", "_d", "--long", "+x", "-ab", "n1", "-p", "+"]).prop_map(String::from);
    let value = prop_oneof![
        3 => "[ab \\-=+x1]{0,4}",
        1 => prop::sample::select(vec!["-", "--", "-x", "--export", "+x", "a b", "", "-ab", "--x=1", "*", "$a", "'", "-n", "-e"]).prop_map(String::from),
    ];
    (0u8..N_TEMPLATES, prop::collection::vec(name, 0..4), prop::collection::vec(value, 0..4), any::<u8>(), any::<u16>())
        .prop_map(|(template, names, values, optbits, variant)| Raw { template, names, values, optbits, variant })
}

fn arb_case() -> impl Strategy<Value = Case> {
    arb_raw().prop_map(|r| random_case(&r))
}

// =============================================================================================
// Known findings, drivers
// =============================================================================================

/// Known findings (genuine disagreements with the manual, see the report):
/// * `umask-long-option-symbolic-missing`: umask.md documents `-S` (`--symbolic`), but
///   yash-builtin/src/umask/syntax.rs OPTION_SPECS has no long name: `umask --symbolic` is an
///   unknown option.
/// * `unalias-long-option-all-missing`: unalias.md documents `-a` (`--all`), but
///   yash-builtin/src/unalias/syntax.rs OPTION_SPECS has no long name.
fn known(c: &Case, msg: &str) -> Option<&'static str> {
    if !msg.contains("unknown option") {
        return None;
    }
    let has_long = |pfx: &str| c.variant.iter().any(|w| w.starts_with("--") && w.len() > 2 && pfx.starts_with(w.split('=').next().unwrap_or("")));
    if c.kind == "equiv" && c.builtin == "umask" && has_long("--symbolic") {
        return Some("umask-long-option-symbolic-missing");
    }
    if c.kind == "equiv" && c.builtin == "unalias" && has_long("--all") {
        return Some("unalias-long-option-all-missing");
    }
    None
}

pub static CATALOGUE: Driver<Case> = Driver::new("C20", "builtin-catalogue", check).with_known(known);
pub static RANDOM: Driver<Case> = Driver::new("C20", "builtin-random", check).with_known(known);

fn all_cases() -> &'static Vec<Case> {
    static CELL: OnceLock<Vec<Case>> = OnceLock::new();
    CELL.get_or_init(|| catalogue().iter().flat_map(entry_cases).collect())
}

pub fn run(ctx: &Ctx, st: &mut Stats) {
    let cases = all_cases();
    let n = cases.len() as u64;
    CATALOGUE.run_exhaustive(ctx, st, n, &|i| Some(cases[i as usize].clone()));
    let entries = catalogue().len() as u64;
    let builtins: BTreeSet<&str> = cases.iter().map(|c| c.builtin.as_str()).collect();
    st.extra.insert(
        "builtin_catalogue".into(),
        serde_json::json!({
            "entries": entries,
            "cases": n,
            "equiv_spellings": cases.iter().filter(|c| c.kind == "equiv").count(),
            "malformed": cases.iter().filter(|c| c.kind != "equiv").count(),
            "builtins": builtins.len(),
        }),
    );
    let n = ctx.tier.pick(100_000, 2_000_000);
    RANDOM.run_random(ctx, st, n, arb_case);
}

pub fn replay(driver: &str, case: &serde_json::Value) -> Result<(Outcome, Option<&'static str>), String> {
    match driver {
        "builtin-catalogue" => CATALOGUE.replay_known(case),
        "builtin-random" => RANDOM.replay_known(case),
        _ => Err(format!("unknown driver {driver}")),
    }
}
