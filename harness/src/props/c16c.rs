//! C16 (quirk half) — a read-only variable is never modified by any means, also when its value is
//! computed by the shell: `LINENO` (the only variable with a quirk).
//!
//! Cases are scripts of one command per line (so that the reference knows the line number of every
//! expansion): padding commands, observation points `probe L $LINENO`, `readonly LINENO`, and
//! assigners that do not end a non-interactive shell when they are refused (`read`, `getopts`,
//! `typeset`); optionally a last line that is refused fatally (plain assignment, temporary
//! assignment, `for`, arithmetic assignment, `unset`) with the value observed from the EXIT trap.
//!
//! Oracle: docs/src/language/parameters/variables.md ("LINENO: the current line number in the
//! shell script, automatically updated as the shell executes commands") => until an assignment to
//! or an unset of LINENO *succeeds* (after which POSIX lets the variable lose its meaning: nothing
//! more is compared), every observation at top level shows the number of its own line; once
//! LINENO is read-only every assigner fails (non-zero `$?`) and the observations go on showing the
//! line numbers. For the fatal last line the relation is metamorphic: what the EXIT trap observes
//! must equal what it observes when that line is replaced by `exit 3` (a refused assignment leaves
//! the variable as it was).

use crate::engine::*;
use crate::vsys::{self, FileSpec};
use proptest::prelude::*;
use serde::{Deserialize, Serialize};

#[derive(Clone, Copy, Debug, PartialEq, Eq, Hash, Serialize, Deserialize)]
pub enum L {
    Pad,
    Probe,
    Readonly,
    /// `read LINENO <in` (the file holds `77`)
    Read,
    /// `getopts ab LINENO -a`
    Getopts,
    /// `typeset LINENO=5`
    Typeset,
    /// `export LINENO` (no assignment; must not disturb the value seen by the shell)
    Export,
    /// a blank line and a comment line (two lines)
    BlankComment,
    /// a probe on the continuation line of a two-line command: `probe L \` newline `$LINENO`
    ProbeContinued,
}

#[derive(Clone, Copy, Debug, PartialEq, Eq, Hash, Serialize, Deserialize)]
pub enum Fatal {
    Assign,
    Temp,
    For,
    Arith,
    Unset,
    ReadonlyAssign,
    ExportAssign,
}

#[derive(Clone, Debug, PartialEq, Eq, Hash, Serialize, Deserialize)]
pub struct Case {
    pub lines: Vec<L>,
    /// refused fatally on the last line (generated only when LINENO is read-only by then)
    pub fatal: Option<Fatal>,
}

struct Rendered {
    script: String,
    /// per probe: expected line number (None = no longer specified)
    expect: Vec<(Option<usize>, bool)>, // (line, must_see_nonzero_status)
    readonly: bool,
    assigned: bool,
    refused: u32,
}

fn render(c: &Case, fatal_replaced: bool) -> Rendered {
    let mut s = String::from("trap 'probe T $LINENO' EXIT\n");
    let mut line = 2usize;
    let mut r = Rendered { script: String::new(), expect: vec![], readonly: false, assigned: false, refused: 0 };
    let mut prev_refused = false;
    for l in &c.lines {
        let mut refused_now = false;
        match l {
            L::Pad => {
                s.push_str(":\n");
                line += 1;
            }
            L::Probe => {
                s.push_str("probe L $LINENO\n");
                r.expect.push((if r.assigned { None } else { Some(line) }, prev_refused));
                line += 1;
            }
            L::ProbeContinued => {
                s.push_str("probe L \\\n$LINENO\n");
                // the expansion stands on the second line; implementations number the command or the
                // word: either line is accepted (see check)
                r.expect.push((if r.assigned { None } else { Some(line + 1 + 1000) }, prev_refused));
                line += 2;
            }
            L::Readonly => {
                s.push_str("readonly LINENO\n");
                r.readonly = true;
                line += 1;
            }
            L::Export => {
                s.push_str("export LINENO\n");
                line += 1;
            }
            L::BlankComment => {
                s.push_str("\n# comment\n");
                line += 2;
            }
            L::Read | L::Getopts | L::Typeset => {
                s.push_str(match l {
                    L::Read => "read LINENO <in\n",
                    L::Getopts => "getopts ab LINENO -a\n",
                    _ => "typeset LINENO=5\n",
                });
                if r.readonly {
                    r.refused += 1;
                    refused_now = true;
                } else {
                    r.assigned = true;
                }
                line += 1;
            }
        }
        // `$?` seen by a probe directly after a refused assigner must be non-zero
        prev_refused = refused_now;
    }
    if let Some(f) = c.fatal {
        if fatal_replaced {
            s.push_str("exit 3\n");
        } else {
            s.push_str(match f {
                Fatal::Assign => "LINENO=5\n",
                Fatal::Temp => "LINENO=5 :\n",
                Fatal::For => "for LINENO in a b; do :; done\n",
                Fatal::Arith => ": $((LINENO=5))\n",
                Fatal::Unset => "unset LINENO\n",
                Fatal::ReadonlyAssign => "readonly LINENO=5\n",
                Fatal::ExportAssign => "export LINENO=5\n",
            });
        }
        s.push_str("probe AFTER\n");
    }
    r.script = s;
    r
}

fn run_script(script: &str) -> vsys::RunResult {
    let mut s = vsys::Setup::script(script);
    s.files.push(("/work/in".into(), FileSpec::Regular { content: "77\n".into(), mode: 0o644, exec: false }));
    vsys::run(&s)
}

fn check(c: &Case) -> Outcome {
    let r = render(c, false);
    let run = run_script(&r.script);
    if let Some(p) = &run.panic {
        return Outcome::fail(format!("panic: {p}\nscript:\n{}", r.script));
    }
    if !run.finished {
        return Outcome::fail(format!("shell did not finish\nscript:\n{}", r.script));
    }
    let trace = run.main_trace();
    let probes: Vec<_> = trace.iter().filter(|t| t.args.first().map(String::as_str) == Some("L")).collect();
    if probes.len() != r.expect.len() {
        return Outcome::fail(format!("{} observation points ran, {} expected\nscript:\n{}stderr: {:?}", probes.len(), r.expect.len(), r.script, run.stderr));
    }
    for (i, (p, (want, nonzero))) in probes.iter().zip(&r.expect).enumerate() {
        if *nonzero && p.status == 0 {
            return Outcome::fail(format!("observation {i}: the refused assignment to read-only LINENO before it left $? = 0\nscript:\n{}", r.script));
        }
        let Some(want) = want else { continue };
        let got = p.args.get(1).cloned().unwrap_or_default();
        let ok = if *want >= 1000 {
            let w = want - 1000;
            got == w.to_string() || got == (w - 1).to_string()
        } else {
            got == want.to_string()
        };
        if !ok {
            return Outcome::fail(format!(
                "observation {i}: $LINENO expanded to {got:?} on line {} (LINENO read-only: {}, refused assignments so far: {})\nscript:\n{}stderr: {:?}",
                if *want >= 1000 { want - 1000 } else { *want },
                r.readonly,
                r.refused,
                r.script,
                run.stderr
            ));
        }
    }
    let exit_obs = |run: &vsys::RunResult| -> Vec<Vec<String>> { run.main_trace().iter().filter(|t| t.args.first().map(String::as_str) == Some("T")).map(|t| t.args.clone()).collect() };
    let t1 = exit_obs(&run);
    if t1.len() != 1 {
        return Outcome::fail(format!("the EXIT trap ran {} times\nscript:\n{}", t1.len(), r.script));
    }
    if c.fatal.is_some() && r.readonly && !r.assigned {
        if trace.iter().any(|t| t.args.first().map(String::as_str) == Some("AFTER")) {
            return Outcome::fail(format!("a command ran after the refused assignment to read-only LINENO (non-interactive shell)\nscript:\n{}", r.script));
        }
        if run.status == 0 {
            return Outcome::fail(format!("exit status 0 after a refused assignment to read-only LINENO\nscript:\n{}", r.script));
        }
        let r2 = render(c, true);
        let run2 = run_script(&r2.script);
        let t2 = exit_obs(&run2);
        if t1 != t2 {
            return Outcome::fail(format!(
                "the EXIT trap sees $LINENO = {:?} after the refused assignment, {:?} when the line is `exit 3` instead: the refused assignment modified the read-only variable\nscript:\n{}",
                t1[0].get(1),
                t2.first().and_then(|t| t.get(1)),
                r.script
            ));
        }
    }
    Outcome::pass(r.refused > 0 || (c.fatal.is_some() && r.readonly))
        .class_if(r.refused > 0, "refused-assignment-then-observation")
        .class_if(c.fatal.is_some() && r.readonly && !r.assigned, "fatal-refusal-observed-from-exit-trap")
        .class_if(r.assigned, "lineno-assigned-(later-values-unspecified)")
        .class_if(!r.readonly, "never-read-only")
}

pub static LINENO: Driver<Case> = Driver::new("C16", "script-lineno", check);

fn arb_case() -> impl Strategy<Value = Case> {
    let l = prop_oneof![
        2 => Just(L::Pad),
        4 => Just(L::Probe),
        2 => Just(L::Readonly),
        2 => Just(L::Read),
        2 => Just(L::Getopts),
        2 => Just(L::Typeset),
        1 => Just(L::Export),
        1 => Just(L::BlankComment),
        1 => Just(L::ProbeContinued),
    ];
    let fatal = prop::option::weighted(
        0.6,
        prop::sample::select(vec![Fatal::Assign, Fatal::Temp, Fatal::For, Fatal::Arith, Fatal::Unset, Fatal::ReadonlyAssign, Fatal::ExportAssign]),
    );
    (prop::collection::vec(l, 1..10), fatal, any::<bool>()).prop_map(|(mut lines, fatal, early_ro)| {
        if early_ro {
            lines.insert(0, L::Readonly);
        }
        // a fatal last line is only meaningful while LINENO is read-only and was never assigned
        let mut ro = false;
        let mut assigned = false;
        for l in &lines {
            match l {
                L::Readonly => ro = true,
                L::Read | L::Getopts | L::Typeset if !ro => assigned = true,
                _ => {}
            }
        }
        let fatal = if ro && !assigned { fatal } else { None };
        let mut lines = lines;
        lines.push(L::Probe);
        if fatal.is_some() {
            // keep the final probe before the fatal line
        }
        Case { lines, fatal }
    })
}

pub fn run(ctx: &Ctx, st: &mut Stats) {
    let n = ctx.tier.pick(4_000, 200_000);
    LINENO.run_random(ctx, st, n, arb_case);
}

pub fn replay(_driver: &str, case: &serde_json::Value) -> Result<(Outcome, Option<&'static str>), String> {
    LINENO.replay_known(case)
}
