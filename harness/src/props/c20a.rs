//! C20 (API half) — built-in argument syntax: the generic option parser against a reference
//! parser, and the shell's own command line parser against documented spelling equivalences.
//!
//! Target 1 (`api-getopt`, `api-getopt-random`): `yash_builtin::common::syntax::parse_arguments`.
//! Oracle: `model_parse`, a reference implementation of the POSIX Utility Syntax Guidelines plus
//! the extensions documented in `docs/src/builtins/README.md` and in the doc comments of
//! `common/syntax.rs` (long options, unambiguous prefixes, `--name=arg`, `Mode` switches). It works
//! on its own spec table and never calls the parser under test.
//!
//! Target 2 (`api-shell-cmdline`): `yash_cli::startup::args::parse`. Oracle: metamorphic. All
//! spellings that `docs/src/startup.md` and `docs/src/environment/options.md` declare equivalent
//! must give equal results (and the result must contain what the manual says the spelling means);
//! malformed vectors must be rejected.

use crate::engine::*;
use proptest::prelude::*;
use serde::{Deserialize, Serialize};
use std::collections::{BTreeMap, BTreeSet};
use std::sync::OnceLock;
use yash_builtin::common::syntax::{
    Field, Mode, OptionArgumentSpec, OptionSpec, OptionSpelling, ParseError, parse_arguments,
};
use yash_cli::startup::args as shargs;
use yash_env::source::Location;

pub const INFO: PropInfo = PropInfo {
    id: "C20",
    level: "exploration",
    rule: "api-getopt: cases = (option spec set, Mode, argument vector). Exhaustive over every vector of length <= 4 (quick) / <= 5 (thorough) over a 23-token alphabet x 9 spec sets x 8 Modes, plus random vectors of <= 8 tokens with random option-argument texts. A case is non-trivial if the vector has >= 1 option-looking token (starts with `-`, longer than 1 char) after position 0, or contains a grouped (`-xy`), abbreviated (`--prefix`) or attached (`-oX`, `--name=X`) form; distinct by enumeration index / serialised case. api-shell-cmdline: cases = groups of command lines the manual declares equivalent (all orderings x spellings x groupings x with/without `--` of 1-3 options), non-trivial if the group has >= 2 distinct spellings; malformed command lines are non-trivial.",
    assumptions: &[
        "the first erroneous argument (left to right) determines the reported error; if one argument has several error conditions any of them is accepted",
        "a complete long option name is not an abbreviation: it selects that option even if it is a prefix of another long name",
        "not judged (skipped, counted): `--name=` with nothing after `=`, `--=...` with an empty name, abbreviations whose candidate set changes depending on whether disabled extension options take part in matching",
        "OptionArgumentSpec has no optional-argument variant in this version, so none is generated",
        "shell command line: only option sets without `portable` are reordered (the manual makes `-o portable` order-sensitive); option vectors are compared as effective states (last occurrence wins), not as sequences",
    ],
};

// =============================================================================================
// Target 1: generic parser
// =============================================================================================

/// The harness' own description of an option.
#[derive(Clone, Copy, Debug)]
struct RSpec {
    short: Option<char>,
    long: Option<&'static str>,
    arg: bool,
    ext: bool,
}

const fn sp(short: Option<char>, long: Option<&'static str>, arg: bool, ext: bool) -> RSpec {
    RSpec { short, long, arg, ext }
}

const SPEC_SETS: &[&[RSpec]] = &[
    // 0: short options only
    &[sp(Some('a'), None, false, false), sp(Some('b'), None, false, false), sp(Some('o'), None, true, false)],
    // 1: long options only; `long` and `lot` share the prefix `lo`
    &[sp(None, Some("long"), false, false), sp(None, Some("lot"), false, false), sp(None, Some("opt"), true, false)],
    // 2: all six as separate options
    &[
        sp(Some('a'), None, false, false),
        sp(Some('b'), None, false, false),
        sp(Some('o'), None, true, false),
        sp(None, Some("long"), false, false),
        sp(None, Some("lot"), false, false),
        sp(None, Some("opt"), true, false),
    ],
    // 3: each option has both names
    &[sp(Some('a'), Some("long"), false, false), sp(Some('b'), Some("lot"), false, false), sp(Some('o'), Some("opt"), true, false)],
    // 4: no `lot`: every prefix of `long` is unambiguous
    &[sp(Some('a'), Some("long"), false, false), sp(Some('o'), Some("opt"), true, false)],
    // 5: `b` and `lot` are extension options
    &[
        sp(Some('a'), None, false, false),
        sp(Some('b'), None, false, true),
        sp(Some('o'), None, true, false),
        sp(None, Some("long"), false, false),
        sp(None, Some("lot"), false, true),
        sp(None, Some("opt"), true, false),
    ],
    // 6: `lo` is a complete name and a prefix of two others
    &[
        sp(None, Some("lo"), false, false),
        sp(None, Some("long"), false, false),
        sp(None, Some("lot"), false, false),
        sp(Some('o'), Some("opt"), true, false),
        sp(Some('a'), None, false, false),
    ],
    // 7: roles swapped: `a` and `long` take an argument, `o` and `x` do not
    &[sp(Some('a'), None, true, false), sp(Some('x'), None, false, false), sp(None, Some("long"), true, false), sp(Some('o'), None, false, false)],
    // 8: no options at all
    &[],
];

#[derive(Clone, Copy, Debug)]
struct RMode {
    long: bool,
    ext: bool,
    attach: bool,
}

const N_MODES: u64 = 8;

fn rmode(m: u8) -> RMode {
    // 0 = Mode::default(), 7 = Mode::with_extensions()
    RMode { long: m & 1 != 0, ext: m & 2 != 0, attach: m & 4 != 0 }
}

pub const ALPHABET: [&str; 23] = [
    "-", "--", "-a", "-ab", "-ba", "-b", "-oX", "-o", "-aoX", "-ao", "--long", "--lo", "--l", "--lon", "--lot",
    "--long=X", "--opt=X", "--opt", "--op", "X", "-x", "--nosuch", "",
];

#[derive(Clone, Debug, Serialize, Deserialize)]
pub struct ArgCase {
    /// index into SPEC_SETS
    pub specs: u8,
    /// bit 0 long_option_names, bit 1 extension_options, bit 2 option_arguments_in_same_field
    pub mode: u8,
    pub argv: Vec<String>,
}

#[derive(Clone, Copy, Debug, PartialEq, Eq)]
enum ErrKind {
    Unknown,
    Ambiguous,
    MissingArg,
    UnexpectedArg,
    NonPortable,
    Unseparated,
    Other,
}

impl ErrKind {
    fn class(self) -> &'static str {
        match self {
            ErrKind::Unknown => "error-unknown",
            ErrKind::Ambiguous => "error-ambiguous",
            ErrKind::MissingArg => "error-missing-arg",
            ErrKind::UnexpectedArg => "error-unexpected-arg",
            ErrKind::NonPortable => "error-non-portable",
            ErrKind::Unseparated => "error-unseparated-arg",
            ErrKind::Other => "error-other",
        }
    }
}

#[derive(Clone, Debug, PartialEq, Eq)]
enum RSpelling {
    Short(usize),
    Long,
}

#[derive(Clone, Debug, PartialEq, Eq)]
struct ROcc {
    spec: usize,
    /// the argument containing the option
    token: String,
    spelling: RSpelling,
    /// (value, argument it came from)
    arg: Option<(String, String)>,
}

#[derive(Clone, Debug, Default)]
struct Feats {
    grouped: bool,
    attached: bool,
    separate: bool,
    long_prefix: bool,
    long_eq: bool,
    double_dash: bool,
    option_after_operand: bool,
    arg_looks_like_option: bool,
}

#[derive(Clone, Debug)]
struct RErr {
    /// acceptable kinds; the first is the one a left-to-right parser meets first
    kinds: Vec<ErrKind>,
    token: String,
    /// details of the primary kind
    ch: Option<char>,
    spec: Option<usize>,
    candidates: Vec<usize>,
}

#[derive(Clone, Debug)]
enum Expect {
    Ok { occ: Vec<ROcc>, operands: Vec<String>, feats: Feats },
    Err(RErr, Feats),
    Unspecified(&'static str),
}

fn looks_like_option(t: &str) -> bool {
    t.len() > 1 && t.starts_with('-')
}

/// The reference parser.
fn model_parse(specs: &[RSpec], mode: RMode, argv: &[String]) -> Expect {
    let n = argv.len();
    let mut i = 0;
    let mut occ: Vec<ROcc> = vec![];
    let mut f = Feats::default();
    let mut ended_by_separator = false;
    while i < n {
        let tok = argv[i].as_str();
        if tok == "--" {
            // Guideline 10: the first `--` that is not an option-argument ends the options
            i += 1;
            f.double_dash = true;
            ended_by_separator = true;
            break;
        }
        if tok == "-" || !tok.starts_with('-') {
            break; // first operand: everything from here on is an operand
        }
        if let Some(body) = tok.strip_prefix("--") {
            // ---- long option
            let (name, val) = match body.find('=') {
                Some(p) => (&body[..p], Some(&body[p + 1..])),
                None => (body, None),
            };
            if name.is_empty() {
                return Expect::Unspecified("long option with an empty name");
            }
            if val == Some("") {
                return Expect::Unspecified("nothing after `=` in a long option");
            }
            let exact = specs.iter().position(|s| s.long == Some(name));
            let partial: Vec<usize> = specs
                .iter()
                .enumerate()
                .filter(|(_, s)| s.long.is_some_and(|l| l.starts_with(name) && l != name))
                .map(|(k, _)| k)
                .collect();
            let si = if let Some(e) = exact {
                e
            } else {
                match partial.len() {
                    0 => {
                        return Expect::Err(
                            RErr { kinds: vec![ErrKind::Unknown], token: tok.into(), ch: None, spec: None, candidates: vec![] },
                            f,
                        );
                    }
                    1 => {
                        f.long_prefix = true;
                        partial[0]
                    }
                    _ => {
                        if !mode.ext && partial.iter().any(|&k| specs[k].ext) {
                            return Expect::Unspecified("abbreviation matches a disabled extension option");
                        }
                        return Expect::Err(
                            RErr { kinds: vec![ErrKind::Ambiguous], token: tok.into(), ch: None, spec: None, candidates: partial },
                            f,
                        );
                    }
                }
            };
            let s = specs[si];
            let mut kinds = vec![];
            if !mode.long || (s.ext && !mode.ext) {
                kinds.push(ErrKind::NonPortable);
            }
            let mut consumed = 0;
            let arg = match (s.arg, val) {
                (false, None) => None,
                (false, Some(_)) => {
                    kinds.push(ErrKind::UnexpectedArg);
                    None
                }
                (true, Some(v)) => {
                    f.long_eq = true;
                    Some((v.to_string(), tok.to_string()))
                }
                (true, None) => {
                    if i + 1 < n {
                        consumed = 1;
                        f.separate = true;
                        f.arg_looks_like_option |= looks_like_option(&argv[i + 1]);
                        Some((argv[i + 1].clone(), argv[i + 1].clone()))
                    } else {
                        kinds.push(ErrKind::MissingArg);
                        None
                    }
                }
            };
            if !kinds.is_empty() {
                return Expect::Err(RErr { kinds, token: tok.into(), ch: None, spec: Some(si), candidates: vec![] }, f);
            }
            occ.push(ROcc { spec: si, token: tok.into(), spelling: RSpelling::Long, arg });
            i += 1 + consumed;
            continue;
        }
        // ---- group of short options
        let mut count = 0;
        let mut consumed = 0;
        let mut err: Option<RErr> = None;
        let mut it = tok.char_indices().skip(1);
        while let Some((idx, c)) = it.next() {
            let rest = &tok[idx + c.len_utf8()..];
            let found = specs.iter().position(|s| s.short == Some(c));
            // `Some(kind)` if this character is in error
            let mut this: Option<(ErrKind, Option<usize>)> = None;
            let mut stop = false;
            match found {
                None => this = Some((ErrKind::Unknown, None)),
                Some(si) => {
                    let s = specs[si];
                    if s.ext && !mode.ext {
                        this = Some((ErrKind::NonPortable, Some(si)));
                    } else if !s.arg {
                        if err.is_none() {
                            occ.push(ROcc { spec: si, token: tok.into(), spelling: RSpelling::Short(idx), arg: None });
                            count += 1;
                        }
                    } else {
                        stop = true; // Guideline 5: the argument-taking option is the last one
                        if rest.is_empty() {
                            if i + 1 < n {
                                if err.is_none() {
                                    consumed = 1;
                                    f.separate = true;
                                    f.arg_looks_like_option |= looks_like_option(&argv[i + 1]);
                                    occ.push(ROcc {
                                        spec: si,
                                        token: tok.into(),
                                        spelling: RSpelling::Short(idx),
                                        arg: Some((argv[i + 1].clone(), argv[i + 1].clone())),
                                    });
                                    count += 1;
                                }
                            } else {
                                this = Some((ErrKind::MissingArg, Some(si)));
                            }
                        } else if !mode.attach {
                            this = Some((ErrKind::Unseparated, Some(si)));
                        } else if err.is_none() {
                            f.attached = true;
                            occ.push(ROcc {
                                spec: si,
                                token: tok.into(),
                                spelling: RSpelling::Short(idx),
                                arg: Some((rest.to_string(), tok.to_string())),
                            });
                            count += 1;
                        }
                    }
                }
            }
            if let Some((kind, si)) = this {
                match &mut err {
                    None => {
                        err = Some(RErr {
                            kinds: vec![kind],
                            token: tok.into(),
                            ch: if matches!(kind, ErrKind::Unknown | ErrKind::NonPortable) { Some(c) } else { None },
                            spec: si,
                            candidates: vec![],
                        })
                    }
                    Some(e) => {
                        // further error conditions in the same argument: also acceptable
                        if !e.kinds.contains(&kind) {
                            e.kinds.push(kind);
                        }
                    }
                }
            }
            if stop {
                break;
            }
        }
        if let Some(e) = err {
            return Expect::Err(e, f);
        }
        if count >= 2 {
            f.grouped = true;
        }
        i += 1 + consumed;
    }
    let operands: Vec<String> = argv[i..].to_vec();
    if !ended_by_separator && operands.iter().skip(1).any(|t| looks_like_option(t)) {
        f.option_after_operand = true;
    }
    Expect::Ok { occ, operands, feats: f }
}

fn real_specs() -> &'static Vec<Vec<OptionSpec<'static>>> {
    static CELL: OnceLock<Vec<Vec<OptionSpec<'static>>>> = OnceLock::new();
    CELL.get_or_init(|| {
        SPEC_SETS
            .iter()
            .map(|set| {
                set.iter()
                    .map(|r| {
                        let mut s = OptionSpec::new();
                        if let Some(c) = r.short {
                            s = s.short(c);
                        }
                        if let Some(l) = r.long {
                            s = s.long(l);
                        }
                        if r.arg {
                            s = s.argument(OptionArgumentSpec::Required);
                        }
                        s.extension(r.ext)
                    })
                    .collect()
            })
            .collect()
    })
}

fn real_mode(m: RMode) -> Mode {
    let mut mode = Mode::default();
    mode.long_option_names = m.long;
    mode.extension_options = m.ext;
    mode.option_arguments_in_same_field = m.attach;
    mode
}

fn describe_specs(set: &[RSpec]) -> String {
    let parts: Vec<String> = set
        .iter()
        .map(|s| {
            let mut t = String::new();
            if let Some(c) = s.short {
                t.push('-');
                t.push(c);
            }
            if let Some(l) = s.long {
                if !t.is_empty() {
                    t.push('/');
                }
                t.push_str("--");
                t.push_str(l);
            }
            if s.arg {
                t.push_str(" ARG");
            }
            if s.ext {
                t.push_str(" (extension)");
            }
            t
        })
        .collect();
    format!("[{}]", parts.join(", "))
}

/// Lexical non-triviality rule (see INFO.rule).
fn nontrivial_vector(set: &[RSpec], argv: &[String]) -> bool {
    argv.iter().enumerate().any(|(i, t)| {
        if !looks_like_option(t) {
            return false;
        }
        if i > 0 {
            return true;
        }
        if let Some(body) = t.strip_prefix("--") {
            if body.is_empty() {
                return false;
            }
            if body.contains('=') {
                return true;
            }
            set.iter().any(|s| s.long.is_some_and(|l| l.starts_with(body) && l != body))
        } else {
            t.chars().count() >= 3
        }
    })
}

fn check_getopt(c: &ArgCase) -> Outcome {
    let Some(set) = SPEC_SETS.get(c.specs as usize) else {
        return Outcome::skip("bad spec set index");
    };
    let m = rmode(c.mode & 7);
    let expect = model_parse(set, m, &c.argv);
    if let Expect::Unspecified(w) = expect {
        return Outcome::skip(w);
    }
    let rspecs: &'static [OptionSpec<'static>] = &real_specs()[c.specs as usize];
    let got = parse_arguments(rspecs, real_mode(m), Field::dummies(c.argv.iter().cloned()));
    let ctx = || {
        format!(
            "specs {} mode {{long:{}, extension:{}, same_field:{}}} argv {:?}",
            describe_specs(set),
            m.long,
            m.ext,
            m.attach,
            c.argv
        )
    };
    let spec_index = |s: &OptionSpec<'_>| rspecs.iter().position(|r| std::ptr::eq(r, s));
    let nontrivial = nontrivial_vector(set, &c.argv);
    match (expect, got) {
        (Expect::Unspecified(_), _) => unreachable!(),
        (Expect::Ok { occ, operands, feats }, Ok((gocc, gops))) => {
            let render_got = || {
                let o: Vec<String> = gocc
                    .iter()
                    .map(|o| format!("{}{}", o.spec, o.argument.as_ref().map(|a| format!("={:?}", a.value)).unwrap_or_default()))
                    .collect();
                let p: Vec<&str> = gops.iter().map(|f| f.value.as_str()).collect();
                format!("options [{}] operands {:?}", o.join(", "), p)
            };
            let render_exp = || {
                let o: Vec<String> = occ
                    .iter()
                    .map(|o| {
                        format!(
                            "#{}{}",
                            o.spec,
                            o.arg.as_ref().map(|a| format!("={:?}", a.0)).unwrap_or_default()
                        )
                    })
                    .collect();
                format!("options [{}] (index into specs) operands {:?}", o.join(", "), operands)
            };
            if gocc.len() != occ.len() || gops.len() != operands.len() {
                return Outcome::fail(format!("{}: got {}, reference {}", ctx(), render_got(), render_exp()));
            }
            for (k, (g, e)) in gocc.iter().zip(&occ).enumerate() {
                if spec_index(g.spec) != Some(e.spec) {
                    return Outcome::fail(format!("{}: option #{k} is {}, reference spec index {}; got {}, reference {}", ctx(), g.spec, e.spec, render_got(), render_exp()));
                }
                match (&g.argument, &e.arg) {
                    (None, None) => {}
                    (Some(ga), Some((ev, eo))) => {
                        if &ga.value != ev {
                            return Outcome::fail(format!("{}: argument of option #{k} is {:?}, reference {:?}", ctx(), ga.value, ev));
                        }
                        if ga.origin != Location::dummy(eo.clone()) {
                            return Outcome::fail(format!("{}: origin of the argument of option #{k} is {:?}, reference: the argument {:?}", ctx(), ga.origin, eo));
                        }
                    }
                    (ga, ea) => {
                        return Outcome::fail(format!("{}: argument of option #{k} is {:?}, reference {:?}", ctx(), ga.as_ref().map(|f| &f.value), ea.as_ref().map(|a| &a.0)));
                    }
                }
                if g.location != Location::dummy(e.token.clone()) {
                    return Outcome::fail(format!("{}: location of option #{k} is {:?}, reference: the argument {:?}", ctx(), g.location, e.token));
                }
                let sp_ok = match (&g.spelling, &e.spelling) {
                    (OptionSpelling::Short(a), RSpelling::Short(b)) => a == b,
                    (OptionSpelling::Long, RSpelling::Long) => true,
                    _ => false,
                };
                if !sp_ok {
                    return Outcome::fail(format!("{}: spelling of option #{k} is {:?}, reference {:?}", ctx(), g.spelling, e.spelling));
                }
            }
            for (k, (g, e)) in gops.iter().zip(&operands).enumerate() {
                if *g != Field::dummy(e.clone()) {
                    return Outcome::fail(format!("{}: operand #{k} is {:?}, reference {:?}; got {}, reference {}", ctx(), g.value, e, render_got(), render_exp()));
                }
            }
            Outcome::pass(nontrivial)
                .class("ok")
                .class_if(feats.grouped, "grouped")
                .class_if(feats.attached, "attached-arg")
                .class_if(feats.separate, "separate-arg")
                .class_if(feats.long_prefix, "long-prefix")
                .class_if(feats.long_eq, "long-eq")
                .class_if(feats.double_dash, "double-dash")
                .class_if(feats.option_after_operand, "option-after-operand")
                .class_if(feats.arg_looks_like_option, "arg-looks-like-option")
                .class_if(!occ.is_empty() && !operands.is_empty(), "options-and-operands")
        }
        (Expect::Ok { occ, operands, .. }, Err(e)) => Outcome::fail(format!(
            "{}: rejected with `{e}`, reference accepts: {} option(s) {:?}, operands {:?}",
            ctx(),
            occ.len(),
            occ.iter().map(|o| (o.spec, o.arg.as_ref().map(|a| a.0.clone()))).collect::<Vec<_>>(),
            operands
        )),
        (Expect::Err(e, _), Ok((gocc, gops))) => Outcome::fail(format!(
            "{}: accepted as {} option(s) [{}] and operands {:?}, reference rejects argument {:?} ({})",
            ctx(),
            gocc.len(),
            gocc.iter().map(|o| format!("{}{}", o.spec, o.argument.as_ref().map(|a| format!("={:?}", a.value)).unwrap_or_default())).collect::<Vec<_>>().join(", "),
            gops.iter().map(|f| f.value.as_str()).collect::<Vec<_>>(),
            e.token,
            e.kinds[0].class()
        )),
        (Expect::Err(e, feats), Err(g)) => {
            let (kind, ch, spec, cands): (ErrKind, Option<char>, Option<usize>, Vec<usize>) = match &g {
                ParseError::UnknownShortOption(c, _) => (ErrKind::Unknown, Some(*c), None, vec![]),
                ParseError::UnknownLongOption(_) => (ErrKind::Unknown, None, None, vec![]),
                ParseError::NonPortableShortOption(c, _, s) => (ErrKind::NonPortable, Some(*c), spec_index(s), vec![]),
                ParseError::NonPortableLongOption(_, s) => (ErrKind::NonPortable, None, spec_index(s), vec![]),
                ParseError::AmbiguousLongOption(_, ss) => {
                    let mut v: Vec<usize> = ss.iter().filter_map(|s| spec_index(s)).collect();
                    v.sort();
                    (ErrKind::Ambiguous, None, None, v)
                }
                ParseError::MissingOptionArgument(_, s) => (ErrKind::MissingArg, None, spec_index(s), vec![]),
                ParseError::UnseparatedOptionArgument(_, s) => (ErrKind::Unseparated, None, spec_index(s), vec![]),
                ParseError::UnexpectedOptionArgument(_, s) => (ErrKind::UnexpectedArg, None, spec_index(s), vec![]),
                _ => (ErrKind::Other, None, None, vec![]),
            };
            if !e.kinds.contains(&kind) {
                return Outcome::fail(format!(
                    "{}: error is `{g}` ({}), reference: {} in argument {:?}",
                    ctx(),
                    kind.class(),
                    e.kinds.iter().map(|k| k.class()).collect::<Vec<_>>().join(" or "),
                    e.token
                ));
            }
            let field = g.field();
            if field.value != e.token || field.origin != Location::dummy(e.token.clone()) {
                return Outcome::fail(format!("{}: error `{g}` points at {:?}, reference: argument {:?}", ctx(), field.value, e.token));
            }
            if kind == e.kinds[0] {
                if e.ch.is_some() && ch.is_some() && e.ch != ch {
                    return Outcome::fail(format!("{}: error `{g}` names option {:?}, reference {:?}", ctx(), ch, e.ch));
                }
                if e.spec.is_some() && spec != e.spec {
                    return Outcome::fail(format!("{}: error `{g}` names spec index {:?}, reference {:?}", ctx(), spec, e.spec));
                }
                if kind == ErrKind::Ambiguous && cands != e.candidates {
                    return Outcome::fail(format!("{}: error `{g}` lists candidate specs {:?}, reference {:?}", ctx(), cands, e.candidates));
                }
            }
            Outcome::pass(nontrivial)
                .class(kind.class())
                .class_if(e.kinds.len() > 1, "error-several-conditions")
                .class_if(feats.grouped, "grouped")
                .class_if(feats.attached, "attached-arg")
                .class_if(feats.separate, "separate-arg")
                .class_if(feats.long_prefix, "long-prefix")
                .class_if(feats.long_eq, "long-eq")
        }
    }
}

pub static GETOPT: Driver<ArgCase> = Driver::new("C20", "api-getopt", check_getopt);
pub static GETOPT_RANDOM: Driver<ArgCase> = Driver::new("C20", "api-getopt-random", check_getopt);

const T: u64 = ALPHABET.len() as u64;

fn n_vectors(max_len: u32) -> u64 {
    (0..=max_len).map(|k| T.pow(k)).sum()
}

fn decode_vector(mut v: u64, max_len: u32) -> Option<Vec<String>> {
    for k in 0..=max_len {
        let c = T.pow(k);
        if v < c {
            let mut out = Vec::with_capacity(k as usize);
            for _ in 0..k {
                out.push(ALPHABET[(v % T) as usize].to_string());
                v /= T;
            }
            out.reverse();
            return Some(out);
        }
        v -= c;
    }
    None
}

fn arb_text() -> impl Strategy<Value = String> {
    prop_oneof![
        3 => Just("X".to_string()),
        2 => Just("-a".to_string()),
        2 => Just("--".to_string()),
        2 => Just("=".to_string()),
        1 => Just("-".to_string()),
        1 => Just("".to_string()),
        1 => Just("--long".to_string()),
        1 => Just("-oX".to_string()),
        1 => Just("\u{e9}".to_string()),
        1 => Just("a b".to_string()),
        1 => Just("X=Y".to_string()),
        1 => Just("--opt=X".to_string()),
        2 => "[a-zA-Z=-]{0,4}",
    ]
}

const LONG_NAMES: [&str; 6] = ["long", "lot", "opt", "lo", "nosuch", "option"];

fn arb_token() -> impl Strategy<Value = String> {
    prop_oneof![
        6 => (0usize..ALPHABET.len()).prop_map(|i| ALPHABET[i].to_string()),
        2 => arb_text(),
        3 => "[abox]{1,4}".prop_map(|s| format!("-{s}")),
        1 => "[aboxX=\u{e9}-]{1,4}".prop_map(|s| format!("-{s}")),
        2 => (0usize..LONG_NAMES.len(), any::<u16>()).prop_map(|(n, l)| {
            let name = LONG_NAMES[n];
            format!("--{}", &name[..1 + pick_idx(l, name.len())])
        }),
        2 => (0usize..LONG_NAMES.len(), any::<u16>(), arb_text()).prop_map(|(n, l, t)| {
            let name = LONG_NAMES[n];
            format!("--{}={t}", &name[..1 + pick_idx(l, name.len())])
        }),
        2 => arb_text().prop_map(|t| format!("-o{t}")),
        1 => arb_text().prop_map(|t| format!("-a{t}")),
    ]
}

fn arb_argcase() -> impl Strategy<Value = ArgCase> {
    // the richer spec sets more often: fewer vectors die on the first unknown option
    let set = prop_oneof![
        1 => 0u8..SPEC_SETS.len() as u8,
        2 => prop_oneof![Just(2u8), Just(3u8), Just(5u8), Just(6u8)],
    ];
    (set, 0u8..8, proptest::collection::vec(arb_token(), 0..=8))
        .prop_map(|(specs, mode, argv)| ArgCase { specs, mode, argv })
}

// =============================================================================================
// Target 2: the shell's own command line
// =============================================================================================

/// (long name, short name with the state `-c` renders) — from docs/src/environment/options.md
const SHOPTS: [(&str, Option<(char, bool)>); 21] = [
    ("allexport", Some(('a', true))),
    ("clobber", Some(('C', false))),
    ("cmdline", Some(('c', true))),
    ("errexit", Some(('e', true))),
    ("exec", Some(('n', false))),
    ("glob", Some(('f', false))),
    ("hashondefinition", Some(('h', true))),
    ("ignoreeof", None),
    ("interactive", Some(('i', true))),
    ("log", None),
    ("login", Some(('l', true))),
    ("monitor", Some(('m', true))),
    ("notify", Some(('b', true))),
    ("pipefail", None),
    ("portable", None),
    ("posixlycorrect", None),
    ("stdin", Some(('s', true))),
    ("unset", Some(('u', false))),
    ("verbose", Some(('v', true))),
    ("vi", None),
    ("xtrace", Some(('x', true))),
];

/// long options of the shell that are not shell options (docs/src/startup.md); bool = takes an argument
const NONSHELL: [(&str, bool); 6] =
    [("profile", true), ("rcfile", true), ("noprofile", false), ("norcfile", false), ("help", false), ("version", false)];

#[derive(Clone, Debug, PartialEq, Eq, Serialize, Deserialize)]
pub enum Eff {
    Opt { name: String, on: bool },
    Profile(String),
    Rcfile(String),
    NoProfile,
    NoRcfile,
    Help,
    Version,
}

#[derive(Clone, Debug, Serialize, Deserialize)]
pub struct CmdlineCase {
    /// "equiv": all spellings of `effects` followed by `tail` are equivalent;
    /// "abbrev": every prefix of the long name of `effects[0]` is equivalent, ambiguous or another option;
    /// "malformed": `argv` must be rejected
    pub kind: String,
    pub effects: Vec<Eff>,
    /// 0 = short names only, 1 = every spelling
    pub spell: u8,
    pub tail: Vec<String>,
    pub argv: Vec<String>,
}

/// What a command line means, in comparable form.
#[derive(Clone, Debug, PartialEq, Eq)]
struct Norm {
    kind: &'static str,
    source: (&'static str, String),
    profile: (&'static str, String),
    rcfile: (&'static str, String),
    options: BTreeMap<String, bool>,
    arg0: String,
    params: Vec<String>,
}

fn norm(p: &shargs::Parse) -> Norm {
    let empty = || Norm {
        kind: "",
        source: ("", String::new()),
        profile: ("", String::new()),
        rcfile: ("", String::new()),
        options: BTreeMap::new(),
        arg0: String::new(),
        params: vec![],
    };
    match p {
        shargs::Parse::Help => Norm { kind: "help", ..empty() },
        shargs::Parse::Version => Norm { kind: "version", ..empty() },
        shargs::Parse::Run(r) => {
            let init = |f: &shargs::InitFile| match f {
                shargs::InitFile::None => ("none", String::new()),
                shargs::InitFile::Default => ("default", String::new()),
                shargs::InitFile::File { path } => ("file", path.clone()),
            };
            let mut options = BTreeMap::new();
            for (o, s) in &r.options {
                // applied in order by configure_environment: the last occurrence wins
                options.insert(o.long_name().to_string(), *s == yash_env::option::State::On);
            }
            Norm {
                kind: "run",
                source: match &r.work.source {
                    shargs::Source::Stdin => ("stdin", String::new()),
                    shargs::Source::File { path } => ("file", path.clone()),
                    shargs::Source::String(s) => ("string", s.clone()),
                },
                profile: init(&r.work.profile),
                rcfile: init(&r.work.rcfile),
                options,
                arg0: r.arg0.clone(),
                params: r.positional_params.clone(),
            }
        }
    }
}

/// One way of writing one effect.
#[derive(Clone, Debug)]
enum Item {
    Short { plus: bool, c: char },
    O { plus: bool, name: String, attached: bool },
    Words(Vec<String>),
}

/// Spelling variants of an option name: "only alphanumeric characters matter ... case-insensitive".
fn name_variants(name: &str) -> Vec<String> {
    let mut fancy = String::new();
    for (i, ch) in name.chars().enumerate() {
        if i == 2 {
            fancy.push('-');
        }
        if i % 2 == 0 {
            fancy.push(ch.to_ascii_uppercase());
        } else {
            fancy.push(ch);
        }
    }
    vec![name.to_string(), fancy]
}

fn spellings(e: &Eff, level: u8) -> Vec<Item> {
    let mut out = vec![];
    match e {
        Eff::Opt { name, on } => {
            let short = SHOPTS.iter().find(|(n, _)| n == name).and_then(|(_, s)| *s);
            if let Some((c, renders_on)) = short {
                out.push(Item::Short { plus: renders_on != *on, c });
            }
            if level == 0 && !out.is_empty() {
                return out;
            }
            let pos = name.to_string();
            let neg = format!("no{name}");
            let (same, opposite) = if *on { (pos, neg) } else { (neg, pos) };
            for v in name_variants(&same) {
                out.push(Item::O { plus: false, name: v.clone(), attached: false });
                out.push(Item::O { plus: false, name: v.clone(), attached: true });
                out.push(Item::Words(vec![format!("--{v}")]));
            }
            for v in name_variants(&opposite) {
                out.push(Item::O { plus: true, name: v.clone(), attached: false });
                out.push(Item::O { plus: true, name: v.clone(), attached: true });
                out.push(Item::Words(vec![format!("++{v}")]));
            }
        }
        Eff::Profile(p) => {
            out.push(Item::Words(vec!["--profile".into(), p.clone()]));
            out.push(Item::Words(vec![format!("--profile={p}")]));
        }
        Eff::Rcfile(p) => {
            out.push(Item::Words(vec!["--rcfile".into(), p.clone()]));
            out.push(Item::Words(vec![format!("--rcfile={p}")]));
        }
        Eff::NoProfile => out.push(Item::Words(vec!["--noprofile".into()])),
        Eff::NoRcfile => out.push(Item::Words(vec!["--norcfile".into()])),
        Eff::Help => out.push(Item::Words(vec!["--help".into()])),
        Eff::Version => out.push(Item::Words(vec!["--version".into()])),
    }
    out
}

/// Can `b` be written in the same argument directly after `a`?
fn mergeable(a: &Item, b: &Item) -> bool {
    let sign = |i: &Item| match i {
        Item::Short { plus, .. } | Item::O { plus, .. } => Some(*plus),
        Item::Words(_) => None,
    };
    matches!(a, Item::Short { .. }) && sign(a).is_some() && sign(a) == sign(b)
}

/// Renders items; bit k of `mask` set = item k+1 is grouped with item k. None if not possible.
fn render_items(items: &[&Item], mask: u32) -> Option<Vec<String>> {
    let mut out: Vec<String> = vec![];
    let mut k = 0;
    while k < items.len() {
        match items[k] {
            Item::Words(w) => {
                if k > 0 && mask & (1 << (k - 1)) != 0 {
                    return None;
                }
                out.extend(w.iter().cloned());
                k += 1;
            }
            first => {
                if k > 0 && mask & (1 << (k - 1)) != 0 {
                    return None; // would have been consumed by the group below
                }
                let plus = matches!(first, Item::Short { plus: true, .. } | Item::O { plus: true, .. });
                let mut arg = String::from(if plus { "+" } else { "-" });
                let mut extra: Option<String> = None;
                let mut j = k;
                loop {
                    match items[j] {
                        Item::Short { c, .. } => arg.push(*c),
                        Item::O { name, attached, .. } => {
                            arg.push('o');
                            if *attached {
                                arg.push_str(name);
                            } else {
                                extra = Some(name.clone());
                            }
                        }
                        Item::Words(_) => unreachable!(),
                    }
                    if j + 1 < items.len() && mask & (1 << j) != 0 {
                        if !mergeable(items[j], items[j + 1]) {
                            return None;
                        }
                        j += 1;
                    } else {
                        break;
                    }
                }
                out.push(arg);
                out.extend(extra);
                k = j + 1;
            }
        }
    }
    Some(out)
}

fn permutations(n: usize) -> Vec<Vec<usize>> {
    fn rec(cur: &mut Vec<usize>, used: &mut Vec<bool>, out: &mut Vec<Vec<usize>>) {
        if cur.len() == used.len() {
            out.push(cur.clone());
            return;
        }
        for i in 0..used.len() {
            if !used[i] {
                used[i] = true;
                cur.push(i);
                rec(cur, used, out);
                cur.pop();
                used[i] = false;
            }
        }
    }
    let mut out = vec![];
    rec(&mut vec![], &mut vec![false; n], &mut out);
    out
}

/// What the manual says the command line `<effects> [--] <tail>` means. `Err(())` = must be
/// rejected (`-c` together with `-s`; `-c` without a command).
fn expected_meaning(effects: &[Eff], tail: &[String]) -> Result<Norm, ()> {
    let mut n = Norm {
        kind: "run",
        source: ("stdin", String::new()),
        profile: ("default", String::new()),
        rcfile: ("default", String::new()),
        options: BTreeMap::new(),
        arg0: "yash3".to_string(),
        params: vec![],
    };
    for e in effects {
        match e {
            Eff::Opt { name, on } => {
                n.options.insert(name.clone(), *on);
            }
            Eff::Profile(p) => n.profile = ("file", p.clone()),
            Eff::Rcfile(p) => n.rcfile = ("file", p.clone()),
            Eff::NoProfile => n.profile = ("none", String::new()),
            Eff::NoRcfile => n.rcfile = ("none", String::new()),
            Eff::Help => n.kind = "help",
            Eff::Version => n.kind = "version",
        }
    }
    let cmd = n.options.get("cmdline") == Some(&true);
    let stdin = n.options.get("stdin") == Some(&true);
    if cmd && stdin {
        return Err(()); // "Mutually exclusive"
    }
    if cmd {
        let Some(c) = tail.first() else { return Err(()) };
        n.source = ("string", c.clone());
        if let Some(name) = tail.get(1) {
            n.arg0 = name.clone();
        }
        n.params = tail.iter().skip(2).cloned().collect();
    } else if stdin {
        n.params = tail.to_vec();
    } else if let Some(f) = tail.first() {
        n.source = ("file", f.clone());
        n.arg0 = f.clone();
        n.params = tail[1..].to_vec();
    }
    Ok(n)
}

/// Number of command lines given to the shell's parser (reported in the evidence file).
static CMDLINES_PARSED: std::sync::atomic::AtomicU64 = std::sync::atomic::AtomicU64::new(0);

fn parse_real(argv: &[String]) -> Result<Norm, String> {
    CMDLINES_PARSED.fetch_add(1, std::sync::atomic::Ordering::Relaxed);
    let mut full = vec!["yash3".to_string()];
    full.extend(argv.iter().cloned());
    match shargs::parse(full) {
        Ok(p) => Ok(norm(&p)),
        Err(e) => Err(format!("{e}")),
    }
}

/// Compares one member of an equivalence group with the documented meaning and with the first
/// member of the group.
fn compare_member(
    argv: &[String],
    want: &Result<Norm, ()>,
    first: &mut Option<(Vec<String>, Result<Norm, String>)>,
) -> Result<(), String> {
    let got = parse_real(argv);
    match (want, &got) {
        (Err(()), Ok(n)) => return Err(format!("`yash3 {}` is accepted ({n:?}); the manual makes it an error", argv.join(" "))),
        (Err(()), Err(_)) => {}
        (Ok(_), Err(e)) => return Err(format!("`yash3 {}` is rejected with `{e}`; the manual gives it a meaning", argv.join(" "))),
        (Ok(w), Ok(g)) => {
            // direct check: everything the manual promises is there (extra implied options tolerated)
            if w.kind != "run" {
                if g.kind != w.kind {
                    return Err(format!("`yash3 {}` parses to {g:?}; the manual says it prints {}", argv.join(" "), w.kind));
                }
                return first_or_same(argv, got, first);
            }
            let opts_ok = w.options.iter().all(|(k, v)| g.options.get(k) == Some(v));
            if !(opts_ok && g.kind == w.kind && g.source == w.source && g.profile == w.profile && g.rcfile == w.rcfile && g.arg0 == w.arg0 && g.params == w.params) {
                return Err(format!("`yash3 {}` parses to {g:?}; the manual says {w:?}", argv.join(" ")));
            }
        }
    }
    first_or_same(argv, got, first)
}

fn first_or_same(
    argv: &[String],
    got: Result<Norm, String>,
    first: &mut Option<(Vec<String>, Result<Norm, String>)>,
) -> Result<(), String> {
    match first {
        None => *first = Some((argv.to_vec(), got)),
        Some((fargv, fres)) => {
            let same = match (&*fres, &got) {
                (Ok(a), Ok(b)) => a == b,
                (Err(_), Err(_)) => true,
                _ => false,
            };
            if !same {
                return Err(format!(
                    "equivalent spellings differ: `yash3 {}` gives {fres:?} but `yash3 {}` gives {got:?}",
                    fargv.join(" "),
                    argv.join(" ")
                ));
            }
        }
    }
    Ok(())
}

#[derive(Debug, PartialEq, Eq)]
enum Resolve {
    None,
    Ambiguous,
    Opt(String, bool),
    NonShell(&'static str),
}

/// Reference resolution of a (canonical, lower-case alphanumeric) long option name or prefix.
fn resolve_long(p: &str, with_nonshell: bool) -> Resolve {
    let mut cands: BTreeSet<(String, u8)> = BTreeSet::new(); // kind 0 = on, 1 = off, 2 = non-shell
    let mut exact: Option<(String, u8)> = None;
    let mut consider = |full: String, key: (String, u8)| {
        if full == p {
            exact = Some(key.clone());
        }
        if full.starts_with(p) {
            cands.insert(key);
        }
    };
    for (n, _) in SHOPTS {
        consider(n.to_string(), (n.to_string(), 0));
        consider(format!("no{n}"), (n.to_string(), 1));
    }
    if with_nonshell {
        for (n, _) in NONSHELL {
            consider(n.to_string(), (n.to_string(), 2));
        }
    }
    let pick = |k: (String, u8)| match k.1 {
        0 => Resolve::Opt(k.0, true),
        1 => Resolve::Opt(k.0, false),
        _ => Resolve::NonShell(NONSHELL.iter().find(|(n, _)| *n == k.0).unwrap().0),
    };
    if let Some(k) = exact {
        return pick(k);
    }
    match cands.len() {
        0 => Resolve::None,
        1 => pick(cands.into_iter().next().unwrap()),
        _ => Resolve::Ambiguous,
    }
}

fn check_cmdline(c: &CmdlineCase) -> Outcome {
    match c.kind.as_str() {
        "malformed" => match parse_real(&c.argv) {
            Err(_) => Outcome::pass(true).class("malformed-rejected"),
            Ok(n) => Outcome::fail(format!("malformed command line `yash3 {}` is accepted: {n:?}", c.argv.join(" "))),
        },
        "equiv" => {
            if c.effects.is_empty() || c.effects.len() > 4 {
                return Outcome::skip("bad group");
            }
            let want = expected_meaning(&c.effects, &c.tail);
            let spell: Vec<Vec<Item>> = c.effects.iter().map(|e| spellings(e, c.spell)).collect();
            let k = c.effects.len();
            let mut first = None;
            let mut members = 0u64;
            let mut grouped = 0u64;
            for perm in permutations(k) {
                // mixed-radix counter over the spelling choices
                let radices: Vec<usize> = perm.iter().map(|&i| spell[i].len()).collect();
                let total: usize = radices.iter().product();
                for mut code in 0..total {
                    let items: Vec<&Item> = perm
                        .iter()
                        .zip(&radices)
                        .map(|(&i, &r)| {
                            let it = &spell[i][code % r];
                            code /= r;
                            it
                        })
                        .collect();
                    for mask in 0..(1u32 << (k - 1)) {
                        let Some(opts) = render_items(&items, mask) else { continue };
                        for sep in [false, true] {
                            let mut argv = opts.clone();
                            if sep {
                                argv.push("--".into());
                            }
                            argv.extend(c.tail.iter().cloned());
                            members += 1;
                            if mask != 0 {
                                grouped += 1;
                            }
                            if let Err(m) = compare_member(&argv, &want, &mut first) {
                                return Outcome::fail(m);
                            }
                        }
                    }
                }
            }
            Outcome::pass(members >= 2)
                .class(if want.is_ok() { "equiv-accepted" } else { "equiv-rejected" })
                .class_if(k >= 2, "reordered")
                .class_if(grouped > 0, "grouped")
                .class_if(c.spell > 0, "long-and-o-spellings")
                .class_if(c.effects.iter().any(|e| matches!(e, Eff::Opt { name, on: true } if name == "cmdline")), "cmdline-mode")
                .class_if(c.effects.iter().any(|e| !matches!(e, Eff::Opt { .. })), "init-file-option")
        }
        "abbrev" => {
            let Some(e) = c.effects.first() else { return Outcome::skip("bad group") };
            // (full name after `--`, the same for `++`/`+o` if any, non-shell?, argument)
            let (full, opposite, nonshell, arg): (String, Option<String>, bool, Option<&str>) = match e {
                Eff::Opt { name, on: true } => (name.clone(), Some(format!("no{name}")), false, None),
                Eff::Opt { name, on: false } => (format!("no{name}"), Some(name.clone()), false, None),
                Eff::Profile(p) => ("profile".into(), None, true, Some(p.as_str())),
                Eff::Rcfile(p) => ("rcfile".into(), None, true, Some(p.as_str())),
                Eff::NoProfile => ("noprofile".into(), None, true, None),
                Eff::NoRcfile => ("norcfile".into(), None, true, None),
                Eff::Help => ("help".into(), None, true, None),
                Eff::Version => ("version".into(), None, true, None),
            };
            let target = |r: &Resolve| match (r, e) {
                (Resolve::Opt(n, o), Eff::Opt { name, on }) => n == name && o == on,
                (Resolve::NonShell(n), _) => nonshell && *n == full,
                _ => false,
            };
            let want = expected_meaning(&c.effects, &c.tail);
            let mut first = None;
            let (mut same, mut ambiguous, mut other) = (0u64, 0u64, 0u64);
            let mut try_form = |argv_opt: Vec<String>, r: Resolve, invert: bool| -> Result<(), String> {
                let hit = if invert {
                    match (&r, e) {
                        (Resolve::Opt(n, o), Eff::Opt { name, on }) => n == name && o != on,
                        _ => false,
                    }
                } else {
                    target(&r)
                };
                let mut argv = argv_opt;
                argv.extend(c.tail.iter().cloned());
                if hit {
                    same += 1;
                    compare_member(&argv, &want, &mut first)
                } else if r == Resolve::Ambiguous {
                    ambiguous += 1;
                    match parse_real(&argv) {
                        Err(_) => Ok(()),
                        Ok(n) => Err(format!("ambiguous abbreviation accepted: `yash3 {}` gives {n:?}", argv.join(" "))),
                    }
                } else {
                    other += 1; // the prefix is the complete name of another option
                    Ok(())
                }
            };
            // a failure that is an instance of a listed finding is reported only if nothing else
            // fails in the group, so that it cannot mask a new failure
            let mut deferred: Option<String> = None;
            let mut note = |r: Result<(), String>| -> Option<String> {
                match r {
                    Ok(()) => None,
                    Err(m) if known_cmdline_message(&m).is_some() => {
                        deferred.get_or_insert(m);
                        None
                    }
                    Err(m) => Some(m),
                }
            };
            for len in 1..=full.len() {
                let p = &full[..len];
                let with_arg = |head: String| -> Vec<Vec<String>> {
                    match arg {
                        None => vec![vec![head]],
                        Some(a) => vec![vec![head.clone(), a.to_string()], vec![format!("{head}={a}")]],
                    }
                };
                for argv in with_arg(format!("--{p}")) {
                    if let Some(m) = note(try_form(argv, resolve_long(p, true), false)) {
                        return Outcome::fail(m);
                    }
                }
                if !nonshell {
                    for argv in [vec!["-o".to_string(), p.to_string()], vec![format!("-o{p}")]] {
                        if let Some(m) = note(try_form(argv, resolve_long(p, false), false)) {
                            return Outcome::fail(m);
                        }
                    }
                }
            }
            if let Some(opp) = &opposite {
                for len in 1..=opp.len() {
                    let p = &opp[..len];
                    if let Some(m) = note(try_form(vec![format!("++{p}")], resolve_long(p, true), true)) {
                        return Outcome::fail(m);
                    }
                    if let Some(m) = note(try_form(vec!["+o".to_string(), p.to_string()], resolve_long(p, false), true)) {
                        return Outcome::fail(m);
                    }
                }
            }
            if let Some(m) = deferred {
                return Outcome::fail(m);
            }
            Outcome::pass(same >= 2)
                .class("abbrev-group")
                .class_if(ambiguous > 0, "abbrev-ambiguous-rejected")
                .class_if(other > 0, "abbrev-is-another-option")
        }
        _ => Outcome::skip("unknown case kind"),
    }
}

/// Known finding `cmdline-ambiguous-abbrev-with-value`: `yash3 --p=FILE` is accepted as
/// `--profile=FILE` although `--p` is ambiguous (pipefail, portable, posixlycorrect, profile) and
/// `yash3 --p FILE` is rejected. yash-cli/src/startup/args.rs `try_parse_long` resolves the shell
/// option name from the whole text including `=FILE` but the non-shell name from the part before `=`.
fn known_cmdline_message(msg: &str) -> Option<&'static str> {
    if msg.starts_with("ambiguous abbreviation accepted: `yash3 --p=") {
        Some("cmdline-ambiguous-abbrev-with-value")
    } else {
        None
    }
}

fn known_cmdline(_: &CmdlineCase, msg: &str) -> Option<&'static str> {
    known_cmdline_message(msg)
}

pub static CMDLINE: Driver<CmdlineCase> =
    Driver::new("C20", "api-shell-cmdline", check_cmdline).with_known(known_cmdline);

fn opt(name: &str, on: bool) -> Eff {
    Eff::Opt { name: name.to_string(), on }
}

/// Operand tails fitting the mode of operation selected by `effects`.
fn tails_for(effects: &[Eff]) -> Vec<Vec<String>> {
    let has = |n: &str| effects.iter().any(|e| matches!(e, Eff::Opt { name, on: true } if name == n));
    let v = |xs: &[&str]| xs.iter().map(|s| s.to_string()).collect::<Vec<_>>();
    if has("cmdline") {
        vec![v(&["echo hi", "name", "arg1", "-x"]), v(&["echo hi"])]
    } else if has("stdin") {
        vec![v(&["p1", "-p2", "--"]), v(&[])]
    } else {
        vec![v(&["script.sh", "arg1", "-e", "--"]), v(&[])]
    }
}

fn cmdline_cases(ctx: &Ctx) -> Vec<CmdlineCase> {
    let mut out = vec![];
    let equiv = |effects: Vec<Eff>, spell: u8, out: &mut Vec<CmdlineCase>| {
        for tail in tails_for(&effects) {
            out.push(CmdlineCase { kind: "equiv".into(), effects: effects.clone(), spell, tail, argv: vec![] });
        }
    };
    // every option except `portable` (its position matters by design)
    let names: Vec<&str> = SHOPTS.iter().map(|(n, _)| *n).filter(|n| *n != "portable").collect();
    let shorts: Vec<&str> = SHOPTS.iter().filter(|(_, s)| s.is_some()).map(|(n, _)| *n).collect();
    let extras = [Eff::Profile("my/prof".into()), Eff::Rcfile("rc=file".into()), Eff::NoProfile, Eff::NoRcfile];

    // singles and pairs: every spelling
    let mut singles: Vec<Eff> = vec![];
    for n in &names {
        singles.push(opt(n, true));
        singles.push(opt(n, false));
    }
    singles.extend(extras.iter().cloned());
    for e in &singles {
        equiv(vec![e.clone()], 1, &mut out);
    }
    for (i, a) in singles.iter().enumerate() {
        for b in &singles[i + 1..] {
            let same_target = match (a, b) {
                (Eff::Opt { name: x, .. }, Eff::Opt { name: y, .. }) => x == y,
                (Eff::Profile(_) | Eff::NoProfile, Eff::Profile(_) | Eff::NoProfile) => true,
                (Eff::Rcfile(_) | Eff::NoRcfile, Eff::Rcfile(_) | Eff::NoRcfile) => true,
                _ => false,
            };
            if !same_target {
                equiv(vec![a.clone(), b.clone()], 1, &mut out);
            }
        }
    }
    // triples of short options: all orderings and groupings, short names only; all sign patterns
    let ns = shorts.len();
    let mut triple_no = 0u64;
    let full_every = ctx.tier.pick(41, 3);
    for i in 0..ns {
        for j in i + 1..ns {
            for k in j + 1..ns {
                for signs in 0..8u8 {
                    let effects = vec![opt(shorts[i], signs & 1 == 0), opt(shorts[j], signs & 2 == 0), opt(shorts[k], signs & 4 == 0)];
                    equiv(effects.clone(), 0, &mut out);
                    // a seed-dependent sample of the triples with every spelling
                    triple_no += 1;
                    if (triple_no + ctx.seed) % full_every == 0 {
                        out.push(CmdlineCase { kind: "equiv".into(), effects: effects.clone(), spell: 1, tail: tails_for(&effects)[0].clone(), argv: vec![] });
                    }
                }
            }
        }
    }
    // triples mixing in options without a short name and init-file options (every spelling)
    let longonly: Vec<&str> = SHOPTS.iter().filter(|(n, s)| s.is_none() && *n != "portable").map(|(n, _)| *n).collect();
    for (i, l) in longonly.iter().enumerate() {
        let s1 = shorts[(i * 3 + ctx.seed as usize) % ns];
        let x = extras[(i + ctx.seed as usize) % extras.len()].clone();
        let effects = vec![opt(l, i % 2 == 0), opt(s1, true), x];
        out.push(CmdlineCase { kind: "equiv".into(), effects: effects.clone(), spell: 1, tail: tails_for(&effects)[0].clone(), argv: vec![] });
    }

    // abbreviations
    let v = |xs: &[&str]| xs.iter().map(|s| s.to_string()).collect::<Vec<_>>();
    let mut abbrev_targets: Vec<Eff> = vec![];
    for (n, _) in SHOPTS {
        if n != "portable" {
            abbrev_targets.push(opt(n, true));
            abbrev_targets.push(opt(n, false));
        }
    }
    abbrev_targets.extend(extras.iter().cloned());
    abbrev_targets.push(Eff::Help);
    abbrev_targets.push(Eff::Version);
    for e in abbrev_targets {
        let tail = match &e {
            Eff::Opt { name, on: true } if name == "cmdline" => v(&["echo hi", "name"]),
            Eff::Help | Eff::Version => v(&[]),
            _ => v(&["script.sh", "arg1"]),
        };
        out.push(CmdlineCase { kind: "abbrev".into(), effects: vec![e], spell: 1, tail, argv: vec![] });
    }

    // malformed command lines in several contexts
    let mut malformed: Vec<(Vec<String>, bool)> = vec![]; // (argv, may something follow?)
    for m in [
        &["-o", "nosuch"][..], &["-onosuch"], &["+o", "nosuch"], &["+onosuch"], &["-eo", "nosuch"], &["-o", "errexitx"],
        &["--nosuch"], &["++nosuch"], &["--nosuch=x"], &["--errexitx"],
        &["-y"], &["-ey"], &["-ye"], &["+y"], &["-Z"], &["-w"], &["-D"],
        &["--noprofile=x"], &["--norcfile=x"],
        &["-cs", "echo"], &["-c", "-s", "echo"], &["-s", "-c", "echo"], &["--cmdline", "--stdin", "echo"], &["-o", "cmdline", "-o", "stdin", "echo"],
    ] {
        malformed.push((v(m), true));
    }
    for m in [&["-c"][..], &["-ec"], &["-ce"], &["-c", "--"], &["-e", "-c"], &["--cmdline"], &["-o", "cmdline"], &["--profile"], &["--rcfile"], &["-e", "--profile"]] {
        malformed.push((v(m), false));
    }
    // every ambiguous prefix of every long name
    let mut amb: BTreeSet<(String, bool)> = BTreeSet::new();
    let mut all_names: Vec<String> = vec![];
    for (n, _) in SHOPTS {
        all_names.push(n.to_string());
        all_names.push(format!("no{n}"));
    }
    for (n, _) in NONSHELL {
        all_names.push(n.to_string());
    }
    for n in &all_names {
        for len in 1..n.len() {
            let p = &n[..len];
            if resolve_long(p, true) == Resolve::Ambiguous {
                amb.insert((p.to_string(), true));
            }
            if resolve_long(p, false) == Resolve::Ambiguous {
                amb.insert((p.to_string(), false));
            }
        }
    }
    for (p, long_form) in amb {
        if long_form {
            malformed.push((vec![format!("--{p}")], true));
            malformed.push((vec![format!("++{p}")], true));
        } else {
            malformed.push((vec!["-o".into(), p.clone()], true));
            malformed.push((vec![format!("+o{p}")], true));
        }
    }
    let prefixes = [v(&[]), v(&["-e"]), v(&["-eu"]), v(&["--verbose", "+x"])];
    let suffixes = [v(&[]), v(&["script.sh"]), v(&["--", "script.sh", "arg"])];
    for (m, may_follow) in malformed {
        for pre in &prefixes {
            for (si, suf) in suffixes.iter().enumerate() {
                if !may_follow && si != 0 {
                    continue;
                }
                let mut argv = pre.clone();
                argv.extend(m.iter().cloned());
                argv.extend(suf.iter().cloned());
                out.push(CmdlineCase { kind: "malformed".into(), effects: vec![], spell: 0, tail: vec![], argv });
            }
        }
    }
    out
}

// =============================================================================================

pub fn run(ctx: &Ctx, st: &mut Stats) {
    // exhaustive: vectors x spec sets x modes
    let max_len: u32 = ctx.tier.pick(4, 5);
    let nvec = n_vectors(max_len);
    let nspec = SPEC_SETS.len() as u64;
    let total = nvec * nspec * N_MODES;
    let decode = move |i: u64| -> Option<ArgCase> {
        let mode = (i % N_MODES) as u8;
        let rest = i / N_MODES;
        let specs = (rest % nspec) as u8;
        let argv = decode_vector(rest / nspec, max_len)?;
        Some(ArgCase { specs, mode, argv })
    };
    GETOPT.run_exhaustive(ctx, st, total, &decode);
    st.extra.insert(
        "getopt_space".into(),
        serde_json::json!({"alphabet": ALPHABET.len(), "max_len": max_len, "vectors": nvec, "spec_sets": nspec, "modes": N_MODES}),
    );

    // random longer vectors
    let n = ctx.tier.pick(1_500_000, 30_000_000);
    GETOPT_RANDOM.run_random(ctx, st, n, arb_argcase);

    // shell command line
    let cases = cmdline_cases(ctx);
    let before = CMDLINES_PARSED.load(std::sync::atomic::Ordering::Relaxed);
    CMDLINE.run_list_par(ctx, st, cases);
    let parsed = CMDLINES_PARSED.load(std::sync::atomic::Ordering::Relaxed) - before;
    st.add_extra_count("shell_command_lines_parsed", parsed);
}

pub fn replay(driver: &str, case: &serde_json::Value) -> Result<(Outcome, Option<&'static str>), String> {
    match driver {
        "api-getopt" => GETOPT.replay_known(case),
        "api-getopt-random" => GETOPT_RANDOM.replay_known(case),
        "api-shell-cmdline" => CMDLINE.replay_known(case),
        _ => Err(format!("unknown driver {driver}")),
    }
}
