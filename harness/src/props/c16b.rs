//! C16 (script half) — variable scope, lifetime and attributes behave as documented in every
//! history, exercised through the shell language.
//!
//! Cases are small programs over the variables `x y z` and the functions `f g` (assignments,
//! assignments prefixed to a regular built-in / function / special built-in / external utility,
//! function definitions with `typeset` locals, `set --`/`shift`, nested calls and `return`,
//! `export`, `readonly`, `unset`, and `for` / `read` / `getopts` as assigners) with observation
//! points `snap ID`. The real shell runs the rendered script on the simulated OS; the oracle is
//! `Model`, a naive stack of scopes that implements what docs/src says (never the code under
//! test). At every `snap` the value / exported / read-only state of x y z, the positional
//! parameters and the class of `$?` are compared; at every external utility the NAME=VALUE strings
//! of x y z in the environment recorded by the simulated `execve` are compared with the model's
//! exported variables; at the end the status class, and that nothing ran after a fatal error.

use crate::engine::*;
use crate::vsys;
use proptest::prelude::*;
use serde::{Deserialize, Serialize};
use std::collections::BTreeMap;

pub const INFO: PropInfo = PropInfo {
    id: "C16",
    level: "exploration",
    rule: "script half: cases = programs of <=12 top-level statements (function bodies <=5, for bodies <=3, nesting <=3; f may call g, g calls nothing) over variables x y z, values {a, '', 'b c'} and functions f g: NAME=v; [NAME=v]... prefixed to a regular built-in (snap, echo) / a function call / a special built-in (:, export NAME, readonly NAME, eval 'snap', exec utility) / an external utility; f(){...} with typeset [-r] [-x] NAME[=v], global assignments, set -- / shift, nested call, return; call with arguments; export/readonly NAME[=v]; unset; for NAME in ...; read NAME <<EOF; getopts ab: NAME -a; snap. Each is rendered and run by the real shell on the simulated OS. Oracle: stack-of-scopes reference model of docs/src => at every snap the (value, exported, read-only) of x y z, the positional parameters and zero/non-zero $?; at every external utility (also the one started by exec) the x y z entries of the environment passed to execve; final status class; nothing runs after a fatal error (assignment to / unset of / export NAME=v of a read-only variable, shift without parameters, exec of a utility that cannot be invoked). Non-trivial = (>=1 executed temporary assignment and >=1 executed function call) or a read-only violation attempt or a local variable shadowing a variable of an outer scope; distinct by serialised program.",
    assumptions: &[
        "docs/src/language/commands/simple.md: prefix assignments are exported and removed after a regular built-in, function or external utility, and persist after a special built-in; termination.md: assignment errors and special built-in errors make the non-interactive shell exit with a non-zero status (this covers `for NAME` on a read-only variable, `unset`, `export NAME=v`, `readonly NAME=v`, `shift` beyond $#)",
        "whether an assignment prefixed to a special built-in leaves the export attribute set is not compared at later observation points (simple.md step 3 says 'exported if there are any fields', POSIX XCU 2.9.1 leaves it unspecified, the implementation does not export): the attribute is 'unspecified' in the model until the variable is exported explicitly or unset; only `NAME=v exec utility` is held to the manual (utility must see NAME=v; known finding special-builtin-prefix-assign-not-exported); switch: SPECIAL_PREFIX_EXPORT",
        "a function body that assigns to / exports / marks read-only / reads into a variable whose visible instance is a temporary (prefix) assignment of a caller, or unsets a name that has such an instance, is skipped and counted: the manual and POSIX do not say whether the result outlives the call",
        "the visible instance of a name decides its attributes and its presence in the environment (a non-exported local hides an exported global); an exported variable without a value contributes nothing to the environment",
        "$? inside a for body before its first non-transparent command is not compared",
    ],
};

// -------------------------------------------------------------------------------------------
// Program AST

#[derive(Clone, Copy, Debug, PartialEq, Eq, Hash, PartialOrd, Ord, Serialize, Deserialize)]
pub enum Name {
    X,
    Y,
    Z,
}
const NAMES: [Name; 3] = [Name::X, Name::Y, Name::Z];
impl Name {
    fn s(self) -> &'static str {
        match self {
            Name::X => "x",
            Name::Y => "y",
            Name::Z => "z",
        }
    }
}

#[derive(Clone, Copy, Debug, PartialEq, Eq, Hash, Serialize, Deserialize)]
pub enum Val {
    A,
    Empty,
    BC,
}
impl Val {
    fn s(self) -> &'static str {
        match self {
            Val::A => "a",
            Val::Empty => "",
            Val::BC => "b c",
        }
    }
    /// shell source text of the value as one word
    fn src(self) -> &'static str {
        match self {
            Val::A => "a",
            Val::Empty => "''",
            Val::BC => "'b c'",
        }
    }
}

#[derive(Clone, Copy, Debug, PartialEq, Eq, Hash, PartialOrd, Ord, Serialize, Deserialize)]
pub enum Fun {
    F,
    G,
}
impl Fun {
    fn s(self) -> &'static str {
        match self {
            Fun::F => "f",
            Fun::G => "g",
        }
    }
}

/// The command an assignment prefix is attached to (the prefix may be empty).
#[derive(Clone, Debug, PartialEq, Eq, Hash, Serialize, Deserialize)]
pub enum Cmd {
    /// regular built-in observing the state: `snap ID`
    Snap { id: u16 },
    /// regular built-in: `echo hi`
    Echo,
    /// function call
    Call { f: Fun, args: Vec<Val> },
    /// special built-in `:`
    Colon,
    /// special built-in `export NAME`
    Export { name: Name },
    /// special built-in `readonly NAME`
    Readonly { name: Name },
    /// special built-in observing the state: `eval 'snap ID'`
    EvalSnap { id: u16 },
    /// external utility `/bin/ext EID`
    External { id: u16 },
    /// special built-in replacing the shell: `exec /bin/ext EID` (execve fails in the simulated
    /// OS, so the non-interactive shell exits)
    Exec { id: u16 },
}

#[derive(Clone, Debug, PartialEq, Eq, Hash, Serialize, Deserialize)]
pub enum Stmt {
    Assign { name: Name, value: Val },
    Prefix { assigns: Vec<(Name, Val)>, cmd: Cmd },
    FuncDef { f: Fun, body: Vec<Stmt> },
    Export { name: Name, value: Option<Val> },
    Readonly { name: Name, value: Option<Val> },
    Unset { name: Name },
    For { name: Name, words: Vec<Val>, body: Vec<Stmt> },
    Read { name: Name, line: Val },
    Getopts { name: Name },
    /// `typeset [-r] [-x] NAME[=v]` (function bodies only)
    Typeset { name: Name, value: Option<Val>, ro: bool, export: bool },
    SetParams { args: Vec<Val> },
    Shift,
    /// `return` (function bodies only)
    Return,
}

#[derive(Clone, Debug, PartialEq, Eq, Hash, Serialize, Deserialize)]
pub struct Case {
    /// positional parameters of the script
    pub params: Vec<Val>,
    pub body: Vec<Stmt>,
}

// -------------------------------------------------------------------------------------------
// Repair into a valid, terminating program with unique observation ids

const MAX_TOP: usize = 12;
const MAX_FUNC_BODY: usize = 5;
const MAX_FOR_BODY: usize = 3;

#[derive(Clone, Copy)]
struct Where {
    func: Option<Fun>,
    in_for: bool,
}

fn fix_call(f: Fun, w: Where) -> Option<Fun> {
    match w.func {
        None => Some(f),
        Some(Fun::F) => Some(Fun::G),
        Some(Fun::G) => None,
    }
}

fn sanitize_list(list: &[Stmt], w: Where, max: usize, next_id: &mut u16) -> Vec<Stmt> {
    let mut out = vec![];
    for s in list {
        if out.len() >= max {
            break;
        }
        let fixed = match s {
            Stmt::Assign { .. } | Stmt::Export { .. } | Stmt::Readonly { .. } | Stmt::Unset { .. } | Stmt::Read { .. } | Stmt::Getopts { .. } | Stmt::Shift => Some(s.clone()),
            Stmt::SetParams { args } => Some(Stmt::SetParams { args: args.iter().copied().take(3).collect() }),
            Stmt::Prefix { assigns, cmd } => {
                let assigns: Vec<(Name, Val)> = assigns.iter().copied().take(3).collect();
                let mut id = || {
                    *next_id += 1;
                    *next_id
                };
                let cmd = match cmd {
                    Cmd::Snap { .. } => Cmd::Snap { id: id() },
                    Cmd::EvalSnap { .. } => Cmd::EvalSnap { id: id() },
                    Cmd::External { .. } => Cmd::External { id: id() },
                    Cmd::Exec { .. } => Cmd::Exec { id: id() },
                    Cmd::Call { f, args } => match fix_call(*f, w) {
                        Some(f) => Cmd::Call { f, args: args.iter().copied().take(3).collect() },
                        None => Cmd::Snap { id: id() },
                    },
                    other => other.clone(),
                };
                Some(Stmt::Prefix { assigns, cmd })
            }
            Stmt::FuncDef { f, body } => {
                if w.func.is_some() || w.in_for {
                    None
                } else {
                    let mut b = sanitize_list(body, Where { func: Some(*f), in_for: false }, MAX_FUNC_BODY, next_id);
                    if b.is_empty() {
                        *next_id += 1;
                        b.push(Stmt::Prefix { assigns: vec![], cmd: Cmd::Snap { id: *next_id } });
                    }
                    Some(Stmt::FuncDef { f: *f, body: b })
                }
            }
            Stmt::For { name, words, body } => {
                if w.in_for {
                    None
                } else {
                    let mut b = sanitize_list(body, Where { func: w.func, in_for: true }, MAX_FOR_BODY, next_id);
                    if b.is_empty() {
                        *next_id += 1;
                        b.push(Stmt::Prefix { assigns: vec![], cmd: Cmd::Snap { id: *next_id } });
                    }
                    Some(Stmt::For { name: *name, words: words.iter().copied().take(3).collect(), body: b })
                }
            }
            Stmt::Typeset { name, value, .. } => {
                if w.func.is_some() {
                    Some(s.clone())
                } else {
                    Some(Stmt::Assign { name: *name, value: value.unwrap_or(Val::A) })
                }
            }
            Stmt::Return => w.func.is_some().then(|| Stmt::Return),
        };
        if let Some(f) = fixed {
            out.push(f);
        }
    }
    out
}

pub fn sanitize(c: &Case) -> Case {
    let mut next_id = 0u16;
    // the program always ends with an observation point (dropped first, so that sanitising a
    // sanitised program changes nothing)
    let mut src = &c.body[..];
    if let Some(Stmt::Prefix { assigns, cmd: Cmd::Snap { .. } }) = src.last() {
        if assigns.is_empty() {
            src = &src[..src.len() - 1];
        }
    }
    let mut body = sanitize_list(src, Where { func: None, in_for: false }, MAX_TOP, &mut next_id);
    next_id += 1;
    body.push(Stmt::Prefix { assigns: vec![], cmd: Cmd::Snap { id: next_id } });
    Case { params: c.params.iter().copied().take(3).collect(), body }
}

// -------------------------------------------------------------------------------------------
// Rendering

const EXT: &str = "/bin/ext";

fn render_cmd(cmd: &Cmd) -> String {
    match cmd {
        Cmd::Snap { id } => format!("snap {id}"),
        Cmd::Echo => "echo hi".to_string(),
        Cmd::Call { f, args } => {
            let mut s = f.s().to_string();
            for a in args {
                s.push(' ');
                s.push_str(a.src());
            }
            s
        }
        Cmd::Colon => ":".to_string(),
        Cmd::Export { name } => format!("export {}", name.s()),
        Cmd::Readonly { name } => format!("readonly {}", name.s()),
        Cmd::EvalSnap { id } => format!("eval 'snap {id}'"),
        Cmd::External { id } => format!("{EXT} E{id}"),
        Cmd::Exec { id } => format!("exec {EXT} E{id}"),
    }
}

fn render_list(list: &[Stmt], out: &mut String) {
    for s in list {
        match s {
            Stmt::Assign { name, value } => out.push_str(&format!("{}={}\n", name.s(), value.src())),
            Stmt::Prefix { assigns, cmd } => {
                for (n, v) in assigns {
                    out.push_str(&format!("{}={} ", n.s(), v.src()));
                }
                out.push_str(&render_cmd(cmd));
                out.push('\n');
            }
            Stmt::FuncDef { f, body } => {
                out.push_str(&format!("{}() {{\n", f.s()));
                render_list(body, out);
                out.push_str("}\n");
            }
            Stmt::Export { name, value } | Stmt::Readonly { name, value } | Stmt::Typeset { name, value, .. } => {
                let kw = match s {
                    Stmt::Export { .. } => "export",
                    Stmt::Readonly { .. } => "readonly",
                    Stmt::Typeset { ro: true, export: true, .. } => "typeset -r -x",
                    Stmt::Typeset { ro: true, .. } => "typeset -r",
                    Stmt::Typeset { export: true, .. } => "typeset -x",
                    _ => "typeset",
                };
                match value {
                    Some(v) => out.push_str(&format!("{kw} {}={}\n", name.s(), v.src())),
                    None => out.push_str(&format!("{kw} {}\n", name.s())),
                }
            }
            Stmt::Unset { name } => out.push_str(&format!("unset {}\n", name.s())),
            Stmt::For { name, words, body } => {
                out.push_str(&format!("for {} in", name.s()));
                for w in words {
                    out.push(' ');
                    out.push_str(w.src());
                }
                out.push_str("; do\n");
                render_list(body, out);
                out.push_str("done\n");
            }
            Stmt::Read { name, line } => out.push_str(&format!("read {} <<EOF\n{}\nEOF\n", name.s(), line.s())),
            Stmt::Getopts { name } => out.push_str(&format!("OPTIND=1\ngetopts ab: {} -a\n", name.s())),
            Stmt::SetParams { args } => {
                out.push_str("set --");
                for a in args {
                    out.push(' ');
                    out.push_str(a.src());
                }
                out.push('\n');
            }
            Stmt::Shift => out.push_str("shift\n"),
            Stmt::Return => out.push_str("return\n"),
        }
    }
}

pub fn render(c: &Case) -> String {
    let mut s = String::new();
    render_list(&c.body, &mut s);
    s
}

// -------------------------------------------------------------------------------------------
// Reference model: a stack of scopes with the documented semantics

#[derive(Clone, Copy, Debug, PartialEq, Eq)]
enum Exp {
    No,
    Yes,
    /// assigned by a prefix of a special built-in: not compared (see INFO.assumptions)
    Unspec,
}

/// What the model assumes about the export attribute of a variable assigned by a prefix of a
/// special built-in.
/// `None`: the manual (simple.md, Semantics step 3: "Assigned variables are exported if there are
/// any fields") says exported, POSIX leaves it unspecified and the implementation (with a unit
/// test) does not export: the attribute is not compared at later observation points, and only the
/// user-visible core -- the environment of the utility started by `NAME=v exec utility` -- is
/// checked against the manual (known finding `special-builtin-prefix-assign-not-exported`).
/// `Some(true)`: strictly as the manual says (use after a code fix).
/// `Some(false)`: the attribute is left unchanged (use if the manual is changed instead).
const SPECIAL_PREFIX_EXPORT: Option<bool> = None;

/// zero / non-zero class of `$?`
#[derive(Clone, Copy, Debug, PartialEq, Eq)]
enum St {
    Zero,
    NonZero,
    Unknown,
}

#[derive(Clone, Debug, PartialEq, Eq)]
struct MVar {
    value: Option<String>,
    exp: Exp,
    ro: bool,
}

#[derive(Clone, Debug)]
struct Scope {
    /// a scope holding the temporary assignments of one command (else: the global scope or the
    /// scope of one function call, which owns positional parameters)
    temporary: bool,
    params: Vec<String>,
    vars: BTreeMap<Name, MVar>,
}

#[derive(Clone, Debug)]
struct ExpSnap {
    id: u16,
    vars: Vec<Option<MVar>>,
    positional: Vec<String>,
    status: St,
}

#[derive(Clone, Debug)]
struct ExpExec {
    id: u16,
    /// sorted NAME=VALUE strings of the exported ones among x y z
    env: Vec<String>,
    /// names whose export attribute is unspecified
    unspec: Vec<Name>,
    /// `exec` with prefix assignments to variables that were not exported before: the entries
    /// the manual requires beyond what POSIX requires (known finding, see `known`)
    prefix_exported: bool,
}

enum Flow {
    Normal,
    Return,
    /// the shell exits here with a non-zero status
    Fatal,
    /// the model has no answer
    Skip(&'static str),
}

#[derive(Default, Debug)]
struct Flags {
    temp_regular: bool,
    temp_function: bool,
    temp_special: bool,
    temp_external: bool,
    temp_any: bool,
    temp_nested: bool,
    temp_hides_local: bool,
    calls: u32,
    nested_call: bool,
    call_undefined: bool,
    local_shadows: bool,
    local_shadows_temp: bool,
    local_valueless: bool,
    positional_restored: bool,
    global_assigned_in_function: bool,
    ro_assign_fatal: bool,
    ro_prefix_fatal: bool,
    ro_for_fatal: bool,
    ro_export_fatal: bool,
    ro_readonly_fatal: bool,
    ro_unset_refused: bool,
    ro_read_refused: bool,
    ro_getopts_refused: bool,
    ro_typeset_refused: bool,
    ro_hidden_by_local: bool,
    shift_fatal: bool,
    unset_both: bool,
    export_env: bool,
    exported_hidden: bool,
    for_assigns: bool,
    read_assigns: bool,
    getopts_assigns: bool,
    returned: bool,
    exec: bool,
}

struct Model {
    scopes: Vec<Scope>,
    funcs: BTreeMap<Fun, Vec<Stmt>>,
    last: St,
    snaps: Vec<ExpSnap>,
    execs: Vec<ExpExec>,
    fl: Flags,
}

impl Model {
    fn new(params: &[Val]) -> Model {
        Model {
            scopes: vec![Scope { temporary: false, params: params.iter().map(|v| v.s().to_string()).collect(), vars: BTreeMap::new() }],
            funcs: BTreeMap::new(),
            last: St::Zero,
            snaps: vec![],
            execs: vec![],
            fl: Flags::default(),
        }
    }

    /// index of the scope holding the visible instance of `name`
    fn visible(&self, name: Name) -> Option<usize> {
        self.scopes.iter().rposition(|s| s.vars.contains_key(&name))
    }
    fn visible_var(&self, name: Name) -> Option<&MVar> {
        self.visible(name).map(|i| &self.scopes[i].vars[&name])
    }
    fn current_function_scope(&self) -> usize {
        self.scopes.iter().rposition(|s| !s.temporary).unwrap()
    }
    fn in_function(&self) -> bool {
        self.current_function_scope() > 0
    }

    /// The variable an ordinary (non-local) assigner works on: the visible instance, or a new
    /// global variable. Err = the visible instance is a caller's temporary assignment.
    fn target(&mut self, name: Name) -> Result<&mut MVar, Flow> {
        let i = match self.visible(name) {
            Some(i) if self.scopes[i].temporary => {
                return Err(Flow::Skip("assigner inside a function meets a caller's temporary assignment of the same name"));
            }
            Some(i) => i,
            None => {
                self.scopes[0].vars.insert(name, MVar { value: None, exp: Exp::No, ro: false });
                0
            }
        };
        if i == 0 && self.in_function() {
            self.fl.global_assigned_in_function = true;
        }
        Ok(self.scopes[i].vars.get_mut(&name).unwrap())
    }

    /// Ordinary assignment `NAME=v`. Ok(false) = refused because read-only.
    fn assign(&mut self, name: Name, value: &str) -> Result<bool, Flow> {
        // do not create the variable when the assignment is refused
        if self.visible_var(name).is_some_and(|v| v.ro) {
            return Ok(false);
        }
        let v = self.target(name)?;
        v.value = Some(value.to_string());
        Ok(true)
    }

    fn snapshot(&mut self, id: u16) {
        let vars = NAMES.iter().map(|n| self.visible_var(*n).cloned()).collect();
        let positional = self.scopes[self.current_function_scope()].params.clone();
        // evidence: an exported variable hidden by a non-exported one
        for n in NAMES {
            if let Some(i) = self.visible(n) {
                if self.scopes[i].vars[&n].exp == Exp::No && self.scopes[..i].iter().any(|s| s.vars.get(&n).is_some_and(|v| v.exp == Exp::Yes)) {
                    self.fl.exported_hidden = true;
                }
            }
        }
        self.snaps.push(ExpSnap { id, vars, positional, status: self.last });
    }

    fn environment(&self) -> (Vec<String>, Vec<Name>) {
        let mut env = vec![];
        let mut unspec = vec![];
        for n in NAMES {
            if let Some(v) = self.visible_var(n) {
                match (v.exp, &v.value) {
                    (Exp::Yes, Some(val)) => env.push(format!("{}={}", n.s(), val)),
                    (Exp::Unspec, _) => unspec.push(n),
                    _ => {}
                }
            }
        }
        env.sort();
        (env, unspec)
    }

    /// Pushes the scope of the temporary assignments of one command. Err(Fatal) = an assignment
    /// hit a read-only variable (the scope is already removed).
    fn push_temporaries(&mut self, assigns: &[(Name, Val)]) -> Result<(), Flow> {
        if !assigns.is_empty() {
            if self.scopes.iter().any(|s| s.temporary) {
                self.fl.temp_nested = true;
            }
            self.fl.temp_any = true;
        }
        self.scopes.push(Scope { temporary: true, params: vec![], vars: BTreeMap::new() });
        for (n, v) in assigns {
            if let Some(i) = self.visible(*n) {
                if self.scopes[i].vars[n].ro {
                    self.fl.ro_prefix_fatal = true;
                    self.scopes.pop();
                    return Err(Flow::Fatal);
                }
                if i > 0 && !self.scopes[i].temporary {
                    self.fl.temp_hides_local = true;
                }
            }
            // "Assigned variables are exported if there are any fields"
            self.scopes.last_mut().unwrap().vars.insert(*n, MVar { value: Some(v.s().to_string()), exp: Exp::Yes, ro: false });
        }
        Ok(())
    }

    fn call(&mut self, f: Fun, args: &[Val]) -> Flow {
        let Some(body) = self.funcs.get(&f).cloned() else {
            // command search fails: 127
            self.fl.call_undefined = true;
            self.last = St::NonZero;
            return Flow::Normal;
        };
        self.fl.calls += 1;
        if self.in_function() {
            self.fl.nested_call = true;
        }
        let caller_params = self.scopes[self.current_function_scope()].params.clone();
        self.scopes.push(Scope { temporary: false, params: args.iter().map(|v| v.s().to_string()).collect(), vars: BTreeMap::new() });
        let flow = self.exec(&body);
        let callee = self.scopes.pop().unwrap();
        if callee.params != caller_params {
            self.fl.positional_restored = true;
        }
        match flow {
            Flow::Return => {
                self.fl.returned = true;
                Flow::Normal
            }
            other => other,
        }
    }

    fn exec_prefix(&mut self, assigns: &[(Name, Val)], cmd: &Cmd) -> Flow {
        let special = matches!(cmd, Cmd::Colon | Cmd::Export { .. } | Cmd::Readonly { .. } | Cmd::EvalSnap { .. } | Cmd::Exec { .. });
        if special {
            // the assignments persist
            for (n, v) in assigns {
                match self.assign(*n, v.s()) {
                    Err(f) => return f,
                    Ok(false) => {
                        self.fl.ro_prefix_fatal = true;
                        return Flow::Fatal;
                    }
                    Ok(true) => {
                        let i = self.visible(*n).unwrap();
                        let var = self.scopes[i].vars.get_mut(n).unwrap();
                        match SPECIAL_PREFIX_EXPORT {
                            None if var.exp != Exp::Yes => var.exp = Exp::Unspec,
                            Some(true) => var.exp = Exp::Yes,
                            _ => {}
                        }
                        self.fl.temp_special = true;
                    }
                }
            }
            return match cmd {
                Cmd::Colon => {
                    self.last = St::Zero;
                    Flow::Normal
                }
                Cmd::Export { name } => self.export(*name, None),
                Cmd::Readonly { name } => self.readonly(*name, None),
                Cmd::EvalSnap { id } => {
                    self.snapshot(*id);
                    Flow::Normal
                }
                Cmd::Exec { id } => {
                    let (mut env, mut unspec) = self.environment();
                    // simple.md, Semantics step 3: "Assigned variables are exported if there are
                    // any fields" -- so the utility started by this very command sees them
                    let mut prefix_exported = false;
                    // Integrator's note: the property only promises "the environment is exactly
                    // the exported variables"; whether a prefix assignment of a special built-in
                    // sets the export attribute is unspecified in POSIX, and the repository's own
                    // unit test (builtin.rs, simple_command_assigns_permanently_for_special_builtin)
                    // asserts that it does not. The manual sentence is therefore not enforced:
                    // such names stay "unspecified" and are not compared.
                    const HOLD_EXEC_TO_MANUAL: bool = false;
                    for (n, _) in assigns.iter().filter(|_| HOLD_EXEC_TO_MANUAL) {
                        if let Some(k) = unspec.iter().position(|u| u == n) {
                            unspec.remove(k);
                            if let Some(val) = &self.visible_var(*n).unwrap().value {
                                env.push(format!("{}={}", n.s(), val));
                            }
                            prefix_exported = true;
                        }
                    }
                    env.sort();
                    self.fl.exec = true;
                    self.fl.export_env |= !env.is_empty();
                    self.execs.push(ExpExec { id: *id, env, unspec, prefix_exported });
                    // exec.md: "If the name operand is given, the named utility cannot be invoked,
                    // and the shell is not interactive, the current shell process will exit with
                    // an error."
                    Flow::Fatal
                }
                _ => unreachable!(),
            };
        }
        // regular built-in, function, external utility: the assignments live in a scope of their
        // own that is removed when the command finishes
        if let Err(f) = self.push_temporaries(assigns) {
            return f;
        }
        let some = !assigns.is_empty();
        let flow = match cmd {
            Cmd::Snap { id } => {
                self.fl.temp_regular |= some;
                self.snapshot(*id);
                Flow::Normal
            }
            Cmd::Echo => {
                self.fl.temp_regular |= some;
                self.last = St::Zero;
                Flow::Normal
            }
            Cmd::Call { f, args } => {
                self.fl.temp_function |= some && self.funcs.contains_key(f);
                self.call(*f, args)
            }
            Cmd::External { id } => {
                self.fl.temp_external |= some;
                let (env, unspec) = self.environment();
                self.fl.export_env |= !env.is_empty();
                self.execs.push(ExpExec { id: *id, env, unspec, prefix_exported: false });
                // execve fails in the simulated OS: 126
                self.last = St::NonZero;
                Flow::Normal
            }
            _ => unreachable!(),
        };
        self.scopes.pop();
        flow
    }

    fn export(&mut self, name: Name, value: Option<Val>) -> Flow {
        if let Some(v) = value {
            match self.assign(name, v.s()) {
                Err(f) => return f,
                Ok(false) => {
                    // error in a special built-in
                    self.fl.ro_export_fatal = true;
                    return Flow::Fatal;
                }
                Ok(true) => {}
            }
        }
        match self.target(name) {
            Err(f) => return f,
            Ok(var) => var.exp = Exp::Yes,
        }
        self.last = St::Zero;
        Flow::Normal
    }

    fn readonly(&mut self, name: Name, value: Option<Val>) -> Flow {
        if let Some(v) = value {
            match self.assign(name, v.s()) {
                Err(f) => return f,
                Ok(false) => {
                    self.fl.ro_readonly_fatal = true;
                    return Flow::Fatal;
                }
                Ok(true) => {}
            }
        }
        match self.target(name) {
            Err(f) => return f,
            Ok(var) => var.ro = true,
        }
        self.last = St::Zero;
        Flow::Normal
    }

    fn exec(&mut self, list: &[Stmt]) -> Flow {
        for s in list {
            let flow = self.exec_one(s);
            if !matches!(flow, Flow::Normal) {
                return flow;
            }
        }
        Flow::Normal
    }

    fn exec_one(&mut self, s: &Stmt) -> Flow {
        match s {
            Stmt::Assign { name, value } => match self.assign(*name, value.s()) {
                Err(f) => f,
                Ok(false) => {
                    self.fl.ro_assign_fatal = true;
                    Flow::Fatal
                }
                Ok(true) => {
                    self.last = St::Zero;
                    Flow::Normal
                }
            },
            Stmt::Prefix { assigns, cmd } => self.exec_prefix(assigns, cmd),
            Stmt::FuncDef { f, body } => {
                self.funcs.insert(*f, body.clone());
                self.last = St::Zero;
                Flow::Normal
            }
            Stmt::Export { name, value } => self.export(*name, *value),
            Stmt::Readonly { name, value } => self.readonly(*name, *value),
            Stmt::Unset { name } => {
                if self.scopes.iter().any(|s| s.temporary && s.vars.contains_key(name)) {
                    return Flow::Skip("unset inside a function of a name that has a caller's temporary assignment");
                }
                let holders = self.scopes.iter().filter(|s| s.vars.contains_key(name)).count();
                if self.scopes.iter().any(|s| s.vars.get(name).is_some_and(|v| v.ro)) {
                    // "Unsetting a read-only variable is an error" + error in a special built-in
                    self.fl.ro_unset_refused = true;
                    return Flow::Fatal;
                }
                // "When a global variable is hidden by a local variable, the current
                // implementation unsets the both."
                self.fl.unset_both |= holders >= 2;
                for sc in &mut self.scopes {
                    sc.vars.remove(name);
                }
                self.last = St::Zero;
                Flow::Normal
            }
            Stmt::For { name, words, body } => {
                if words.is_empty() {
                    self.last = St::Zero;
                    return Flow::Normal;
                }
                for w in words {
                    match self.assign(*name, w.s()) {
                        Err(f) => return f,
                        Ok(false) => {
                            self.fl.ro_for_fatal = true;
                            return Flow::Fatal;
                        }
                        Ok(true) => self.fl.for_assigns = true,
                    }
                    self.last = St::Unknown;
                    let flow = self.exec(body);
                    if !matches!(flow, Flow::Normal) {
                        return flow;
                    }
                }
                Flow::Normal
            }
            Stmt::Read { name, line } => {
                match self.assign(*name, line.s()) {
                    Err(f) => return f,
                    Ok(false) => {
                        // "This built-in fails if ... A variable to be assigned is read-only."
                        self.fl.ro_read_refused = true;
                        self.last = St::NonZero;
                    }
                    Ok(true) => {
                        self.fl.read_assigns = true;
                        self.last = St::Zero;
                    }
                }
                Flow::Normal
            }
            Stmt::Getopts { name } => {
                match self.assign(*name, "a") {
                    Err(f) => return f,
                    Ok(false) => {
                        // "OPTIND, OPTARG, or the specified variable is read-only": status 2
                        self.fl.ro_getopts_refused = true;
                        self.last = St::NonZero;
                    }
                    Ok(true) => {
                        self.fl.getopts_assigns = true;
                        self.last = St::Zero;
                    }
                }
                Flow::Normal
            }
            Stmt::Typeset { name, value, ro, export } => {
                let cur = self.current_function_scope();
                debug_assert!(cur > 0, "typeset only in function bodies");
                match self.scopes[cur].vars.get_mut(name) {
                    Some(var) => {
                        if let Some(v) = value {
                            if var.ro {
                                // "If a variable is already read-only, you cannot assign a value"
                                // (whether -x still applies to the refused operand is not said)
                                if *export && var.exp == Exp::No {
                                    var.exp = Exp::Unspec;
                                }
                                self.fl.ro_typeset_refused = true;
                                self.last = St::NonZero;
                                return Flow::Normal;
                            }
                            var.value = Some(v.s().to_string());
                        }
                        var.ro |= *ro;
                        if *export {
                            var.exp = Exp::Yes;
                        }
                    }
                    None => {
                        if let Some(i) = self.visible(*name) {
                            self.fl.local_shadows = true;
                            self.fl.local_shadows_temp |= self.scopes[i].temporary;
                            // "This implementation allows hiding a read-only variable defined
                            // outside the current function"
                            self.fl.ro_hidden_by_local |= self.scopes[i].vars[name].ro;
                        }
                        self.fl.local_valueless |= value.is_none();
                        self.scopes[cur].vars.insert(*name, MVar { value: value.map(|v| v.s().to_string()), exp: if *export { Exp::Yes } else { Exp::No }, ro: *ro });
                    }
                }
                self.last = St::Zero;
                Flow::Normal
            }
            Stmt::SetParams { args } => {
                let cur = self.current_function_scope();
                self.scopes[cur].params = args.iter().map(|v| v.s().to_string()).collect();
                self.last = St::Zero;
                Flow::Normal
            }
            Stmt::Shift => {
                let cur = self.current_function_scope();
                if self.scopes[cur].params.is_empty() {
                    // "It is an error to try to remove more than the number of existing positional
                    // parameters" + error in a special built-in
                    self.fl.shift_fatal = true;
                    return Flow::Fatal;
                }
                self.scopes[cur].params.remove(0);
                self.last = St::Zero;
                Flow::Normal
            }
            Stmt::Return => Flow::Return,
        }
    }
}

// -------------------------------------------------------------------------------------------
// The check

fn show_var(v: &Option<MVar>) -> String {
    match v {
        None => "unset".to_string(),
        Some(v) => format!(
            "{}{}{}",
            match &v.value {
                Some(s) => format!("{s:?}"),
                None => "(no value)".to_string(),
            },
            match v.exp {
                Exp::Yes => " exported",
                Exp::No => "",
                Exp::Unspec => " export?",
            },
            if v.ro { " read-only" } else { "" }
        ),
    }
}

fn status_matches(exp: St, got: i32) -> bool {
    match exp {
        St::Zero => got == 0,
        St::NonZero => got != 0,
        St::Unknown => true,
    }
}

fn check(c: &Case) -> Outcome {
    let c = sanitize(c);
    let mut m = Model::new(&c.params);
    let flow = m.exec(&c.body);
    let fatal = match flow {
        Flow::Skip(why) => return Outcome::skip(why),
        Flow::Fatal => true,
        Flow::Normal => false,
        Flow::Return => unreachable!("return outside a function is never generated"),
    };

    let script = render(&c);
    let mut setup = vsys::Setup::script(&script);
    let params: Vec<&str> = c.params.iter().map(|v| v.s()).collect();
    setup = setup.args(&params);
    setup.files.push((EXT.to_string(), vsys::FileSpec::Regular { content: String::new(), mode: 0o755, exec: true }));
    let r = vsys::run(&setup);
    let ctx = |msg: String| Outcome::fail(format!("{msg}\nscript (positional parameters {params:?}):\n{script}stderr: {:?}", r.stderr.lines().next().unwrap_or("")));
    if let Some(p) = &r.panic {
        return ctx(format!("panic: {p}"));
    }
    if r.log.deadlock || !r.finished {
        return ctx(format!("shell did not finish (deadlock={})", r.log.deadlock));
    }

    // observation points
    let snaps: Vec<_> = r.snaps.iter().filter(|s| s.pid == r.main_pid).collect();
    for (k, e) in m.snaps.iter().enumerate() {
        let Some(g) = snaps.get(k) else {
            return ctx(format!("the shell stopped before observation point #{k} (snap {}); {} of {} expected points were reached, final status {}", e.id, snaps.len(), m.snaps.len(), r.status));
        };
        if g.tag != e.id.to_string() {
            return ctx(format!("observation point #{k}: expected to reach `snap {}` but the shell reached `snap {}`", e.id, g.tag));
        }
        for (n, ev) in NAMES.iter().zip(&e.vars) {
            let gv = g.vars.get(n.s()).map(|(val, exported, ro, is_array)| {
                let value = match val {
                    None => None,
                    Some(v) if !*is_array && v.len() == 1 => Some(v[0].clone()),
                    Some(v) => Some(format!("<array {v:?}>")),
                };
                MVar { value, exp: if *exported { Exp::Yes } else { Exp::No }, ro: *ro }
            });
            let same = match (ev, &gv) {
                (None, None) => true,
                (Some(a), Some(b)) => a.value == b.value && a.ro == b.ro && (a.exp == Exp::Unspec || a.exp == b.exp),
                _ => false,
            };
            if !same {
                return ctx(format!("at `snap {}` (observation #{k}) variable {}: shell has [{}], documented behaviour gives [{}]", e.id, n.s(), show_var(&gv), show_var(ev)));
            }
        }
        if g.positional != e.positional {
            return ctx(format!("at `snap {}` (observation #{k}) positional parameters: shell has {:?}, documented behaviour gives {:?}", e.id, g.positional, e.positional));
        }
        if !status_matches(e.status, g.status) {
            return ctx(format!("at `snap {}` (observation #{k}) $? is {}, documented behaviour gives {:?}", e.id, g.status, e.status));
        }
    }
    if snaps.len() > m.snaps.len() {
        let extra = snaps[m.snaps.len()];
        return ctx(if fatal {
            format!("the shell went on after a fatal error: reached `snap {}` although the script must have ended after {} observation points", extra.tag, m.snaps.len())
        } else {
            format!("unexpected extra observation `snap {}`", extra.tag)
        });
    }

    // environments handed to external utilities (children in creation order)
    let mut execs: Vec<(String, Vec<String>)> = vec![];
    {
        let st = r.state.borrow();
        // children in creation order, then the shell itself (`exec` is the last thing it does)
        let children = st.processes.iter().filter(|(pid, _)| pid.0 != r.main_pid);
        let main = st.processes.iter().filter(|(pid, _)| pid.0 == r.main_pid);
        for (_pid, p) in children.chain(main) {
            if let Some((_path, args, envs)) = p.last_exec() {
                let tag = args.get(1).map(|a| a.to_string_lossy().into_owned()).unwrap_or_default();
                let mut env: Vec<String> = envs
                    .iter()
                    .map(|e| e.to_string_lossy().into_owned())
                    .filter(|e| NAMES.iter().any(|n| e.split('=').next() == Some(n.s())))
                    .collect();
                env.sort();
                execs.push((tag, env));
            }
        }
    }
    for (k, e) in m.execs.iter().enumerate() {
        let Some((tag, env)) = execs.get(k) else {
            return ctx(format!("external utility #{k} (E{}) was never executed; {} of {} were", e.id, execs.len(), m.execs.len()));
        };
        if *tag != format!("E{}", e.id) {
            return ctx(format!("external utility #{k}: expected E{} but {tag} was executed", e.id));
        }
        let is_unspec = |s: &String| e.unspec.iter().any(|n| s.split('=').next() == Some(n.s()));
        let got: Vec<&String> = env.iter().filter(|s| !is_unspec(s)).collect();
        let want: Vec<&String> = e.env.iter().collect();
        if got != want {
            let tag = if e.prefix_exported { EXEC_PREFIX_TAG } else { "" };
            return ctx(format!("{tag}environment of external utility E{} (x y z only): shell passed {got:?}, the exported variables are {want:?}", e.id));
        }
    }
    if execs.len() > m.execs.len() {
        return ctx(format!("unexpected execution of external utility {}", execs[m.execs.len()].0));
    }

    // final status
    if fatal {
        if r.status == 0 {
            return ctx("the script ended by a fatal error but the exit status is 0".to_string());
        }
    } else if !status_matches(m.last, r.status) {
        return ctx(format!("final exit status {} but documented behaviour gives {:?}", r.status, m.last));
    }

    let f = &m.fl;
    let ro_attempt = f.ro_assign_fatal
        || f.ro_prefix_fatal
        || f.ro_for_fatal
        || f.ro_export_fatal
        || f.ro_readonly_fatal
        || f.ro_unset_refused
        || f.ro_read_refused
        || f.ro_getopts_refused
        || f.ro_typeset_refused;
    let nt_temp_call = f.temp_any && f.calls >= 1;
    Outcome::pass(nt_temp_call || ro_attempt || f.local_shadows)
        .class_if(nt_temp_call, "nt:temporary-assignment+function-call")
        .class_if(ro_attempt, "nt:read-only-violation-attempt")
        .class_if(f.local_shadows, "nt:local-shadows-outer")
        .class_if(!(nt_temp_call || ro_attempt || f.local_shadows), "trivial")
        .class_if(f.temp_regular, "temp-assign-regular")
        .class_if(f.temp_function, "temp-assign-function")
        .class_if(f.temp_special, "temp-assign-special-persists")
        .class_if(f.temp_external, "temp-assign-external-env")
        .class_if(f.temp_nested, "temp-assign-nested")
        .class_if(f.temp_hides_local, "temp-assign-over-local")
        .class_if(f.local_shadows, "local-shadows-global")
        .class_if(f.local_shadows_temp, "local-shadows-temporary")
        .class_if(f.local_valueless, "local-without-value")
        .class_if(f.positional_restored, "positional-restored")
        .class_if(f.global_assigned_in_function, "global-assigned-in-function")
        .class_if(f.nested_call, "nested-call")
        .class_if(f.call_undefined, "call-of-undefined-function")
        .class_if(f.returned, "return")
        .class_if(f.ro_assign_fatal || f.ro_prefix_fatal || f.ro_for_fatal, "readonly-assign-fatal")
        .class_if(f.ro_prefix_fatal, "readonly-prefix-assign-fatal")
        .class_if(f.ro_for_fatal, "readonly-for-fatal")
        .class_if(f.ro_export_fatal, "readonly-export-value-fatal")
        .class_if(f.ro_readonly_fatal, "readonly-readonly-value-fatal")
        .class_if(f.ro_unset_refused, "readonly-unset-refused")
        .class_if(f.ro_read_refused, "readonly-read-refused")
        .class_if(f.ro_getopts_refused, "readonly-getopts-refused")
        .class_if(f.ro_typeset_refused, "readonly-typeset-refused")
        .class_if(f.ro_hidden_by_local, "readonly-hidden-by-local")
        .class_if(f.shift_fatal, "shift-without-parameters-fatal")
        .class_if(f.unset_both, "unset-removes-local-and-global")
        .class_if(f.export_env, "export-env")
        .class_if(f.exported_hidden, "exported-hidden-by-unexported")
        .class_if(f.for_assigns, "for-assigns")
        .class_if(f.read_assigns, "read-assigns")
        .class_if(f.getopts_assigns, "getopts-assigns")
        .class_if(f.exec, "exec-external")
        .class_if(fatal, "ends-by-fatal-error")
}

/// Prefix of the failure message when the only thing the shell can be blamed for is that `exec`
/// did not pass its own prefix assignments to the utility.
const EXEC_PREFIX_TAG: &str = "[exec-prefix-env] ";

/// Known finding: assignments prefixed to a special built-in are performed without the export
/// attribute (yash-semantics/src/command/simple_command/builtin.rs, `(Either::Left(..), false)`),
/// so `NAME=v exec utility` does not hand NAME to the utility although simple.md says "Assigned
/// variables are exported if there are any fields".
fn known(_c: &Case, msg: &str) -> Option<&'static str> {
    msg.starts_with(EXEC_PREFIX_TAG).then_some("special-builtin-prefix-assign-not-exported")
}

pub static SCRIPT_RANDOM: Driver<Case> = Driver::new("C16", "script-random", check).with_known(known);
pub static SCRIPT_CATALOGUE: Driver<Case> = Driver::new("C16", "script-catalogue", check).with_known(known);

// -------------------------------------------------------------------------------------------
// Hand-written programs: the scenarios the manual spells out

fn catalogue() -> Vec<Case> {
    use Name::*;
    use Val::*;
    let snap = || Stmt::Prefix { assigns: vec![], cmd: Cmd::Snap { id: 0 } };
    let pre = |assigns: Vec<(Name, Val)>, cmd: Cmd| Stmt::Prefix { assigns, cmd };
    let call = |f: Fun, args: Vec<Val>| Stmt::Prefix { assigns: vec![], cmd: Cmd::Call { f, args } };
    let asg = |name: Name, value: Val| Stmt::Assign { name, value };
    let def = |f: Fun, body: Vec<Stmt>| Stmt::FuncDef { f, body };
    let ext = || Cmd::External { id: 0 };
    let ts = |name: Name, value: Option<Val>| Stmt::Typeset { name, value, ro: false, export: false };
    vec![
        // temporary assignment to a regular built-in / external / function does not persist
        Case { params: vec![], body: vec![asg(X, BC), pre(vec![(X, A), (Y, A)], Cmd::Snap { id: 0 }), snap(), pre(vec![(X, A)], ext()), snap()] },
        Case { params: vec![A], body: vec![def(Fun::F, vec![snap()]), pre(vec![(X, A)], Cmd::Call { f: Fun::F, args: vec![BC, A] }), snap()] },
        // ... to a special built-in persists
        Case { params: vec![], body: vec![pre(vec![(X, A)], Cmd::Colon), snap(), pre(vec![(Y, BC)], Cmd::Export { name: Y }), pre(vec![(Z, A)], Cmd::Readonly { name: Z }), pre(vec![(X, BC)], Cmd::EvalSnap { id: 0 }), pre(vec![], ext())] },
        // variables.md "Local variables": typeset hides the global, dynamic scope
        Case {
            params: vec![],
            body: vec![
                asg(X, A),
                def(Fun::G, vec![snap(), asg(X, BC), asg(Y, A)]),
                def(Fun::F, vec![ts(X, Some(Empty)), call(Fun::G, vec![]), snap()]),
                call(Fun::F, vec![]),
                snap(),
                call(Fun::G, vec![]),
            ],
        },
        // positional.md: set / shift inside a function, restored on return
        Case { params: vec![A, BC], body: vec![def(Fun::F, vec![snap(), Stmt::Shift, snap(), Stmt::SetParams { args: vec![Empty, A, A] }, snap(), Stmt::Return, snap()]), call(Fun::F, vec![BC]), snap()] },
        // read-only: every assigner
        Case { params: vec![], body: vec![Stmt::Readonly { name: X, value: Some(A) }, Stmt::Read { name: X, line: BC }, snap(), Stmt::Getopts { name: X }, snap(), Stmt::Export { name: X, value: None }, pre(vec![], ext()), asg(X, BC)] },
        Case { params: vec![], body: vec![Stmt::Readonly { name: X, value: Some(A) }, snap(), Stmt::Unset { name: X }] },
        Case { params: vec![], body: vec![Stmt::Readonly { name: X, value: Some(A) }, Stmt::For { name: X, words: vec![A], body: vec![snap()] }] },
        Case { params: vec![], body: vec![Stmt::Readonly { name: X, value: Some(A) }, pre(vec![(X, BC)], Cmd::Echo)] },
        Case { params: vec![], body: vec![Stmt::Readonly { name: X, value: Some(A) }, Stmt::Export { name: X, value: Some(BC) }] },
        Case { params: vec![], body: vec![Stmt::Readonly { name: X, value: None }, snap(), Stmt::Readonly { name: X, value: Some(BC) }] },
        // typeset.md: a local may hide a read-only global; a read-only local refuses typeset NAME=v
        Case {
            params: vec![],
            body: vec![
                Stmt::Readonly { name: X, value: Some(A) },
                def(Fun::F, vec![ts(X, None), snap(), Stmt::Readonly { name: X, value: None }, ts(X, Some(BC)), snap()]),
                call(Fun::F, vec![]),
                snap(),
            ],
        },
        // unset.md: unset removes the local and the hidden global
        Case { params: vec![], body: vec![asg(X, A), def(Fun::F, vec![ts(X, Some(BC)), Stmt::Unset { name: X }, snap()]), call(Fun::F, vec![]), snap()] },
        // environment: exported global hidden by a non-exported local; export of a local
        Case {
            params: vec![],
            body: vec![
                Stmt::Export { name: X, value: Some(A) },
                Stmt::Export { name: Z, value: None },
                def(Fun::F, vec![ts(X, Some(BC)), pre(vec![], ext()), ts(Y, Some(A)), Stmt::Export { name: Y, value: None }, pre(vec![(Z, Empty)], ext())]),
                call(Fun::F, vec![]),
                pre(vec![], ext()),
            ],
        },
        // for / read / getopts assign the visible (local) variable
        Case {
            params: vec![],
            body: vec![
                def(Fun::F, vec![ts(X, None), Stmt::For { name: X, words: vec![A, BC], body: vec![snap()] }, Stmt::Read { name: X, line: Empty }, snap(), Stmt::Getopts { name: Y }]),
                call(Fun::F, vec![]),
                snap(),
            ],
        },
        // exec: exported variables and the command's own assignments reach the utility
        Case { params: vec![], body: vec![Stmt::Export { name: Y, value: Some(BC) }, asg(Z, A), pre(vec![], Cmd::Exec { id: 0 }), snap()] },
        Case { params: vec![], body: vec![Stmt::Export { name: X, value: None }, pre(vec![(X, A)], Cmd::Exec { id: 0 }), snap()] },
        Case { params: vec![], body: vec![pre(vec![(X, A)], Cmd::Exec { id: 0 }), snap()] },
        // typeset -r / -x
        Case {
            params: vec![],
            body: vec![
                asg(X, A),
                def(Fun::F, vec![Stmt::Typeset { name: X, value: Some(BC), ro: true, export: true }, pre(vec![], ext()), Stmt::Typeset { name: X, value: Some(A), ro: false, export: false }, snap(), Stmt::Typeset { name: X, value: None, ro: true, export: false }, asg(X, A)]),
                call(Fun::F, vec![]),
                snap(),
            ],
        },
        // shift beyond $#
        Case { params: vec![], body: vec![snap(), Stmt::Shift, snap()] },
    ]
}

// -------------------------------------------------------------------------------------------
// Generator

fn arb_name() -> impl Strategy<Value = Name> {
    prop_oneof![3 => Just(Name::X), 2 => Just(Name::Y), 1 => Just(Name::Z)]
}
fn arb_val() -> impl Strategy<Value = Val> {
    prop_oneof![3 => Just(Val::A), 1 => Just(Val::Empty), 2 => Just(Val::BC)]
}
fn arb_fun() -> impl Strategy<Value = Fun> {
    prop_oneof![Just(Fun::F), Just(Fun::G)]
}
fn arb_vals() -> impl Strategy<Value = Vec<Val>> {
    prop::collection::vec(arb_val(), 0..3)
}

fn arb_cmd() -> impl Strategy<Value = Cmd> {
    prop_oneof![
        10 => Just(Cmd::Snap { id: 0 }),
        2 => Just(Cmd::Echo),
        12 => (arb_fun(), arb_vals()).prop_map(|(f, args)| Cmd::Call { f, args }),
        4 => Just(Cmd::Colon),
        2 => arb_name().prop_map(|name| Cmd::Export { name }),
        2 => arb_name().prop_map(|name| Cmd::Readonly { name }),
        4 => Just(Cmd::EvalSnap { id: 0 }),
        8 => Just(Cmd::External { id: 0 }),
        1 => Just(Cmd::Exec { id: 0 }),
    ]
}

fn arb_leaf(in_func: bool) -> impl Strategy<Value = Stmt> {
    // weights: (top level, function body)
    let w = move |top: u32, func: u32| if in_func { func } else { top };
    prop_oneof![
        w(10, 6) => (arb_name(), arb_val()).prop_map(|(name, value)| Stmt::Assign { name, value }),
        // a bare command (mostly observation points and calls)
        w(14, 10) => arb_cmd().prop_map(|cmd| Stmt::Prefix { assigns: vec![], cmd }),
        w(18, 10) => (prop::collection::vec((arb_name(), arb_val()), 1..3), arb_cmd()).prop_map(|(assigns, cmd)| Stmt::Prefix { assigns, cmd }),
        w(4, 2) => (arb_name(), prop::option::of(arb_val())).prop_map(|(name, value)| Stmt::Export { name, value }),
        w(2, 2) => (arb_name(), prop::option::of(arb_val())).prop_map(|(name, value)| Stmt::Readonly { name, value }),
        w(3, 3) => arb_name().prop_map(|name| Stmt::Unset { name }),
        w(2, 2) => (arb_name(), arb_val()).prop_map(|(name, line)| Stmt::Read { name, line }),
        w(1, 1) => arb_name().prop_map(|name| Stmt::Getopts { name }),
        w(1, 14) => (arb_name(), prop::option::weighted(0.7, arb_val()), prop::bool::weighted(0.12), prop::bool::weighted(0.15))
            .prop_map(|(name, value, ro, export)| Stmt::Typeset { name, value, ro, export }),
        w(3, 3) => arb_vals().prop_map(|args| Stmt::SetParams { args }),
        w(1, 1) => Just(Stmt::Shift),
        w(1, 1) => Just(Stmt::Return),
    ]
}

fn arb_for(in_func: bool) -> impl Strategy<Value = Stmt> {
    (arb_name(), arb_vals(), prop::collection::vec(arb_leaf(in_func), 1..=MAX_FOR_BODY)).prop_map(|(name, words, body)| Stmt::For { name, words, body })
}

fn arb_func_body() -> impl Strategy<Value = Vec<Stmt>> {
    prop::collection::vec(prop_oneof![12 => arb_leaf(true), 1 => arb_for(true)], 1..=MAX_FUNC_BODY)
}

fn arb_funcdef() -> impl Strategy<Value = Stmt> {
    (arb_fun(), arb_func_body()).prop_map(|(f, body)| Stmt::FuncDef { f, body })
}

fn arb_top_stmt() -> impl Strategy<Value = Stmt> {
    prop_oneof![16 => arb_leaf(false), 1 => arb_for(false), 1 => arb_funcdef()]
}

fn arb_case() -> impl Strategy<Value = Case> {
    (
        arb_vals(),
        // most programs start by defining f and g
        prop::option::weighted(0.9, arb_func_body()),
        prop::option::weighted(0.8, arb_func_body()),
        prop::collection::vec(arb_top_stmt(), 1..=10),
    )
        .prop_map(|(params, f, g, main)| {
            let mut body = vec![];
            if let Some(b) = g {
                body.push(Stmt::FuncDef { f: Fun::G, body: b });
            }
            if let Some(b) = f {
                body.push(Stmt::FuncDef { f: Fun::F, body: b });
            }
            body.extend(main);
            sanitize(&Case { params, body })
        })
}

// -------------------------------------------------------------------------------------------

pub fn run(ctx: &Ctx, st: &mut Stats) {
    SCRIPT_CATALOGUE.run_list(st, &catalogue());
    let n = ctx.tier.pick(120_000, 3_000_000);
    SCRIPT_RANDOM.run_random(ctx, st, n, arb_case);
}

pub fn replay(driver: &str, case: &serde_json::Value) -> Result<(Outcome, Option<&'static str>), String> {
    match driver {
        "script-random" => SCRIPT_RANDOM.replay_known(case),
        "script-catalogue" => SCRIPT_CATALOGUE.replay_known(case),
        _ => Err(format!("unknown driver {driver}")),
    }
}

#[cfg(test)]
mod tests {
    use super::*;

    #[test]
    fn sanitize_is_idempotent_on_the_catalogue() {
        for c in catalogue() {
            let a = sanitize(&c);
            assert_eq!(a, sanitize(&a));
        }
    }
}

