//! C07 — quoted output reads back verbatim; state listings recreate the state.
//!
//! Driver `quote` (O1): `Q = yash_quote::quote(s)` is placed in every word position the printers
//! use (argument, assignment value, argument after an assignment, `alias x=Q`, array element,
//! operand of a declaration utility, command name) of a script run by the complete shell on the simulated OS;
//! each position must deliver exactly the one field `s`.
//!
//! Driver `listing` (O2): a state is built from structured definitions rendered with the harness'
//! own single-quote quoting, a printer is run, its output is evaluated by a fresh shell, and the
//! part of the state the printer lists is compared between the two shells' snapshots.
//!
//! The oracle never asks the code under test what needs quoting: it only compares fields and
//! snapshots. `my_needs_quoting` is used for non-triviality and class labels only.

use crate::engine::*;
use crate::probes::Snap;
use crate::vsys;
use proptest::prelude::*;
use serde::{Deserialize, Serialize};
use std::collections::BTreeMap;

pub const INFO: PropInfo = PropInfo {
    id: "C07",
    level: "exploration",
    rule: "driver quote: case = one string s (no NUL). Q=yash_quote::quote(s) is run by the real shell on the simulated OS as `probe Q`, `v=Q; probe \"$v\"`, `x=1 probe Q`, `alias zz=Q`, `arr=(Q Q)`, `export w=Q`, with HOME set so that an unquoted tilde (at the start or after a colon in an assignment) would expand visibly; every position must yield exactly the field s; and in command position: with a function named s defined through the harness' own quoting, `x=1 Q arg` and `Q` must call it (not applicable when s is empty, contains a slash, is a reserved word or names a built-in). Exhaustive: all strings up to length 3 (quick) / 4 (thorough) over a 43-character alphabet (; & | ( ) < > space tab newline $ ` \\ \" ' = * ? [ ] { } # ~ : ! ^ % , - U+00A0 U+3000 U+2003 \\x01 \\x7f a Z 0 / CR @ + .), random: strings up to length 40 over that alphabet plus arbitrary Unicode. Non-trivial = s is empty or needs quoting by the harness' own list (special character anywhere, Unicode white space, leading # or ~, `:~`, `{` before `}`, `[` before `]`); exhaustive cases are distinct by index, random ones by serialised case. driver listing: case = (printer, sequence of <=10 definitions: scalar/array assignment, export, readonly, typeset [-x][-r], typeset [-x] -- 'NAME'=value for names that are not identifiers (-n, '-a b', 'a b', q$, -x~), alias, function definition (own command grammar without here-documents), typeset -fr, set -o/+o OPTION, trap ACTION COND, umask MODE) rendered with the harness' own '...' quoting. Shell 1 runs the definitions, snapshots, prints the listing; a fresh shell 2 evaluates the captured text (alias: as operands of `alias --`; umask: as the operand of `umask`), snapshots; the listed component must be equal (export -p: values + exported; readonly -p: values + read-only; typeset -p: values + both; set: values of variables with a value whose names are identifiers - the built-in lists only those; alias: name->(replacement, global); typeset -fp: name->(printed body, read-only); set +o: every modifiable option; trap: condition->action; umask/umask -S: the mask, shell 2 starting from the complemented mask). Non-trivial = the listed component has >=2 entries and >=1 listed string needs quoting (functions: >=2 functions and a quote character in a body; set +o: >=2 options differ from the start-up default; umask: the case sets the mask); distinct by serialised case. Plus explicit lists: all 512 masks x {umask, umask -S}, every single option toggle x set +o.",
    assumptions: &[
        "the simulated OS and the probe built-ins (probe, snap, echo) are trusted",
        "variable names are plain ASCII names v1..v4; only the variables the case defines are compared (the shell's own PPID, IFS, PS1.. are ignored)",
        "`alias` output is evaluated as `alias -- ENTRY...`, the entries being the top-level lines of the output (the manual says: suitable for reuse as input to alias)",
        "options that cannot be toggled in a non-interactive -c shell are not generated: cmdline, interactive, stdin (unmodifiable), exec (stops execution), monitor (job control); `portable` only with the `set +o` printer and set last (it makes the other definitions errors by design)",
        "documented non-recreation is not checked: read-only attribute in export -p, exported attribute in readonly -p, here-documents in functions (never generated); global aliases cannot be defined (alias has no -g yet) and are not generated",
        "function bodies: the check is the printed-form fixed point print(parse(print(source))) == print(parse(source)); it cannot see a reparse that changes meaning but prints identically",
    ],
};

// ---------------------------------------------------------------------------------------------
// Alphabet, own notion of "needs quoting" (labels and non-triviality only), trusted quoting

pub const ALPHA: [char; 43] = [
    ';', '&', '|', '(', ')', '<', '>', ' ', '\t', '\n', '$', '`', '\\', '"', '\'', '=', '*', '?', '[', ']', '{', '}',
    '#', '~', ':', '!', '^', '%', ',', '-', '\u{a0}', '\u{3000}', '\u{2003}', '\u{1}', '\u{7f}', 'a', 'Z', '0', '/',
    '\r', '@', '+', '.',
];

/// Extra characters for the random tier (besides arbitrary `char`s).
const EXTRA: [char; 16] = [
    '\u{b}', '\u{c}', '\u{85}', '\u{1680}', '\u{2000}', '\u{200a}', '\u{2028}', '\u{2029}', '\u{202f}', '\u{205f}',
    '\u{feff}', '\u{200b}', '\u{180e}', '\u{301}', '\u{e9}', '\u{1f600}',
];

fn my_is_unicode_space(c: char) -> bool {
    matches!(c,
        '\t' | '\n' | '\u{b}' | '\u{c}' | '\r' | ' ' | '\u{85}' | '\u{a0}' | '\u{1680}' | '\u{2000}'..='\u{200a}'
        | '\u{2028}' | '\u{2029}' | '\u{202f}' | '\u{205f}' | '\u{3000}')
}

fn my_char_special(c: char) -> bool {
    matches!(c, ';' | '&' | '|' | '(' | ')' | '<' | '>' | '$' | '`' | '\\' | '"' | '\'' | '=' | '*' | '?')
        || my_is_unicode_space(c)
}

/// The harness' own list of strings that cannot be written bare (POSIX XCU 2.2 plus tilde, brace
/// and bracket forms). Used for non-triviality and labels, never as the oracle.
pub fn my_needs_quoting(s: &str) -> bool {
    if s.is_empty() || s.chars().any(my_char_special) {
        return true;
    }
    if s.starts_with('#') || s.starts_with('~') || s.contains(":~") {
        return true;
    }
    if let Some(i) = s.find('{') {
        if s[i..].contains('}') {
            return true;
        }
    }
    if let Some(i) = s.find('[') {
        if s[i..].contains(']') {
            return true;
        }
    }
    false
}

fn has_nonascii_blank(s: &str) -> bool {
    s.chars().any(|c| !c.is_ascii() && my_is_unicode_space(c))
}

/// Trusted quoting: '...' with '\'' for an embedded single quote.
fn sq(s: &str) -> String {
    let mut o = String::with_capacity(s.len() + 2);
    o.push('\'');
    for c in s.chars() {
        if c == '\'' {
            o.push_str("'\\''");
        } else {
            o.push(c);
        }
    }
    o.push('\'');
    o
}

fn style_of(q: &str) -> &'static str {
    match q.chars().next() {
        Some('\'') => "style:single",
        Some('"') => "style:double",
        _ => "style:bare",
    }
}

/// The style the documented decision rule should choose (labels only).
fn my_style(s: &str) -> &'static str {
    if !my_needs_quoting(s) {
        "style:bare"
    } else if s.contains('\'') {
        "style:double"
    } else {
        "style:single"
    }
}

// ---------------------------------------------------------------------------------------------
// Driver "quote"

#[derive(Clone, Debug, PartialEq, Eq, Hash, Serialize, Deserialize)]
pub struct QuoteCase {
    pub s: String,
}

fn show(s: &str) -> String {
    format!("{s:?}")
}

fn check_quote(c: &QuoteCase) -> Outcome {
    let s = c.s.as_str();
    if s.contains('\0') {
        return Outcome::skip("NUL cannot occur in a shell string");
    }
    let q = yash_quote::quote(s).into_owned();
    let q2 = yash_quote::quoted(s).to_string();
    if q != q2 {
        return Outcome::fail(format!("quote({}) = {} but quoted().to_string() = {}", show(s), show(&q), show(&q2)));
    }
    // command position: a function named s (defined with the harness' own quoting) must be what
    // `x=1 Q arg` runs. Not applicable when s cannot name a function call: empty, contains a slash
    // (path search), reserved word (quoting is not claimed to hide those), built-in utility.
    let cmd_pos = !s.is_empty() && !s.contains('/') && !RESERVED.contains(&s) && !BUILTIN_NAMES.contains(&s);
    let mut script = format!(
        "probe {q}\nv={q}; probe \"$v\"\nx=1 probe {q}\nalias zz={q}\narr=({q} {q})\nexport w={q}\nsnap end\n"
    );
    if cmd_pos {
        script.push_str(&format!("unalias zz\n{}() {{ probe called \"$@\"; }}\nx=1 {q} arg\n{q}\n", sq(s)));
    }
    // HOME is set so that an unquoted tilde (also after a colon in an assignment) would visibly expand
    let mut setup = vsys::Setup::script(&script);
    setup.env_vars.push(("HOME".into(), "/home/user".into()));
    let r = vsys::run(&setup);
    if let Some(p) = &r.panic {
        return Outcome::fail(format!("panic while reading quote({}) = {}: {p}", show(s), show(&q)));
    }
    if !r.finished {
        return Outcome::fail(format!("shell did not finish reading quote({}) = {}", show(s), show(&q)));
    }
    let want = vec![s.to_string()];
    let trace = r.main_trace();
    let positions = ["probe Q", "v=Q; probe \"$v\"", "x=1 probe Q"];
    for (i, pos) in positions.iter().enumerate() {
        match trace.get(i) {
            None => {
                return Outcome::fail(format!(
                    "quote({}) = {}: `{pos}` did not run (status {}, stderr {:?})",
                    show(s), show(&q), r.status, r.stderr
                ));
            }
            Some(t) if t.args != want => {
                return Outcome::fail(format!(
                    "quote({}) = {}: `{pos}` received {:?}, expected exactly {:?}",
                    show(s), show(&q), t.args, want
                ));
            }
            _ => {}
        }
    }
    let expected_calls = positions.len() + if cmd_pos { 2 } else { 0 };
    if trace.len() > expected_calls {
        return Outcome::fail(format!(
            "quote({}) = {}: {} probe calls instead of {expected_calls}",
            show(s), show(&q), trace.len()
        ));
    }
    let Some(snap) = r.snaps.iter().find(|x| x.tag == "end") else {
        return Outcome::fail(format!(
            "quote({}) = {}: the script did not reach its end (status {}, stderr {:?})",
            show(s), show(&q), r.status, r.stderr
        ));
    };
    match snap.aliases.get("zz") {
        Some((rep, false)) if rep == s => {}
        other => {
            return Outcome::fail(format!("quote({}) = {}: `alias zz=Q` defined {:?}", show(s), show(&q), other));
        }
    }
    let var = |n: &str| snap.vars.get(n).map(|v| (v.0.clone(), v.3));
    if var("v") != Some((Some(want.clone()), false)) {
        return Outcome::fail(format!("quote({}) = {}: `v=Q` assigned {:?}", show(s), show(&q), var("v")));
    }
    if var("arr") != Some((Some(vec![s.to_string(), s.to_string()]), true)) {
        return Outcome::fail(format!("quote({}) = {}: `arr=(Q Q)` assigned {:?}", show(s), show(&q), var("arr")));
    }
    if var("w") != Some((Some(want.clone()), false)) {
        return Outcome::fail(format!("quote({}) = {}: `export w=Q` assigned {:?}", show(s), show(&q), var("w")));
    }
    if cmd_pos {
        for (i, (pos, want)) in [("x=1 Q arg", vec!["called", "arg"]), ("Q", vec!["called"])].iter().enumerate() {
            match r.main_trace().get(3 + i) {
                Some(t) if t.args == *want => {}
                other => {
                    return Outcome::fail(format!(
                        "quote({}) = {}: with a function named {} defined, `{pos}` did not call it: probe saw {:?} (status {}, stderr {:?})",
                        show(s), show(&q), show(s), other.map(|t| &t.args), r.status, r.stderr
                    ));
                }
            }
        }
    }
    let n = s.chars().count();
    Outcome::pass(my_needs_quoting(s))
        .class(style_of(&q))
        .class_if(cmd_pos, "command-position-checked")
        .class_if(s.is_empty(), "empty")
        .class_if(has_nonascii_blank(s), "non-ascii-blank")
        .class_if(s.contains('\n'), "newline-in-value")
        .class_if(!s.is_ascii(), "non-ascii")
        .class(match n {
            0..=3 => "len:0-3",
            4..=10 => "len:4-10",
            _ => "len:11-40",
        })
}

pub static QUOTE: Driver<QuoteCase> = Driver::new("C07", "quote", check_quote);

fn count_strings(k: u64, maxlen: u32) -> u64 {
    (0..=maxlen).map(|l| k.pow(l)).sum()
}

fn nth_string(maxlen: u32, mut i: u64) -> Option<String> {
    let k = ALPHA.len() as u64;
    for l in 0..=maxlen {
        let n = k.pow(l);
        if i < n {
            let mut s = Vec::with_capacity(l as usize);
            for _ in 0..l {
                s.push(ALPHA[(i % k) as usize]);
                i /= k;
            }
            s.reverse();
            return Some(s.into_iter().collect());
        }
        i -= n;
    }
    None
}

fn arb_char() -> impl Strategy<Value = char> {
    prop_oneof![
        12 => prop::sample::select(ALPHA.to_vec()),
        2 => prop::sample::select(EXTRA.to_vec()),
        3 => any::<char>().prop_filter("NUL", |c| *c != '\0'),
    ]
}

fn arb_string(max: usize) -> impl Strategy<Value = String> {
    prop::collection::vec(arb_char(), 0..=max).prop_map(|v| v.into_iter().collect())
}

fn arb_alpha_string(max: usize) -> impl Strategy<Value = String> {
    prop::collection::vec(prop::sample::select(ALPHA.to_vec()), 0..=max).prop_map(|v| v.into_iter().collect())
}

fn arb_quote_case() -> impl Strategy<Value = QuoteCase> {
    prop_oneof![
        1 => arb_alpha_string(8),
        2 => arb_alpha_string(40),
        3 => arb_string(40),
    ]
    .prop_map(|s| QuoteCase { s })
}

// ---------------------------------------------------------------------------------------------
// Driver "listing": the case

#[derive(Clone, Copy, Debug, PartialEq, Eq, Hash, Serialize, Deserialize)]
pub enum Printer {
    Alias,
    ExportP,
    ReadonlyP,
    TypesetP,
    TypesetFp,
    SetVars,
    SetPlusO,
    Trap,
    Umask,
    UmaskS,
}

pub const PRINTERS: [Printer; 10] = [
    Printer::Alias,
    Printer::ExportP,
    Printer::ReadonlyP,
    Printer::TypesetP,
    Printer::TypesetFp,
    Printer::SetVars,
    Printer::SetPlusO,
    Printer::Trap,
    Printer::Umask,
    Printer::UmaskS,
];

impl Printer {
    fn command(self) -> &'static str {
        match self {
            Printer::Alias => "alias",
            Printer::ExportP => "export -p",
            Printer::ReadonlyP => "readonly -p",
            Printer::TypesetP => "typeset -p",
            Printer::TypesetFp => "typeset -fp",
            Printer::SetVars => "set",
            Printer::SetPlusO => "set +o",
            Printer::Trap => "trap",
            Printer::Umask => "umask",
            Printer::UmaskS => "umask -S",
        }
    }
    fn nt_label(self) -> &'static str {
        match self {
            Printer::Alias => "nontrivial:alias",
            Printer::ExportP => "nontrivial:export -p",
            Printer::ReadonlyP => "nontrivial:readonly -p",
            Printer::TypesetP => "nontrivial:typeset -p",
            Printer::TypesetFp => "nontrivial:typeset -fp",
            Printer::SetVars => "nontrivial:set",
            Printer::SetPlusO => "nontrivial:set +o",
            Printer::Trap => "nontrivial:trap",
            Printer::Umask => "nontrivial:umask",
            Printer::UmaskS => "nontrivial:umask -S",
        }
    }
    fn label(self) -> &'static str {
        match self {
            Printer::Alias => "printer:alias",
            Printer::ExportP => "printer:export -p",
            Printer::ReadonlyP => "printer:readonly -p",
            Printer::TypesetP => "printer:typeset -p",
            Printer::TypesetFp => "printer:typeset -fp",
            Printer::SetVars => "printer:set",
            Printer::SetPlusO => "printer:set +o",
            Printer::Trap => "printer:trap",
            Printer::Umask => "printer:umask",
            Printer::UmaskS => "printer:umask -S",
        }
    }
}

/// Options that can be toggled in a non-interactive `-c` shell without stopping it.
pub const OPTS: [&str; 16] = [
    "allexport", "clobber", "errexit", "glob", "hashondefinition", "ignoreeof", "log", "login", "notify", "pipefail",
    "portable", "posixlycorrect", "unset", "verbose", "vi", "xtrace",
];
const UNMODIFIABLE: [&str; 3] = ["cmdline", "interactive", "stdin"];
/// Start-up state of a `yash -c` shell (documentation: options.md), for non-triviality only.
const DEFAULT_ON: [&str; 6] = ["clobber", "cmdline", "exec", "glob", "log", "unset"];

pub const CONDS: [&str; 7] = ["EXIT", "INT", "TERM", "USR1", "USR2", "HUP", "QUIT"];

#[derive(Clone, Debug, PartialEq, Eq, Hash, Serialize, Deserialize)]
pub enum AliasName {
    Plain(u8),
    Special(String),
}

impl AliasName {
    fn text(&self) -> String {
        match self {
            AliasName::Plain(n) => format!("zz{n}"),
            AliasName::Special(s) => s.replace('=', ":"),
        }
    }
}

#[derive(Clone, Debug, PartialEq, Eq, Hash, Serialize, Deserialize)]
pub enum FuncName {
    Plain(u8),
    Special(u8),
}

/// Function names that cannot be written as a plain name (defined through a quoted word).
pub const SPECIAL_FUNC_NAMES: [&str; 12] = ["a b", "if", "!", "{", "a,b", "a=b", "-x", "\u{e9}", "a'b", "$x", "}", "a\nb"];
const BUILTIN_NAMES: [&str; 46] = [
    ".", ":", "alias", "bg", "break", "cd", "command", "continue", "eval", "exec", "exit", "export", "false", "fg",
    "getopts", "jobs", "kill", "pwd", "read", "readonly", "return", "set", "shift", "source", "times", "trap", "true",
    "type", "typeset", "ulimit", "umask", "unalias", "unset", "wait", "echo", "probe", "st", "cnt", "cat", "gen", "sink",
    "snap", "pos", "local", "declare", "function",
];
const RESERVED: [&str; 21] = [
    "!", "{", "}", "[[", "]]", "case", "do", "done", "elif", "else", "esac", "fi", "for", "function", "if", "in",
    "namespace", "select", "then", "until", "while",
];

impl FuncName {
    fn text(&self) -> String {
        match self {
            FuncName::Plain(n) => format!("f{n}"),
            FuncName::Special(i) => SPECIAL_FUNC_NAMES[*i as usize % SPECIAL_FUNC_NAMES.len()].to_string(),
        }
    }
    fn source(&self) -> String {
        match self {
            FuncName::Plain(_) => self.text(),
            FuncName::Special(_) => sq(&self.text()),
        }
    }
}

#[derive(Clone, Debug, PartialEq, Eq, Hash, Serialize, Deserialize)]
pub enum TrapAct {
    Default,
    Ignore,
    Cmd(String),
}

#[derive(Clone, Debug, PartialEq, Eq, Hash, Serialize, Deserialize)]
pub enum UmaskMode {
    Octal(u16),
    /// clauses (who bits u=4 g=2 o=1 (0 = none written), operator 0 '+' 1 '-' 2 '=', perm bits r=4 w=2 x=1)
    Symbolic(Vec<(u8, u8, u8)>),
}

impl UmaskMode {
    fn text(&self) -> String {
        match self {
            UmaskMode::Octal(m) => format!("{:03o}", m & 0o777),
            UmaskMode::Symbolic(cl) => {
                let mut parts = vec![];
                for (who, op, perm) in cl {
                    let mut s = String::new();
                    if who & 7 == 7 {
                        s.push('a');
                    } else {
                        for (b, ch) in [(4, 'u'), (2, 'g'), (1, 'o')] {
                            if who & b != 0 {
                                s.push(ch);
                            }
                        }
                    }
                    s.push(['+', '-', '='][*op as usize % 3]);
                    for (b, ch) in [(4, 'r'), (2, 'w'), (1, 'x')] {
                        if perm & b != 0 {
                            s.push(ch);
                        }
                    }
                    parts.push(s);
                }
                if parts.is_empty() {
                    parts.push("a+".to_string());
                }
                parts.join(",")
            }
        }
    }
}

#[derive(Clone, Debug, PartialEq, Eq, Hash, Serialize, Deserialize)]
pub enum Op {
    Assign { n: u8, v: String },
    AssignArray { n: u8, vs: Vec<String> },
    Export { n: u8, v: Option<String> },
    Readonly { n: u8, v: Option<String> },
    Typeset { n: u8, x: bool, r: bool, v: Option<String> },
    /// `typeset [-x] -- 'NAME'=value` for a variable name that is not a plain name
    TypesetOdd { name: u8, x: bool, v: String },
    Alias { name: AliasName, v: String },
    Func { name: FuncName, body: C },
    FuncReadonly { name: FuncName },
    SetOpt { opt: u8, on: bool },
    Trap { act: TrapAct, cond: u8 },
    Umask { mode: UmaskMode },
}

#[derive(Clone, Debug, PartialEq, Eq, Hash, Serialize, Deserialize)]
pub struct ListCase {
    pub printer: Printer,
    pub ops: Vec<Op>,
}

// ---- function body grammar (own AST, own renderer) ----

/// Piece of a double-quoted string
#[derive(Clone, Debug, PartialEq, Eq, Hash, Serialize, Deserialize)]
pub enum D {
    Lit(String),
    Var(u8),
    BracedVar(u8),
    Cs(Box<Simple>),
    Ar(u8),
}

/// Piece of a `$'...'` string
#[derive(Clone, Debug, PartialEq, Eq, Hash, Serialize, Deserialize)]
pub enum E {
    Lit(char),
    Named(char),
    Ctrl(char),
    Hex(u8),
    Oct(u8),
    Uni(u16),
}

/// Piece of a word
#[derive(Clone, Debug, PartialEq, Eq, Hash, Serialize, Deserialize)]
pub enum W {
    Bare(String),
    Sq(String),
    Dq(Vec<D>),
    Esc(char),
    Var(u8),
    Len(u8),
    Braced { n: u8, op: u8, word: Vec<W> },
    Cs(Box<Simple>),
    Bq(u8),
    Ar(u8),
    Dsq(Vec<E>),
    Tilde(u8),
}

#[derive(Clone, Debug, PartialEq, Eq, Hash, Serialize, Deserialize)]
pub struct Redir {
    pub fd: Option<u8>,
    pub op: u8,
    pub target: Vec<W>,
}

#[derive(Clone, Debug, PartialEq, Eq, Hash, Serialize, Deserialize)]
pub struct Simple {
    pub assigns: Vec<(u8, Vec<W>)>,
    pub name: Option<u8>,
    pub args: Vec<Vec<W>>,
    pub redirs: Vec<Redir>,
    /// the command name is this reserved word, which is possible only when a redirection comes
    /// first (`>f done x`); assignments are dropped in that case
    #[serde(default)]
    pub kw: Option<u8>,
}

const KW_NAMES: [&str; 14] = ["done", "fi", "then", "esac", "}", "if", "!", "{", "do", "elif", "else", "while", "case", "in"];

#[derive(Clone, Debug, PartialEq, Eq, Hash, Serialize, Deserialize)]
pub struct CaseItem {
    pub pats: Vec<Vec<W>>,
    pub body: Vec<C>,
    pub term: u8,
}

#[derive(Clone, Debug, PartialEq, Eq, Hash, Serialize, Deserialize)]
pub enum C {
    Simple(Simple),
    Brace(Vec<C>),
    Sub(Vec<C>),
    If { cond: Box<C>, then: Vec<C>, elif: Option<(Box<C>, Vec<C>)>, els: Option<Vec<C>> },
    Loop { until: bool, cond: Box<C>, body: Vec<C> },
    For { words: Option<Vec<Vec<W>>>, body: Vec<C> },
    Case { subject: Vec<W>, items: Vec<CaseItem> },
    Pipe { neg: bool, cmds: Vec<C> },
    AndOr { l: Box<C>, or: bool, r: Box<C> },
    Async(Box<C>),
    FuncDef(Box<C>),
    Redirected(Box<C>, Redir),
}

const CMD_NAMES: [&str; 4] = ["c1", "c2", "probe", "true"];
const BRACED_OPS: [&str; 12] = [":-", "-", ":=", "=", ":+", "+", ":?", "?", "#", "##", "%", "%%"];
const BQ_TEXTS: [&str; 5] = ["c1", "c1 \\`c2 a\\`", "c1 \\$v1", "c1 '\\\\'", "c1 \"a b\""];
const AR_TEXTS: [&str; 6] = ["1+2", "v1*2", "$v1 + (2)", "1<<2", "v1=3, v1", "(1 > 2) ? v1 : 0"];
const TILDES: [&str; 4] = ["~", "~/a", "~a/Z", "~+"];
const REDIR_OPS: [&str; 7] = [">", ">>", "<", ">|", "<>", ">&", "<&"];
const CASE_TERMS: [&str; 3] = [";;", ";&", ";;&"];

fn dq_escape(s: &str, out: &mut String) {
    for c in s.chars() {
        if matches!(c, '"' | '$' | '`' | '\\') {
            out.push('\\');
        }
        out.push(c);
    }
}

fn render_simple(s: &Simple) -> String {
    let mut parts: Vec<String> = vec![];
    if let Some(k) = s.kw {
        if s.redirs.is_empty() {
            parts.push(">/dev/null".to_string());
        }
        for r in &s.redirs {
            parts.push(render_redir(r));
        }
        parts.push(KW_NAMES[k as usize % KW_NAMES.len()].to_string());
        for a in &s.args {
            let t = render_word(a);
            if !t.is_empty() {
                parts.push(t);
            }
        }
        return parts.join(" ");
    }
    for (n, w) in &s.assigns {
        parts.push(format!("v{}={}", n % 4 + 1, render_word(w)));
    }
    if let Some(n) = s.name {
        parts.push(CMD_NAMES[n as usize % CMD_NAMES.len()].to_string());
        for a in &s.args {
            let t = render_word(a);
            if !t.is_empty() {
                parts.push(t);
            }
        }
    }
    for r in &s.redirs {
        parts.push(render_redir(r));
    }
    if parts.is_empty() {
        parts.push("true".to_string());
    }
    parts.join(" ")
}

fn render_redir(r: &Redir) -> String {
    let mut t = String::new();
    if let Some(fd) = r.fd {
        t.push_str(&(fd % 13).to_string());
    }
    t.push_str(REDIR_OPS[r.op as usize % REDIR_OPS.len()]);
    let w = render_word(&r.target);
    if w.is_empty() {
        t.push_str("''");
    } else {
        t.push_str(&w);
    }
    t
}

fn render_word(w: &[W]) -> String {
    let mut o = String::new();
    for (i, p) in w.iter().enumerate() {
        match p {
            W::Bare(s) => o.push_str(s),
            W::Sq(s) => o.push_str(&sq(s)),
            W::Dq(ds) => {
                o.push('"');
                for d in ds {
                    match d {
                        D::Lit(s) => dq_escape(s, &mut o),
                        D::Var(n) => o.push_str(&format!("$v{}", n % 4 + 1)),
                        D::BracedVar(n) => o.push_str(&format!("${{v{}}}", n % 4 + 1)),
                        D::Cs(s) => o.push_str(&format!("$({})", render_simple(s))),
                        D::Ar(n) => o.push_str(&format!("$(({}))", AR_TEXTS[*n as usize % AR_TEXTS.len()])),
                    }
                }
                o.push('"');
            }
            W::Esc(c) => {
                o.push('\\');
                o.push(if *c == '\n' { 'n' } else { *c });
            }
            W::Var(n) => o.push_str(&format!("$v{}", n % 4 + 1)),
            W::Len(n) => o.push_str(&format!("${{#v{}}}", n % 4 + 1)),
            W::Braced { n, op, word } => {
                o.push_str(&format!("${{v{}{}{}}}", n % 4 + 1, BRACED_OPS[*op as usize % BRACED_OPS.len()], render_word(word)))
            }
            W::Cs(s) => o.push_str(&format!("$({})", render_simple(s))),
            W::Bq(n) => o.push_str(&format!("`{}`", BQ_TEXTS[*n as usize % BQ_TEXTS.len()])),
            W::Ar(n) => o.push_str(&format!("$(({}))", AR_TEXTS[*n as usize % AR_TEXTS.len()])),
            W::Dsq(es) => {
                o.push_str("$'");
                for e in es {
                    match e {
                        E::Lit(c) if *c == '\'' || *c == '\\' => {
                            o.push('\\');
                            o.push(*c);
                        }
                        E::Lit(c) => o.push(*c),
                        E::Named(c) => {
                            o.push('\\');
                            o.push(*c);
                        }
                        E::Ctrl(c) => {
                            o.push_str("\\c");
                            if *c == '\\' {
                                o.push_str("\\\\");
                            } else {
                                o.push(*c);
                            }
                        }
                        E::Hex(n) => o.push_str(&format!("\\x{:02x}", (*n).max(1))),
                        E::Oct(n) => o.push_str(&format!("\\{:03o}", (*n).max(1))),
                        E::Uni(n) => o.push_str(&format!("\\u{:04x}", (*n).clamp(1, 0xd7ff))),
                    }
                }
                o.push('\'');
            }
            W::Tilde(n) => {
                if i == 0 {
                    o.push_str(TILDES[*n as usize % TILDES.len()]);
                } else {
                    o.push('~');
                }
            }
        }
    }
    o
}

fn is_compound(c: &C) -> bool {
    matches!(c, C::Brace(_) | C::Sub(_) | C::If { .. } | C::Loop { .. } | C::For { .. } | C::Case { .. })
}

fn braces(c: &C) -> String {
    format!("{{ {} }}", seq(std::slice::from_ref(c)))
}

/// Each command followed by `;` (or ending in `&`), separated by spaces.
fn seq(cs: &[C]) -> String {
    let mut parts = vec![];
    for c in cs {
        let t = render_c(c);
        if matches!(c, C::Async(_)) {
            parts.push(t);
        } else {
            parts.push(format!("{t};"));
        }
    }
    if parts.is_empty() {
        parts.push("true;".into());
    }
    parts.join(" ")
}

fn render_compound(c: &C) -> String {
    match c {
        C::Redirected(inner, _) if is_compound(inner) => render_c(c),
        c if is_compound(c) => render_c(c),
        c => braces(c),
    }
}

pub fn render_c(c: &C) -> String {
    match c {
        C::Simple(s) => render_simple(s),
        C::Brace(cs) => format!("{{ {} }}", seq(cs)),
        C::Sub(cs) => format!("( {} )", seq(cs)),
        C::If { cond, then, elif, els } => {
            let mut t = format!("if {} then {}", seq(std::slice::from_ref(cond)), seq(then));
            if let Some((c2, b2)) = elif {
                t.push_str(&format!(" elif {} then {}", seq(std::slice::from_ref(c2)), seq(b2)));
            }
            if let Some(e) = els {
                t.push_str(&format!(" else {}", seq(e)));
            }
            t.push_str(" fi");
            t
        }
        C::Loop { until, cond, body } => {
            format!("{} {} do {} done", if *until { "until" } else { "while" }, seq(std::slice::from_ref(cond)), seq(body))
        }
        C::For { words, body } => match words {
            None => format!("for i do {} done", seq(body)),
            Some(ws) => {
                let mut t = "for i in".to_string();
                for w in ws {
                    let x = render_word(w);
                    if !x.is_empty() {
                        t.push(' ');
                        t.push_str(&x);
                    }
                }
                format!("{t}; do {} done", seq(body))
            }
        },
        C::Case { subject, items } => {
            let s = render_word(subject);
            let mut t = format!("case {} in", if s.is_empty() { "''".to_string() } else { s });
            for it in items {
                let pats: Vec<String> = it
                    .pats
                    .iter()
                    .map(|p| {
                        let x = render_word(p);
                        if x.is_empty() { "''".to_string() } else { x }
                    })
                    .collect();
                let pats = if pats.is_empty() { "*".to_string() } else { pats.join("|") };
                t.push_str(&format!(" ({pats})"));
                if !it.body.is_empty() {
                    t.push(' ');
                    t.push_str(&seq(&it.body));
                }
                t.push(' ');
                t.push_str(CASE_TERMS[it.term as usize % CASE_TERMS.len()]);
            }
            t.push_str(" esac");
            t
        }
        C::Pipe { neg, cmds } => {
            let parts: Vec<String> = cmds
                .iter()
                .map(|c| match c {
                    C::Pipe { .. } | C::AndOr { .. } | C::Async(_) | C::FuncDef(_) => braces(c),
                    c => render_c(c),
                })
                .collect();
            let body = if parts.is_empty() { "true".to_string() } else { parts.join(" | ") };
            format!("{}{}", if *neg { "! " } else { "" }, body)
        }
        C::AndOr { l, or, r } => {
            let side = |c: &C| match c {
                C::AndOr { .. } | C::Async(_) => braces(c),
                c => render_c(c),
            };
            format!("{} {} {}", side(l), if *or { "||" } else { "&&" }, side(r))
        }
        C::Async(inner) => match &**inner {
            C::Async(_) => format!("{} &", braces(inner)),
            c => format!("{} &", render_c(c)),
        },
        C::FuncDef(inner) => format!("f9() {}", render_compound(inner)),
        C::Redirected(inner, r) => {
            if is_compound(inner) {
                format!("{} {}", render_c(inner), render_redir(r))
            } else {
                format!("{} {}", braces(inner), render_redir(r))
            }
        }
    }
}

// ---------------------------------------------------------------------------------------------
// Rendering the definitions

/// Renders the definitions of the case. Operations that would be errors by design (assigning a
/// read-only variable, redefining a read-only function, marking an undefined function) are
/// dropped so that shell 1 runs to its end.
pub fn render_defs(c: &ListCase) -> String {
    let mut s = String::new();
    let mut ro = [false; 4];
    let mut funcs: BTreeMap<String, bool> = BTreeMap::new();
    let mut portable: Option<bool> = None;
    let name = |n: u8| format!("v{}", n % 4 + 1);
    let idx = |n: u8| (n % 4) as usize;
    for op in &c.ops {
        match op {
            Op::Assign { n, v } => {
                if !ro[idx(*n)] {
                    s.push_str(&format!("{}={}\n", name(*n), sq(v)));
                }
            }
            Op::AssignArray { n, vs } => {
                if !ro[idx(*n)] {
                    let items: Vec<String> = vs.iter().map(|v| sq(v)).collect();
                    s.push_str(&format!("{}=({})\n", name(*n), items.join(" ")));
                }
            }
            Op::Export { n, v } => match v {
                Some(v) if !ro[idx(*n)] => s.push_str(&format!("export {}={}\n", name(*n), sq(v))),
                Some(_) => {}
                None => s.push_str(&format!("export {}\n", name(*n))),
            },
            Op::Readonly { n, v } => match v {
                Some(v) if !ro[idx(*n)] => {
                    s.push_str(&format!("readonly {}={}\n", name(*n), sq(v)));
                    ro[idx(*n)] = true;
                }
                Some(_) => {}
                None => {
                    s.push_str(&format!("readonly {}\n", name(*n)));
                    ro[idx(*n)] = true;
                }
            },
            Op::TypesetOdd { name, x, v } => {
                let n = ODD_NAMES[*name as usize % ODD_NAMES.len()];
                s.push_str(&format!("typeset {}-- {}={}\n", if *x { "-x " } else { "" }, sq(n), sq(v)));
            }
            Op::Typeset { n, x, r, v } => {
                if v.is_some() && ro[idx(*n)] {
                    continue;
                }
                let mut t = "typeset ".to_string();
                if *x {
                    t.push_str("-x ");
                }
                if *r {
                    t.push_str("-r ");
                }
                t.push_str(&name(*n));
                if let Some(v) = v {
                    t.push('=');
                    t.push_str(&sq(v));
                }
                t.push('\n');
                s.push_str(&t);
                if *r {
                    ro[idx(*n)] = true;
                }
            }
            Op::Alias { name, v } => {
                s.push_str(&format!("alias -- {}\n", sq(&format!("{}={}", name.text(), v))));
            }
            Op::Func { name, body } => {
                let key = name.text();
                if funcs.get(&key) == Some(&true) {
                    continue;
                }
                s.push_str(&format!("{}() {}\n", name.source(), render_compound(body)));
                funcs.insert(key, false);
            }
            Op::FuncReadonly { name } => {
                let key = name.text();
                if funcs.contains_key(&key) {
                    s.push_str(&format!("typeset -fr -- {}\n", name.source()));
                    funcs.insert(key, true);
                }
            }
            Op::SetOpt { opt, on } => {
                let o = OPTS[*opt as usize % OPTS.len()];
                if o == "portable" {
                    portable = Some(*on);
                } else {
                    s.push_str(&format!("set {}o {}\n", if *on { '-' } else { '+' }, o));
                }
            }
            Op::Trap { act, cond } => {
                let a = match act {
                    TrapAct::Default => "-".to_string(),
                    TrapAct::Ignore => "''".to_string(),
                    TrapAct::Cmd(t) => sq(t),
                };
                s.push_str(&format!("trap -- {} {}\n", a, CONDS[*cond as usize % CONDS.len()]));
            }
            Op::Umask { mode } => {
                s.push_str(&format!("umask -- {}\n", mode.text()));
            }
        }
    }
    if c.printer == Printer::SetPlusO && portable == Some(true) {
        s.push_str("set -o portable\n");
    }
    s
}

const MARK: &str = "=====MARKq7w=====";
const END: &str = "=====ENDq7w=====";

/// Splits a listing into its top-level lines (newlines inside quotes do not separate). This is
/// the harness' own reading of POSIX quoting (XCU 2.2).
fn top_level_lines(text: &str) -> Vec<String> {
    #[derive(PartialEq)]
    enum St {
        Bare,
        Sq,
        Dq,
    }
    let mut out = vec![];
    let mut cur = String::new();
    let mut st = St::Bare;
    let mut it = text.chars();
    while let Some(c) = it.next() {
        match st {
            St::Bare => match c {
                '\n' => {
                    out.push(std::mem::take(&mut cur));
                    continue;
                }
                '\\' => {
                    cur.push(c);
                    if let Some(n) = it.next() {
                        cur.push(n);
                    }
                    continue;
                }
                '\'' => st = St::Sq,
                '"' => st = St::Dq,
                _ => {}
            },
            St::Sq => {
                if c == '\'' {
                    st = St::Bare;
                }
            }
            St::Dq => match c {
                '\\' => {
                    cur.push(c);
                    if let Some(n) = it.next() {
                        cur.push(n);
                    }
                    continue;
                }
                '"' => st = St::Bare,
                _ => {}
            },
        }
        cur.push(c);
    }
    if !cur.is_empty() {
        out.push(cur);
    }
    out
}

// ---------------------------------------------------------------------------------------------
// The check

type VarView = BTreeMap<String, (Option<Vec<String>>, bool, bool, bool)>;

pub const ODD_NAMES: [&str; 5] = ["-n", "-a b", "a b", "q$", "-x~"];
const MY_VARS: [&str; 9] = ["v1", "v2", "v3", "v4", "-n", "-a b", "a b", "q$", "-x~"];

fn my_vars(s: &Snap) -> VarView {
    s.vars.iter().filter(|(k, _)| MY_VARS.contains(&k.as_str())).map(|(k, v)| (k.clone(), v.clone())).collect()
}

fn traps_of(s: &Snap) -> BTreeMap<String, String> {
    s.traps.iter().filter(|(_, a)| a.as_str() != "-").map(|(k, v)| (k.clone(), v.clone())).collect()
}

fn options_of(s: &Snap) -> BTreeMap<String, bool> {
    s.options.iter().filter(|(n, _)| !UNMODIFIABLE.contains(&n.as_str())).cloned().collect()
}

struct Listed {
    entries: usize,
    strings: Vec<String>,
    array: bool,
    valueless: bool,
}

fn check_listing(c: &ListCase) -> Outcome {
    let defs = render_defs(c);
    if defs.contains("MARKq7w") || defs.contains("ENDq7w") {
        return Outcome::skip("a generated string contains the harness' marker");
    }
    let p = c.printer;
    let script1 = format!("{defs}snap before\necho {MARK}\n{}\necho {END}\n", p.command());
    let r1 = vsys::run(&vsys::Setup::script(&script1));
    if let Some(pn) = &r1.panic {
        return Outcome::fail(format!("panic in shell 1 running {script1:?}: {pn}"));
    }
    if !r1.finished {
        return Outcome::fail(format!("shell 1 did not finish: {script1:?}"));
    }
    let Some(before) = r1.snaps.iter().find(|s| s.tag == "before") else {
        return Outcome::skip("the definitions did not run to their end in shell 1");
    };
    let mark_line = format!("{MARK}\n");
    let end_line = format!("{END}\n");
    let (Some(a), Some(b)) = (r1.stdout.find(&mark_line), r1.stdout.rfind(&end_line)) else {
        return Outcome::fail(format!(
            "`{}` did not complete in shell 1 (status {}): stdout {:?} stderr {:?}; script {:?}",
            p.command(), r1.status, r1.stdout, r1.stderr, script1
        ));
    };
    if a != 0 {
        return Outcome::skip("the definitions printed something");
    }
    let listing = &r1.stdout[a + mark_line.len()..b.max(a + mark_line.len())];
    let mask1 = r1.proc_snaps.iter().find(|(t, _)| t == "before").map(|(_, i)| i.umask & 0o777);

    // shell 2
    let script2 = match p {
        Printer::Alias => {
            let entries = top_level_lines(listing);
            if entries.is_empty() {
                "snap after\n".to_string()
            } else {
                format!("alias -- {}\nsnap after\n", entries.join(" "))
            }
        }
        Printer::Umask | Printer::UmaskS => format!("umask {}\nsnap after\n", listing.trim_end_matches('\n')),
        // the leading newline keeps a listing that starts with `-` from being taken as an option of
        // `yash -c`
        _ => format!("\n{listing}snap after\n"),
    };
    let mut setup2 = vsys::Setup::script(&script2);
    let init2 = mask1.map(|m| !m & 0o777);
    setup2.umask = init2;
    let r2 = vsys::run(&setup2);
    let ctx = |what: &str| {
        format!(
            "{what}\n  printer: {}\n  definitions: {:?}\n  listing: {:?}\n  shell 2 stderr: {:?}",
            p.command(), defs, listing, r2.stderr
        )
    };
    if let Some(pn) = &r2.panic {
        return Outcome::fail(ctx(&format!("panic in shell 2: {pn}")));
    }
    if !r2.finished {
        return Outcome::fail(ctx("shell 2 did not finish"));
    }
    let fn_tags = || {
        if p != Printer::TypesetFp {
            return String::new();
        }
        let mut t = String::new();
        if before.functions.keys().any(|n| my_needs_quoting(n)) {
            t.push_str(" [function-name-needs-quoting]");
        }
        if before.functions.keys().any(|n| RESERVED.contains(&n.as_str())) {
            t.push_str(" [function-name-is-reserved-word]");
        }
        if before.functions.values().any(|f| f.0.contains("\\c\\")) {
            t.push_str(" [body-has-control-backslash]");
        }
        t
    };
    let Some(after) = r2.snaps.iter().find(|s| s.tag == "after") else {
        return Outcome::fail(ctx(&format!(
            "the fresh shell could not evaluate the listing (status {}){}",
            r2.status,
            fn_tags()
        )));
    };
    if after.status != 0 {
        return Outcome::fail(ctx(&format!("evaluating the listing ended with status {}{}", after.status, fn_tags())));
    }

    // comparison of the listed component
    let mut listed = Listed { entries: 0, strings: vec![], array: false, valueless: false };
    let note_var = |l: &mut Listed, v: &(Option<Vec<String>>, bool, bool, bool)| {
        l.entries += 1;
        match &v.0 {
            Some(vals) => l.strings.extend(vals.iter().cloned()),
            None => l.valueless = true,
        }
        l.array |= v.3;
    };
    let mismatch: Option<String> = match p {
        Printer::Alias => {
            listed.entries = before.aliases.len();
            for (n, (v, _)) in &before.aliases {
                listed.strings.push(n.clone());
                listed.strings.push(v.clone());
            }
            (before.aliases != after.aliases)
                .then(|| format!("aliases before {:?}, recreated {:?}", before.aliases, after.aliases))
        }
        Printer::ExportP | Printer::ReadonlyP => {
            let pick = |v: &(Option<Vec<String>>, bool, bool, bool)| if p == Printer::ExportP { v.1 } else { v.2 };
            let want: BTreeMap<String, (Option<Vec<String>>, bool, bool)> =
                my_vars(before).into_iter().filter(|(_, v)| pick(v)).map(|(k, v)| (k, (v.0.clone(), v.3, true))).collect();
            let got: BTreeMap<String, (Option<Vec<String>>, bool, bool)> =
                my_vars(after).into_iter().map(|(k, v)| (k, (v.0.clone(), v.3, pick(&v)))).collect();
            for (_, v) in my_vars(before).iter().filter(|(_, v)| pick(v)) {
                note_var(&mut listed, v);
            }
            (want != got).then(|| {
                format!(
                    "{} variables before (name -> value, is_array, attribute) {:?}, recreated {:?}",
                    if p == Printer::ExportP { "exported" } else { "read-only" },
                    want, got
                )
            })
        }
        Printer::TypesetP => {
            let want = my_vars(before);
            let got = my_vars(after);
            for v in want.values() {
                note_var(&mut listed, v);
            }
            (want != got).then(|| {
                format!("variables before (name -> value, exported, read-only, is_array) {want:?}, recreated {got:?}")
            })
        }
        Printer::SetVars => {
            let view = |s: &Snap| -> BTreeMap<String, (Vec<String>, bool)> {
                my_vars(s).into_iter().filter_map(|(k, v)| v.0.clone().map(|x| (k, (x, v.3)))).collect()
            };
            // `set` lists only variables whose names are valid identifiers
            // (set.rs filters with IsName; anything else could not be re-input
            // as an assignment), so only those are "what it lists".
            let mut want = view(before);
            want.retain(|k, _| yash_syntax::parser::lex::is_name(k));
            let got = view(after);
            for (_, v) in my_vars(before).iter().filter(|(k, v)| v.0.is_some() && yash_syntax::parser::lex::is_name(k)) {
                note_var(&mut listed, v);
            }
            (want != got).then(|| format!("variables before (name -> value, is_array) {want:?}, recreated {got:?}"))
        }
        Printer::TypesetFp => {
            listed.entries = before.functions.len();
            for (b, _) in before.functions.values() {
                if b.contains(['\'', '"', '\\']) {
                    listed.strings.push("'".into());
                }
            }
            (before.functions != after.functions).then(|| {
                format!(
                    "functions before (name -> printed body, read-only) {:?}, recreated {:?}{}",
                    before.functions, after.functions, fn_tags()
                )
            })
        }
        Printer::SetPlusO => {
            let want = options_of(before);
            let got = options_of(after);
            listed.entries = want.iter().filter(|(n, on)| DEFAULT_ON.contains(&n.as_str()) != **on).count();
            (want != got).then(|| {
                let diff: Vec<_> = want.iter().filter(|(k, v)| got.get(*k) != Some(v)).collect();
                format!("options differ after recreation (name, state before): {diff:?}")
            })
        }
        Printer::Trap => {
            let want = traps_of(before);
            let got = traps_of(after);
            listed.entries = want.len();
            listed.strings.extend(want.values().cloned());
            (want != got).then(|| format!("traps before {want:?}, recreated {got:?}"))
        }
        Printer::Umask | Printer::UmaskS => {
            let mask2 = r2.proc_snaps.iter().find(|(t, _)| t == "after").map(|(_, i)| i.umask & 0o777);
            listed.entries = c.ops.iter().filter(|o| matches!(o, Op::Umask { .. })).count();
            (mask1.is_none() || mask1 != mask2).then(|| {
                format!("mask before {:?} (octal {:03o}), recreated {:?} from initial {:?}", mask1, mask1.unwrap_or(0), mask2, init2)
            })
        }
    };
    if let Some(m) = mismatch {
        return Outcome::fail(ctx(&format!("`{}` output does not recreate what it lists: {m}", p.command())));
    }

    let needs = listed.strings.iter().any(|s| my_needs_quoting(s));
    let nontrivial = match p {
        Printer::Umask | Printer::UmaskS => listed.entries >= 1,
        Printer::SetPlusO => listed.entries >= 2,
        _ => listed.entries >= 2 && needs,
    };
    let has_style = |st: &str| listed.strings.iter().any(|s| my_style(s) == st);
    let quoting_printer = !matches!(p, Printer::Umask | Printer::UmaskS | Printer::SetPlusO | Printer::TypesetFp);
    Outcome::pass(nontrivial)
        .class(p.label())
        .class_if(nontrivial, p.nt_label())
        .class(match listed.entries {
            0 => "entries:0",
            1 => "entries:1",
            _ => "entries:2+",
        })
        .class_if(quoting_printer && has_style("style:bare"), "style:bare")
        .class_if(quoting_printer && has_style("style:single"), "style:single")
        .class_if(quoting_printer && has_style("style:double"), "style:double")
        .class_if(quoting_printer && listed.strings.iter().any(|s| has_nonascii_blank(s)), "non-ascii-blank")
        .class_if(quoting_printer && listed.strings.iter().any(|s| s.contains('\n')), "newline-in-value")
        .class_if(listed.array, "array")
        .class_if(listed.valueless, "valueless-variable")
        .class_if(p == Printer::Alias && before.aliases.keys().any(|n| my_needs_quoting(n)), "alias-name-needs-quoting")
        .class_if(p == Printer::TypesetFp && before.functions.values().any(|f| f.1), "read-only-function")
        .class_if(p == Printer::TypesetFp && before.functions.values().any(|f| f.0.contains('\n')), "newline-in-function-body")
        .class_if(p == Printer::TypesetFp && before.functions.values().any(|f| f.0.contains("$'")), "dollar-single-quote-in-body")
        .class_if(p == Printer::SetPlusO && before.options.iter().any(|(n, on)| n == "portable" && *on), "portable-on")
}

/// Known findings of `typeset -fp` for function names that are not plain names.
fn known_listing(c: &ListCase, msg: &str) -> Option<&'static str> {
    // a trap action (run when the shell exits) ending in `${`: the lexer panics at end of input
    if msg.contains("panic") && msg.contains("lex/braced_param.rs") && msg.contains("Option::unwrap()") {
        return Some("lexer-panic-dollar-brace-at-end-of-input");
    }
    if c.printer != Printer::TypesetFp {
        return None;
    }
    if msg.contains("[function-name-needs-quoting]") && msg.contains("`function` keyword is not yet supported") {
        return Some("typeset-fp-function-keyword");
    }
    if msg.contains("[function-name-is-reserved-word]") && msg.contains("could not evaluate the listing") {
        return Some("typeset-fp-reserved-word-name");
    }
    if msg.contains("[body-has-control-backslash]") {
        return Some("dsq-control-backslash-display");
    }
    None
}

pub static LISTING: Driver<ListCase> = Driver::new("C07", "listing", check_listing).with_known(known_listing);

// ---------------------------------------------------------------------------------------------
// Generators for the listing driver

fn arb_val() -> BoxedStrategy<String> {
    prop_oneof![
        6 => arb_alpha_string(4),
        2 => arb_alpha_string(12),
        1 => arb_string(40),
    ]
    .boxed()
}

fn arb_word(depth: u32) -> BoxedStrategy<Vec<W>> {
    let bare = prop::collection::vec(prop::sample::select(vec!['a', 'Z', '0', ',', '-', '%', '^', ':', '+', '/', '.', '@', '_']), 1..=3)
        .prop_map(|v| W::Bare(v.into_iter().collect()));
    let sqs = arb_alpha_string(4).prop_map(W::Sq);
    let esc = prop::sample::select(ALPHA.to_vec()).prop_map(W::Esc);
    let dlit = arb_alpha_string(3).prop_map(D::Lit);
    let e = prop_oneof![
        128 => prop::sample::select(ALPHA.to_vec()).prop_map(E::Lit),
        96 => prop::sample::select("abefnrtv\\'\"?".chars().collect::<Vec<_>>()).prop_map(E::Named),
        64 => prop::sample::select("@AZ[]^_?az".chars().collect::<Vec<_>>()).prop_map(E::Ctrl),
        // rare: every such case hits the known finding dsq-control-backslash-display
        1 => Just(E::Ctrl('\\')),
        32 => (1u8..=255).prop_map(E::Hex),
        32 => (1u8..=255).prop_map(E::Oct),
        32 => (1u16..=0xd7ff).prop_map(E::Uni),
    ];
    let dsq = prop::collection::vec(e, 0..=4).prop_map(W::Dsq);
    if depth == 0 {
        let d = prop_oneof![3 => dlit, 1 => (0u8..4).prop_map(D::Var), 1 => (0u8..4).prop_map(D::BracedVar), 1 => (0u8..6).prop_map(D::Ar)];
        let piece = prop_oneof![
            4 => bare,
            3 => sqs,
            3 => prop::collection::vec(d, 0..=3).prop_map(W::Dq),
            2 => esc,
            1 => (0u8..4).prop_map(W::Var),
            1 => (0u8..4).prop_map(W::Len),
            1 => (0u8..5).prop_map(W::Bq),
            1 => (0u8..6).prop_map(W::Ar),
            2 => dsq,
            1 => (0u8..4).prop_map(W::Tilde),
        ];
        return prop::collection::vec(piece, 1..=3).boxed();
    }
    let simple0 = || arb_simple(0).prop_map(Box::new);
    let d = prop_oneof![
        3 => dlit,
        1 => (0u8..4).prop_map(D::Var),
        1 => (0u8..4).prop_map(D::BracedVar),
        1 => simple0().prop_map(D::Cs),
        1 => (0u8..6).prop_map(D::Ar),
    ];
    let piece = prop_oneof![
        4 => bare,
        3 => sqs,
        3 => prop::collection::vec(d, 0..=3).prop_map(W::Dq),
        2 => esc,
        1 => (0u8..4).prop_map(W::Var),
        1 => (0u8..4).prop_map(W::Len),
        2 => (0u8..4, 0u8..12, arb_word(0)).prop_map(|(n, op, word)| W::Braced { n, op, word }),
        2 => simple0().prop_map(W::Cs),
        1 => (0u8..5).prop_map(W::Bq),
        1 => (0u8..6).prop_map(W::Ar),
        2 => dsq,
        1 => (0u8..4).prop_map(W::Tilde),
    ];
    prop::collection::vec(piece, 1..=3).boxed()
}

fn arb_redir(depth: u32) -> BoxedStrategy<Redir> {
    (prop::option::weighted(0.4, 0u8..13), 0u8..7, arb_word(depth.min(1)))
        .prop_map(|(fd, op, target)| Redir { fd, op, target })
        .boxed()
}

fn arb_simple(depth: u32) -> BoxedStrategy<Simple> {
    (
        prop::collection::vec((0u8..4, arb_word(depth)), 0..=1),
        prop::option::weighted(0.9, 0u8..4),
        prop::collection::vec(arb_word(depth), 0..=3),
        prop::collection::vec(arb_redir(depth), 0..=1),
        prop::option::weighted(0.06, 0u8..14),
    )
        .prop_map(|(assigns, name, args, redirs, kw)| Simple { assigns, name, args, redirs, kw })
        .boxed()
}

fn arb_c(depth: u32) -> BoxedStrategy<C> {
    let simple = arb_simple(1).prop_map(C::Simple);
    if depth == 0 {
        return simple.boxed();
    }
    let sub = || arb_c(depth - 1);
    let list = |max: usize| prop::collection::vec(arb_c(depth - 1), 1..=max);
    let item = (prop::collection::vec(arb_word(1), 1..=2), prop::collection::vec(arb_c(depth - 1), 0..=2), 0u8..3)
        .prop_map(|(pats, body, term)| CaseItem { pats, body, term });
    prop_oneof![
        5 => simple,
        2 => list(3).prop_map(C::Brace),
        2 => list(2).prop_map(C::Sub),
        2 => (sub(), list(2), prop::option::weighted(0.3, (sub().prop_map(Box::new), list(1))), prop::option::weighted(0.4, list(2)))
            .prop_map(|(cond, then, elif, els)| C::If { cond: Box::new(cond), then, elif, els }),
        2 => (any::<bool>(), sub(), list(2)).prop_map(|(until, cond, body)| C::Loop { until, cond: Box::new(cond), body }),
        2 => (prop::option::weighted(0.8, prop::collection::vec(arb_word(1), 0..=3)), list(2))
            .prop_map(|(words, body)| C::For { words, body }),
        3 => (arb_word(1), prop::collection::vec(item, 0..=3)).prop_map(|(subject, items)| C::Case { subject, items }),
        2 => (any::<bool>(), list(3)).prop_map(|(neg, cmds)| C::Pipe { neg, cmds }),
        2 => (sub(), any::<bool>(), sub()).prop_map(|(l, or, r)| C::AndOr { l: Box::new(l), or, r: Box::new(r) }),
        1 => sub().prop_map(|c| C::Async(Box::new(c))),
        1 => sub().prop_map(|c| C::FuncDef(Box::new(c))),
        2 => (sub(), arb_redir(1)).prop_map(|(c, r)| C::Redirected(Box::new(c), r)),
    ]
    .boxed()
}

fn arb_func_name() -> BoxedStrategy<FuncName> {
    prop_oneof![
        80 => (1u8..=3).prop_map(FuncName::Plain),
        1 => (0u8..SPECIAL_FUNC_NAMES.len() as u8).prop_map(FuncName::Special),
    ]
    .boxed()
}

fn arb_alias_name() -> BoxedStrategy<AliasName> {
    prop_oneof![
        5 => (1u8..=3).prop_map(AliasName::Plain),
        1 => arb_alpha_string(3).prop_map(|s| AliasName::Special(s.replace('=', ":"))),
    ]
    .boxed()
}

fn arb_umask_mode() -> BoxedStrategy<UmaskMode> {
    prop_oneof![
        1 => (0u16..0o1000).prop_map(UmaskMode::Octal),
        1 => prop::collection::vec((0u8..8, 0u8..3, 0u8..8), 1..=3).prop_map(UmaskMode::Symbolic),
    ]
    .boxed()
}

/// Weights of the operation kinds per printer: the listed component is favoured, everything
/// else still occurs (it must not disturb the listing).
fn arb_op(p: Printer) -> BoxedStrategy<Op> {
    // [assign, array, export, readonly, typeset, alias, func, funcro, setopt, trap, umask]
    let w: [u32; 11] = match p {
        Printer::Alias => [1, 1, 1, 1, 1, 14, 1, 1, 1, 1, 1],
        Printer::ExportP => [3, 3, 8, 2, 6, 1, 1, 1, 2, 1, 1],
        Printer::ReadonlyP => [3, 3, 2, 8, 6, 1, 1, 1, 1, 1, 1],
        Printer::TypesetP => [5, 5, 4, 3, 6, 1, 1, 1, 2, 1, 1],
        Printer::SetVars => [6, 6, 3, 3, 4, 1, 1, 1, 2, 1, 1],
        Printer::TypesetFp => [1, 1, 1, 1, 1, 2, 14, 3, 1, 1, 1],
        Printer::SetPlusO => [1, 1, 1, 1, 1, 1, 1, 1, 16, 1, 1],
        Printer::Trap => [1, 1, 1, 1, 1, 1, 1, 1, 1, 16, 1],
        Printer::Umask | Printer::UmaskS => [1, 1, 1, 1, 1, 1, 1, 1, 1, 1, 8],
    };
    let n = || 0u8..4;
    let optv = || prop::option::weighted(0.75, arb_val());
    prop_oneof![
        w[0] => (n(), arb_val()).prop_map(|(n, v)| Op::Assign { n, v }),
        w[1] => (n(), prop::collection::vec(arb_val(), 0..=3)).prop_map(|(n, vs)| Op::AssignArray { n, vs }),
        w[2] => (n(), optv()).prop_map(|(n, v)| Op::Export { n, v }),
        w[3] => (n(), optv()).prop_map(|(n, v)| Op::Readonly { n, v }),
        w[4] => (n(), any::<bool>(), prop::bool::weighted(0.3), optv()).prop_map(|(n, x, r, v)| Op::Typeset { n, x, r, v }),
        (w[4] / 2).max(if w[4] > 0 { 1 } else { 0 }) => (0u8..5, any::<bool>(), arb_val()).prop_map(|(name, x, v)| Op::TypesetOdd { name, x, v }),
        w[5] => (arb_alias_name(), arb_val()).prop_map(|(name, v)| Op::Alias { name, v }),
        w[6] => (arb_func_name(), arb_c(2)).prop_map(|(name, body)| Op::Func { name, body }),
        w[7] => arb_func_name().prop_map(|name| Op::FuncReadonly { name }),
        w[8] => (0u8..OPTS.len() as u8, any::<bool>()).prop_map(|(opt, on)| Op::SetOpt { opt, on }),
        w[9] => (
            prop_oneof![1 => Just(TrapAct::Default), 2 => Just(TrapAct::Ignore), 8 => arb_val().prop_map(TrapAct::Cmd)],
            0u8..CONDS.len() as u8
        )
            .prop_map(|(act, cond)| Op::Trap { act, cond }),
        w[10] => arb_umask_mode().prop_map(|mode| Op::Umask { mode }),
    ]
    .boxed()
}

fn arb_list_case() -> BoxedStrategy<ListCase> {
    let per: Vec<BoxedStrategy<ListCase>> = PRINTERS
        .iter()
        .map(|&p| {
            prop::collection::vec(arb_op(p), 1..=10).prop_map(move |ops| ListCase { printer: p, ops }).boxed()
        })
        .collect();
    proptest::strategy::Union::new(per).boxed()
}

// ---------------------------------------------------------------------------------------------

pub fn run(ctx: &Ctx, st: &mut Stats) {
    // O1 exhaustive
    let maxlen = ctx.tier.pick(3, 4);
    let total = count_strings(ALPHA.len() as u64, maxlen);
    QUOTE.run_exhaustive(ctx, st, total, &|i| nth_string(maxlen, i).map(|s| QuoteCase { s }));
    st.extra.insert(
        "exhaustive_space".into(),
        serde_json::json!({"alphabet": ALPHA.len(), "max_length": maxlen, "strings": total}),
    );
    // O1 random
    QUOTE.run_random(ctx, st, ctx.tier.pick(20_000, 1_000_000), arb_quote_case);

    // O2 explicit lists: every mask, every single option toggle
    let mut list = vec![];
    for m in 0..0o1000u16 {
        for p in [Printer::Umask, Printer::UmaskS] {
            list.push(ListCase { printer: p, ops: vec![Op::Umask { mode: UmaskMode::Octal(m) }] });
        }
    }
    for opt in 0..OPTS.len() as u8 {
        for on in [false, true] {
            list.push(ListCase { printer: Printer::SetPlusO, ops: vec![Op::SetOpt { opt, on }] });
        }
    }
    LISTING.run_list_par(ctx, st, list);
    // O2 random
    LISTING.run_random(ctx, st, ctx.tier.pick(15_000, 750_000), arb_list_case);
    // coverage-guided tier over the quote round trip
    crate::fuzzing::tier_stage(ctx, st, &[("c07_quote", 40_000)]);
}

pub fn replay(driver: &str, case: &serde_json::Value) -> Result<(Outcome, Option<&'static str>), String> {
    match driver {
        "quote" => QUOTE.replay_known(case),
        "listing" => LISTING.replay_known(case),
        _ => Err(format!("unknown driver {driver}")),
    }
}
