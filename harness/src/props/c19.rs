//! C19 — the simulated OS and the real OS give the shell the same observable behaviour.
//! The same generic shell main + probe built-ins are hosted once on RealSystem (child process of
//! this binary, in a scratch directory) and once on VirtualSystem; outputs are diffed.

use crate::engine::*;
use crate::rsys::{self, Entry};
use crate::vsys::{self, FileSpec};
use proptest::prelude::*;
use serde::{Deserialize, Serialize};
use std::collections::BTreeMap;
use yash_env::system::r#virtual::FileBody;

pub const INFO: PropInfo = PropInfo {
    id: "C19",
    level: "exploration",
    rule: "cases = deterministic scripts of 3-10 statements from a catalogue of ~130 statement templates over the built-ins that exist on both systems plus probe built-ins: file creation/truncation/append/<> /noclobber through redirections, exec fd duplication and closing with later use, cd and ${PWD##*/}, globbing over created files and symlinks, pipelines whose consumers read to EOF, command substitution, here-documents, read, subshells changing cwd/umask, umask + file creation (modes compared), traps with self-signals, background jobs + wait/$!, pipefail, error cases (missing file, closed descriptor, directory in place of a file, path through a file). The same initial tree is materialised on both sides. Oracle (differential): stdout, exit status (incl. death by signal), stderr emptiness and the final tree (names, types, contents, permission bits) are identical. Non-trivial = the script has >= 3 statements and mutates the file system or creates a child process; distinct by serialised case.",
    assumptions: &[
        "no dependence on pids, times, uid, absolute paths or error message text; the sandbox runs as root, so permission-denied behaviour is not exercised",
        "the real OS runs each script under its one natural schedule",
    ],
};

pub const STATEMENTS: &[&str] = &[
    // redirections / files
    "echo A > f1", "echo B >> f1", "echo C >| f1", ": > f2", "cat < f1", "cat < f0", "cat < nofile", "echo x > d1", "echo x > f0/x",
    "echo x > nodir/x", "set -C", "set +C", "echo y > f0; echo $?", "echo y >| f0", "exec 3> f3", "echo via3 >&3", "exec 3>&-", "exec 4< f0",
    "cat <&4", "exec 4<&-", "echo z >&7; echo $?", "cat <&7; echo $?", "echo w 1<> f2", "echo ab 1<> f0", "cat < d1; echo $?", ": >> f0", "echo q > f1 > f2",
    "echo r 3> f3 >&3", "exec 5>&1; echo five >&5; exec 5>&-", "{ echo g1; echo g2; } > f4", "( echo s1 ) >> f4", "echo t >&3; echo $?",
    "exec 3>> f0", "cat f0 2>f9; echo $?", "echo e 2> f5 >&2", "cat <> f6; echo $?", "cat < /dev/null",
    // directories, globbing
    "cd d1", "cd \"$W\"", "cd d2", "cd ..; echo ${PWD##*/}; cd \"$W\"", "cd nodir; echo $?", "cd f0; echo $?", "echo ${PWD##*/}", "echo *", "echo d1/*", "echo f?", "echo [a-f]1", "echo */",
    "echo d1/a*", "echo .*", "echo \"*\"", "echo d?/b", "(cd d1; echo *; echo ${PWD##*/})", "echo nomatch*", "for i in *; do echo \"<$i>\"; done",
    "cd d1 && echo ../f*", "echo ./f0", "cd -P d1; echo ${PWD##*/}", "cd d1; cd ../d2; echo ${PWD##*/}",
    // symlinks
    "cat < l1", "echo l2/*", "cd l2 && echo ${PWD##*/} && echo *", "cat < l3; echo $?", "echo l*", "echo x > l1; cat f0", "echo y > l3; echo $?", "cd -P l2; echo ${PWD##*/}",
    "echo l2/", "echo l?/a",
    // pipes, substitutions, here-documents, read
    "echo a | cat", "echo a | cat | cat", "gen 3000 1 | cat > big", "gen 1500 0 | cat | cat >> big", "x=$(cat f0); echo \"[$x]\"", "echo \"$(echo in; echo in2)\"",
    "x=$(gen 700 2); echo ${#x}", "cat <<EOF\nhello ${PWD##*/}\nEOF", "cat <<'EOF'\nraw $x\nEOF", "cat <<-EOF\n\ttabbed\n\tEOF", "cat 3<<E <&3\nthree\nE", "exec 3<<E\npersist\nE\ncat <&3", "cat 4<<E <&4\nfour\nE", "cat <<E 3<&0 <&3\ndup\nE", "read v < f0; echo \"$v\"",
    "read a b < f0; echo \"$a|$b\"", "echo 'p q  r' > f1; read a b < f1; echo \"$a|$b\"", "read v < nofile; echo $?", "while read l; do echo \"[$l]\"; done < f0",
    "echo $(echo a | cat)", "st 7 | st 0; echo $?", "st 0 | st 7; echo $?", "set -o pipefail", "set +o pipefail", "! st 0; echo $?",
    // subshells, umask
    "( exit 5 ); echo $?", "(cd d1; : > made)", "(umask 077; : > m2); : > m3", "umask 027", "umask 022", ": > m1", "umask", "umask -S", "(umask)",
    "umask 0; : > m0", "x=1; (x=2; echo $x); echo $x",
    // signals, jobs
    "trap 'echo T' USR1", "kill -s USR1 $$; echo after", "trap '' USR2; kill -s USR2 $$; echo survived", "trap - USR1", "trap 'echo bye' EXIT",
    "{ st 3; } & wait $!; echo $?", "{ echo bg > f7; } & wait", "wait 99999; echo $?", "cat & wait; echo $?", "kill -s TERM $$", "kill -s INT $$; echo unreached",
    "trap 'echo int' INT; kill -s INT $$; echo $?", "(kill -s TERM $$; echo no); echo $?", "{ kill -s KILL $$; } | cat; echo $?", "exit 3", "st 9",
    "trap 'echo chld' CHLD; (exit 1); echo ok; trap - CHLD", "set -e; st 1; echo unreached", "kill -l TERM", "kill -0 $$; echo $?",
    // (appended later; the fixed prefixes in run() refer to statements by index)
    // transfers beyond the capacity of a real pipe (64 KiB): writers must block and be woken
    "gen 150000 1 | cat > huge", "x=$(gen 100000 0); echo ${#x}", "gen 70000 3 | cat | cat >> huge", "{ gen 66000 1; echo tail; } | cat > huge2",
    // a trapped signal arriving between two forks of one simple command
    "trap 'echo T1' USR1; x=$(kill -s USR1 $$)$(echo sub; exit 7); echo \"$x $?\"", "trap 'echo T3' USR2; echo $(kill -s USR2 $$; echo a) $(echo b)",
    "trap 'echo T4' USR1; : $(kill -s USR1 $$) | cat; echo after",
    // command search: a directory (or a non-executable file) with the command's name in PATH is not the command
    "PATH=$W:$PATH; d1; echo $?", "PATH=$W/d1:$W:$PATH d2; echo $?", "PATH=$W:$PATH; f0; echo $?",
    // signals whose default action is to be ignored, sent to the shell itself and to a child
    "(kill -s URG $$; echo alive); echo $?", "kill -s WINCH $$; echo $?", "kill -s CHLD $$; echo $?", "kill -s CONT $$; echo $?",
    "{ st 4; } & kill -s URG $!; wait $!; echo $?", "{ st 6; } & kill -s WINCH $!; wait $!; echo $?",
    // the descriptor limit: descriptor N is invalid, N-1 is the last valid one
    "ulimit -n 20; echo x 20> f8; echo $?; echo y 19> f9; echo $?", "ulimit -n 13; exec 12> f8; echo $?; exec 13> f9; echo $?",
    // exactly one free descriptor when a pipe is needed: the failed pipe() must leave the table
    // untouched, so the EXIT trap can still use the free slot
    "trap 'kill -l 9 3< f0' EXIT; ulimit -n 4; kill -l 15 | kill -l 15", "trap 'kill -l 9 3< f0' EXIT; ulimit -n 4; x=$(kill -l 15); echo \"$x\"",
    // wait for a specific child while an older child has exited and a younger one is stopped
    // (on a real kernel the younger child may be gone before the signals are sent: diagnostics of `kill` are discarded)
    "(exit 3)& pa=$!; (exit 5)& pb=$!; kill -s STOP $pb 2>&-; wait $pa; s1=$?; kill -s CONT $pb 2>&-; wait $pb; echo $s1 $?; unset pa pb s1",
    // file offsets: a descriptor keeps its offset when the file is truncated through another one
    // (the next write leaves a hole), duplicated descriptors share one offset, separately opened
    // ones do not, a subshell shares the parent's offset, append mode ignores the offset
    "exec 3>f3; echo one >&3; : > f3; echo two >&3; exec 3>&-", "exec 3>f3 4>&3; echo a >&3; echo b >&4; exec 3>&- 4>&-",
    "exec 3>f3; exec 4>f3; echo aaaa >&3; echo b >&4; exec 3>&- 4>&-", "exec 3>>f0; : > f0; echo x >&3; exec 3>&-",
    "exec 4<f0; (read a <&4; echo \"$a\"); read b <&4; echo \"$b\"; exec 4<&-", "exec 3<>f0; read a <&3; echo XY >&3; exec 3>&-; cat f0",
    "echo abcdef > f1; exec 3<f1; : > f1; cat <&3; echo $?; exec 3<&-",
    "exec 3>>f3; echo one >&3; : > f3; echo two >&3; exec 3>&-; cat f3", "exec 3>>f3; echo one >&3; (: > f3; echo sub >&3); echo two >&3; exec 3>&-",
    "exec 3<>f0; echo XY >&3; read a <&3; echo \"$a\"; exec 3>&-", "echo 0123456789 > f1; exec 3<f1 4<f1; read a <&3; exec 5<&3; read b <&4; read c <&5; echo \"$a|$b|$c\"; exec 3<&- 4<&- 5<&-",
    // exit statuses beyond 8 bits are truncated by the kernel
    "(exit 300); echo $?", "(exit 256); echo $?", "{ exit 300; } & wait $!; echo $?", "st 0 | (exit 511); echo $?", "x=$(exit 257); echo $?",
    // a child that has been waited for no longer exists
    "(exit 3) & wait $!; kill -s TERM $! 2>&-; echo $?", "(exit 3) & wait $!; kill -0 $! 2>&-; echo $?",
    // no descriptor left for the file being opened: the file must be neither created nor truncated
    // (descriptor 9 is closed, so nothing is saved first; descriptors 0-3 are taken)
    "exec 3>f3; ulimit -n 4; echo x 9>newf; echo $?", "echo keep > f1; exec 3>f3; ulimit -n 4; : 9>f1; echo $?; exec 3>&-; cat f1",
    // a stopped child that ignores SIGCONT is resumed by it all the same (diagnostics of `kill` are
    // discarded: on a real kernel the child may be gone before the signals are sent)
    "trap '' CONT; (exit 3) & p=$!; kill -s STOP $p 2>&-; kill -s CONT $p 2>&-; wait $p; echo $?; trap - CONT; unset p",
    // a subshell whose last command was killed by a signal dies of that signal itself - and only
    // itself: the main shell's trap for it must not run again
    "trap 'echo got' TERM; (trap '' TERM; (trap - TERM; kill -s TERM 0; echo alive)); echo $?; trap - TERM",
    "trap 'echo got' USR1; (trap '' USR1; (trap - USR1; kill -s USR1 0; echo alive); kill -l $?); echo $?; trap - USR1",
    // default actions: a subshell (command traps reset) sends the signal to the whole process
    // group; the main shell survives through its trap, the subshell dies or not (IO is left out:
    // on Linux it is the same signal as POLL and libc's sig2str names it POLL)
    "trap 'echo got' HUP; (kill -s HUP 0; echo alive); s=$?; case $s in 0) echo zero;; *) kill -l $s;; esac; trap - HUP",
    "trap 'echo got' ALRM; (kill -s ALRM 0; echo alive); s=$?; case $s in 0) echo zero;; *) kill -l $s;; esac; trap - ALRM",
    "trap 'echo got' PROF; (kill -s PROF 0; echo alive); s=$?; case $s in 0) echo zero;; *) kill -l $s;; esac; trap - PROF",
    "trap 'echo got' PWR; (kill -s PWR 0; echo alive); s=$?; case $s in 0) echo zero;; *) kill -l $s;; esac; trap - PWR",
    "trap 'echo got' STKFLT; (kill -s STKFLT 0; echo alive); s=$?; case $s in 0) echo zero;; *) kill -l $s;; esac; trap - STKFLT",
    "trap 'echo got' TERM; (kill -s TERM 0; echo alive); s=$?; case $s in 0) echo zero;; *) kill -l $s;; esac; trap - TERM",
    "trap 'echo got' USR1; (kill -s USR1 0; echo alive); s=$?; case $s in 0) echo zero;; *) kill -l $s;; esac; trap - USR1",
    "trap 'echo got' USR2; (kill -s USR2 0; echo alive); s=$?; case $s in 0) echo zero;; *) kill -l $s;; esac; trap - USR2",
    "trap 'echo got' VTALRM; (kill -s VTALRM 0; echo alive); s=$?; case $s in 0) echo zero;; *) kill -l $s;; esac; trap - VTALRM",
    "trap 'echo got' INT; (kill -s INT 0; echo alive); s=$?; case $s in 0) echo zero;; *) kill -l $s;; esac; trap - INT",
    "trap 'echo got' PIPE; (kill -s PIPE 0; echo alive); s=$?; case $s in 0) echo zero;; *) kill -l $s;; esac; trap - PIPE",
    "trap 'echo got' URG; (kill -s URG 0; echo alive); s=$?; case $s in 0) echo zero;; *) kill -l $s;; esac; trap - URG",
    "trap 'echo got' WINCH; (kill -s WINCH 0; echo alive); s=$?; case $s in 0) echo zero;; *) kill -l $s;; esac; trap - WINCH",
    "trap 'echo got' CHLD; (kill -s CHLD 0; echo alive); s=$?; case $s in 0) echo zero;; *) kill -l $s;; esac; trap - CHLD",
    "trap 'echo got' CONT; (kill -s CONT 0; echo alive); s=$?; case $s in 0) echo zero;; *) kill -l $s;; esac; trap - CONT",
    "trap 'echo got' XCPU; (kill -s XCPU 0; echo alive); s=$?; case $s in 0) echo zero;; *) kill -l $s;; esac; trap - XCPU",
    "trap 'echo got' QUIT; (kill -s QUIT 0; echo alive); s=$?; case $s in 0) echo zero;; *) kill -l $s;; esac; trap - QUIT",
    // a writer to a pipe whose reader has gone (more than a real pipe holds, so the writer cannot
    // have finished before): with the default disposition it dies of SIGPIPE and nothing after the
    // write runs; with SIGPIPE ignored the write fails and the writer goes on
    // (statuses are shown by signal name: the two systems number signals differently)
    "(gen 150000 1; echo after > pw1) | st 0; s=$?; case $s in 0) echo zero;; *) kill -l $s;; esac", "set -o pipefail; gen 150000 1 | st 0; s=$?; set +o pipefail; case $s in 0) echo zero;; *) kill -l $s;; esac",
    "trap '' PIPE; (gen 150000 1 2>&-; echo after > pw2) | st 0; s=$?; case $s in 0) echo zero;; *) kill -l $s;; esac; trap - PIPE", "{ gen 150000 1; echo after > pw3; } | st 0; s=$?; case $s in 0) echo zero;; *) kill -l $s;; esac",
    // no descriptor at 10 or above can exist: a redirection of an open descriptor cannot be saved,
    // so it is refused and the descriptor stays as it was (the two systems report the failed
    // duplication with different error numbers)
    "ulimit -n 10; { echo in; } > f8; echo $?; echo alive", "ulimit -n 10; command exec > f8 3< nofile; echo alive $?", "ulimit -n 10; echo x > f8; echo alive",
    "(trap 'echo caught > pw4' PIPE; gen 150000 1 2>&-; echo after >> pw4) | st 0; s=$?; case $s in 0) echo zero;; *) kill -l $s;; esac",
];

#[derive(Clone, Debug, PartialEq, Eq, Hash, Serialize, Deserialize)]
pub struct DiffCase {
    pub stmts: Vec<u16>,
}

fn uses_links(text: &str) -> bool {
    ["l1", "l2", "l3", "l*", "l?"].iter().any(|p| text.contains(p))
}

fn initial_files(with_links: bool) -> Vec<(String, FileSpec)> {
    let reg = |c: &str| FileSpec::Regular { content: c.to_string(), mode: 0o644, exec: false };
    let mut v = vec![
        ("f0".into(), reg("first line\nsecond\n")),
        ("d1".into(), FileSpec::Dir { mode: 0o755 }),
        ("d1/a".into(), reg("a\n")),
        ("d1/b".into(), reg("b\n")),
        ("d1/.hid".into(), reg("")),
        ("d2".into(), FileSpec::Dir { mode: 0o755 }),
    ];
    if with_links {
        // symbolic links exist only in scripts that name them (see the open finding
        // vfs-symlink-not-followed), so that unrelated globs are not affected
        v.push(("l1".into(), FileSpec::Symlink { target: "f0".into() }));
        v.push(("l2".into(), FileSpec::Symlink { target: "d1".into() }));
        v.push(("l3".into(), FileSpec::Symlink { target: "nowhere".into() }));
    }
    v
}

fn script(c: &DiffCase) -> String {
    let mut s = String::from("umask 022\nW=$PWD\n");
    for i in &c.stmts {
        s.push_str(STATEMENTS[*i as usize % STATEMENTS.len()]);
        s.push('\n');
    }
    s
}

fn virtual_tree(r: &vsys::RunResult) -> BTreeMap<String, Entry> {
    fn walk(node: &std::rc::Rc<std::cell::RefCell<yash_env::system::r#virtual::Inode>>, prefix: &str, out: &mut BTreeMap<String, Entry>) {
        let n = node.borrow();
        if let FileBody::Directory { files } = &n.body {
            for (name, child) in files {
                let name = name.to_string_lossy().into_owned();
                let rel = if prefix.is_empty() { name.clone() } else { format!("{prefix}/{name}") };
                let c = child.borrow();
                match &c.body {
                    FileBody::Regular { content, .. } => {
                        out.insert(rel, Entry::File { mode: c.permissions.bits() as u32 & 0o777, content: content.clone() });
                    }
                    FileBody::Directory { .. } => {
                        out.insert(rel.clone(), Entry::Dir);
                        drop(c);
                        walk(child, &rel, out);
                    }
                    FileBody::Symlink { target } => {
                        out.insert(rel, Entry::Symlink { target: target.to_string_lossy().into_owned() });
                    }
                    _ => {}
                }
            }
        }
    }
    let mut out = BTreeMap::new();
    let st = r.state.borrow();
    if let Ok(root) = st.file_system.get("/top/work") {
        walk(&root, "", &mut out);
    }
    out
}

fn virtual_status(r: &vsys::RunResult) -> i32 {
    // was the main process terminated by a signal?
    let st = r.state.borrow();
    match st.processes.get(&yash_env::job::Pid(r.main_pid)).map(|p| p.state()) {
        Some(yash_env::job::ProcessState::Halted(yash_env::job::ProcessResult::Signaled { signal, .. })) => 1000 + signal.as_raw(),
        // a final status that denotes a signal makes the real shell kill itself with that signal
        _ if r.finished => r.status,
        _ => -1,
    }
}

fn check_diff(c: &DiffCase) -> Outcome {
    let text = script(c);
    let files = initial_files(uses_links(&text));
    let real = match rsys::run(&text, &files) {
        Ok(r) => r,
        // scratch directory or re-execution of the harness binary failed: an environment problem
        Err(_) => return Outcome::skip("the real-OS side could not be started"),
    };
    let mut s = vsys::Setup::script(&text);
    s.files = files;
    s.cwd = "/top/work".into();
    s.umask = Some(0o022);
    let virt = vsys::run(&s);
    let ctx = |m: String| {
        format!(
            "{m}\nscript:\n{text}real: status {} stdout {:?} stderr {:?}\nvirtual: status {} finished {} stdout {:?} stderr {:?}",
            real.status, real.stdout, real.stderr.lines().next().unwrap_or(""), virt.status, virt.finished, virt.stdout, virt.stderr.lines().next().unwrap_or("")
        )
    };
    if let Some(p) = &virt.panic {
        return Outcome::fail(ctx(format!("panic on the simulated OS: {p}")));
    }
    if virt.log.deadlock {
        return Outcome::fail(ctx("deadlock on the simulated OS".into()));
    }
    if real.stalled {
        return Outcome::fail(format!(
            "the shell on the real OS deadlocked (every process of the script asleep, no CPU use for {} s; killed) while the simulated run finished with status {} stdout {:?}\nscript:\n{text}",
            rsys::STALL_SECS, virt.status, virt.stdout
        ));
    }
    if real.stdout != virt.stdout {
        return Outcome::fail(ctx("stdout differs".into()));
    }
    // exit status: real side reports 384+signo when killed by a signal; map the virtual side
    let vstat = virtual_status(&virt);
    let status_same = if vstat >= 1000 {
        // killed by signal number (virtual numbering differs from Linux): compare "was killed by a signal"
        real.status >= 384
    } else if vstat >= 384 {
        // the shell's final $? denotes a signal: the real shell re-raises it
        real.status >= 384 || real.status == (vstat & 0xff)
    } else {
        real.status == (vstat & 0xff)
    };
    if !status_same {
        return Outcome::fail(ctx(format!("exit status differs (virtual {vstat})")));
    }
    if real.stderr.is_empty() != virt.stderr.is_empty() {
        return Outcome::fail(ctx("one side printed a diagnostic, the other did not".into()));
    }
    let vt = virtual_tree(&virt);
    if vt != real.tree {
        let mut diffs = vec![];
        for (k, v) in &real.tree {
            match vt.get(k) {
                None => diffs.push(format!("{k}: only on the real OS ({})", brief(v))),
                Some(w) if w != v => diffs.push(format!("{k}: real {} vs virtual {}", brief(v), brief(w))),
                _ => {}
            }
        }
        for (k, w) in &vt {
            if !real.tree.contains_key(k) {
                diffs.push(format!("{k}: only on the simulated OS ({})", brief(w)));
            }
        }
        return Outcome::fail(ctx(format!("final file tree differs: {}", diffs.join("; "))));
    }
    let mutating = text.contains('>') || text.contains('&') || text.contains('(') || text.contains('|');
    Outcome::pass(c.stmts.len() >= 3 && mutating)
        .class_if(real.status >= 384, "killed-by-signal")
        .class_if(!real.stderr.is_empty(), "with-diagnostic")
        .class_if(text.contains("l1") || text.contains("l2") || text.contains("l3"), "symlink")
        .class_if(text.contains("umask"), "umask")
        .class_if(text.contains("trap") || text.contains("kill"), "signals")
        .class_if(text.contains("| "), "pipeline")
}

fn brief(e: &Entry) -> String {
    match e {
        Entry::File { mode, content } => format!("file mode {:o} {} bytes {:?}", mode, content.len(), String::from_utf8_lossy(&content[..content.len().min(24)])),
        Entry::Dir => "dir".into(),
        Entry::Symlink { target } => format!("symlink -> {target}"),
    }
}

fn known_diff(c: &DiffCase, msg: &str) -> Option<&'static str> {
    let text = script(c);
    let _ = msg;
    // open(O_CREAT) on the simulated OS creates missing parent directories
    if text.contains("nodir/x") || (text.contains("f0/x") && text.contains("cd ")) {
        return Some("vfs-open-creates-missing-directories");
    }
    None
}

pub static DIFF: Driver<DiffCase> = Driver::new("C19", "real-vs-virtual", check_diff).with_known(known_diff);

pub fn run(ctx: &Ctx, st: &mut Stats) {
    // every statement alone and after a fixed prefix
    let n = STATEMENTS.len() as u64;
    let decode = move |i: u64| -> Option<DiffCase> {
        let s = (i % n) as u16;
        Some(match i / n {
            0 => DiffCase { stmts: vec![s] },
            1 => DiffCase { stmts: vec![0, 14, 102, s, 4] }, // echo A > f1; exec 3> f3; trap USR1; S; cat < f1
            _ => DiffCase { stmts: vec![37, s, 44] },         // cd d1; S; echo *
        })
    };
    DIFF.run_exhaustive(ctx, st, 3 * n, &decode);
    st.exhaustive_drivers.retain(|d| d != "real-vs-virtual");
    let cases = ctx.tier.pick(8_000, 400_000);
    // statements that fall into an open known finding are drawn rarely, so that most scripts
    // stay comparable
    let tainted = |t: &str| t.contains("nodir/x") || t.contains("f0/x");
    let clean: Vec<u16> = (0..STATEMENTS.len() as u16).filter(|i| !tainted(STATEMENTS[*i as usize])).collect();
    let dirty: Vec<u16> = (0..STATEMENTS.len() as u16).filter(|i| tainted(STATEMENTS[*i as usize])).collect();
    DIFF.run_random(ctx, st, cases, move || {
        let pick = prop_oneof![
            60 => prop::sample::select(clean.clone()),
            1 => prop::sample::select(dirty.clone()),
        ];
        prop::collection::vec(pick, 3..10).prop_map(|stmts| DiffCase { stmts })
    });
}

pub fn replay(driver: &str, case: &serde_json::Value) -> Result<(Outcome, Option<&'static str>), String> {
    match driver {
        "real-vs-virtual" => DIFF.replay_known(case),
        _ => Err(format!("unknown driver {driver}")),
    }
}
