//! C13 — children are started, awaited and reaped correctly under every schedule;
//! C14 — data through pipes and command substitutions arrives complete and in order.
//! Both own the schedule: the harness' scheduler decides which runnable virtual process runs
//! next, with preemption points (cargo feature verif-hooks) before every wait/read/write.

use crate::engine::*;
use crate::probes;
use crate::vsys::{self, Chooser};
use proptest::prelude::*;
use serde::{Deserialize, Serialize};
use std::collections::BTreeMap;

pub const INFO: PropInfo = PropInfo {
    id: "C13",
    level: "exploration",
    rule: "cases = (race-free program with <=5 concurrently live processes: pipelines of 1-4 stages (probe lists, cat, gen N, sink, nested subshells), pipefail on/off, asynchronous lists with $! captured, wait / wait PID (also an already-waited and an unknown pid), pipelines whose last stage exits without reading while upstream stages still hold more than the pipes can buffer (writers must die of SIGPIPE, not block; under pipefail the pipeline reports 384 + SIGPIPE), pipeline components that stop themselves with SIGSTOP and are resumed from outside when everything else is blocked (the shell must wait for their real end), subshells, command substitutions; schedule set). Schedules: FIFO, then depth-first enumeration of the scheduler's choice vectors up to a budget, then seeded random choosers, all with preemption points on. Oracle per schedule: shell finishes (no deadlock / step bound), per-process probe traces (multiset), stdout lines (multiset), final status and stderr emptiness equal the reference model and therefore equal across schedules; at exit every child of the shell is terminated and reaped. Non-trivial = the program was run under >= 2 distinct choice vectors that differ from FIFO with >= 2 runnable processes at some step; distinct by serialised program.",
    assumptions: &[
        "interleavings exist only at blocking points and at the hook's preemption points (system-call boundaries of wait/read/write); the real OS is not explored",
        "liveness is decided as: no explored schedule deadlocks or exceeds the step bound",
    ],
};

pub const INFO14: PropInfo = PropInfo {
    id: "C14",
    level: "exploration",
    rule: "cases = (payload length n around every buffer boundary of the simulated pipe (PIPE_BUF 512, PIPE_SIZE 1024) up to 4x capacity, trailing newlines 0-3, shape: gen|sink, gen|cat{1-3}|sink, x=$(gen), x=$(gen|cat), nested $( $( ) ), here-document into sink, variable echoed into a pipeline; standard descriptors 0/1/2 closed with exec beforehand in 6 combinations so that pipe ends land on the standard numbers; schedule set as in C13). Oracle: bytes received by sink == bytes produced (length, content), $( ) value == payload minus exactly its trailing newlines, here-document body byte for byte, no deadlock, empty stderr, status 0. Non-trivial = n > PIPE_BUF or >= 2 stages, under a non-FIFO schedule; distinct by (n, trailing, shape, schedule).",
    assumptions: &[
        "payloads are NUL-free text with embedded newlines, either ASCII or mostly 2-4 byte UTF-8 characters (position-dependent pattern, so loss, duplication and reordering all change the content; a character split by a buffer boundary must survive)",
        "interleavings at blocking points and preemption points only",
    ],
};

// ---------------------------------------------------------------------------------------------
// C13 programs

#[derive(Clone, Debug, PartialEq, Eq, Hash, Serialize, Deserialize)]
pub enum Stage {
    /// `{ mark a; st n; }`-style list
    List(Vec<Cmd>),
    Cat,
    /// first stage only, followed only by Cat/Sink stages
    Gen(u16),
    /// last stage only
    Sink,
}

#[derive(Clone, Debug, PartialEq, Eq, Hash, Serialize, Deserialize)]
pub enum Cmd {
    Mark(u16),
    St(u8),
    Sub(Vec<Cmd>),
    Pipe(Vec<Stage>),
    /// `{ body; } & pK=$!`
    Bg(Vec<Cmd>),
    Wait,
    /// wait for the k-th started background job of this process (modulo the number started)
    WaitPid(u8),
    WaitUnknown,
    /// inside a subshell environment: `wait $pK` for a job started by the *enclosing* process
    /// before the subshell was entered. "Subshells cannot wait for jobs in the parent shell
    /// environment" (docs/src/builtins/wait.md): 127 whether that job has ended or not, whether
    /// the parent has already collected its status or not.
    WaitOuter(u8),
    /// `x=$( body )`
    CmdSub(Vec<Cmd>),
    Pipefail(bool),
    /// `gen N | cat{cats} | st K`: the last stage exits without reading while the writers still
    /// have more than the pipes can hold, so every writer must be killed by SIGPIPE (the
    /// rightmost failure under pipefail is then 384 + SIGPIPE) instead of blocking for ever
    EarlyExit { extra: u16, cats: u8, st: u8 },
    /// a pipeline component stops itself (SIGSTOP) and is resumed from outside once everything
    /// else is blocked: `st 0 | { selfkill STOP; st K; }` (last) or `{ selfkill STOP; st K; } | cat`.
    /// The shell has no job control here, so it must go on waiting for the component's real end.
    StopStage { st: u8, last: bool },
    /// `wait` with several operands: each is the k-th background job of this process (modulo the
    /// number started) or, for 255, a process ID that is not a child; the status is that of the last
    /// operand (127 if that one is unknown or already collected)
    WaitMany(Vec<u8>),
    /// a subshell whose last command was killed by a signal ends by that signal itself, so that
    /// the parent sees "killed by the signal" (384 + number) - also when the subshell has a trap
    /// for that signal (`trapped`: `( trap : SIG; ( selfkill SIG ) )`) or inherited "ignored" for it
    /// from its parent (`( trap '' SIG; ( trap '' SIG; ( trap - SIG; selfkill SIG ) ) )`... the
    /// middle subshell)
    KilledLast { sig: u8, trapped: bool },
    /// `{ trap - INT; selfkill INT; mark 9990; } & wait $!`: an asynchronous list starts with SIGINT
    /// ignored (no job control); once its trap is reset the signal's default action applies
    AsyncResetInt,
}

const KSIGS: [(&str, i32); 3] = [("USR1", 124), ("USR2", 125), ("TERM", 15)];
/// SIGPIPE as numbered by the simulated OS
const VSIGPIPE: i32 = 110;

fn early_exit_len(extra: u16, cats: u8) -> usize {
    // strictly more than all pipes (1024 each) plus the cats' buffers (200 each) can absorb
    1300 * (cats as usize % 3 + 1) + extra as usize % 1500
}

#[derive(Clone, Debug, PartialEq, Eq, Hash, Serialize, Deserialize)]
pub struct SchedCase {
    pub prog: Vec<Cmd>,
    /// extra seeded schedules after the DFS budget
    pub seeds: Vec<u64>,
}

struct Ren {
    out: String,
    next_mark: u16,
    next_sink: u16,
}

fn sanitize_stage_list(stages: &mut Vec<Stage>) {
    if stages.is_empty() {
        stages.push(Stage::List(vec![Cmd::Mark(0)]));
    }
    let n = stages.len();
    // Gen only first; Sink only last; after Gen only Cat/Sink
    let has_gen = matches!(stages[0], Stage::Gen(_)) && n >= 2;
    for (i, s) in stages.iter_mut().enumerate() {
        match s {
            Stage::Gen(_) if i != 0 || !has_gen => *s = Stage::List(vec![Cmd::Mark(0)]),
            Stage::Sink if i != n - 1 || n == 1 => *s = Stage::Cat,
            _ => {}
        }
        if has_gen && i > 0 {
            // a data-carrying pipeline ends in a sink (reads to EOF, writes nothing): no EPIPE races
            *s = if i == n - 1 { Stage::Sink } else { Stage::Cat };
        }
    }
    if n == 1 && matches!(stages[0], Stage::Cat) {
        // a lone `cat` would read the shell's stdin; harmless (empty) but pointless
        stages[0] = Stage::List(vec![Cmd::Mark(0)]);
    }
    // `cat` as first stage reads the (empty) stdin: fine. A List stage before Cat writes nothing.
}

fn sanitize(cmds: &mut Vec<Cmd>, depth: u32, top: bool) {
    if depth > 3 {
        cmds.retain(|c| matches!(c, Cmd::Mark(_) | Cmd::St(_)));
    }
    let mut has_bg = false;
    for c in cmds.iter_mut() {
        match c {
            Cmd::Sub(b) | Cmd::CmdSub(b) => sanitize(b, depth + 1, false),
            Cmd::Bg(b) => {
                has_bg = true;
                sanitize(b, depth + 1, false);
            }
            Cmd::Pipe(stages) => {
                sanitize_stage_list(stages);
                for s in stages.iter_mut() {
                    if let Stage::List(b) = s {
                        sanitize(b, depth + 1, false);
                        if b.is_empty() {
                            b.push(Cmd::Mark(0));
                        }
                    }
                }
            }
            _ => {}
        }
    }
    if cmds.is_empty() {
        cmds.push(Cmd::Mark(0));
    }
    // every process that starts background jobs waits for them before it ends
    if has_bg || top {
        cmds.push(Cmd::Wait);
    }
}

fn render_list(cmds: &[Cmd], r: &mut Ren, outer: u8) {
    let mut nbg = 0;
    for (i, c) in cmds.iter().enumerate() {
        if i > 0 {
            r.out.push_str("; ");
        }
        render_cmd(c, r, &mut nbg, outer);
    }
}

/// `outer`: number of background jobs the enclosing process had started (variables `p0`..) when
/// this list's process was created
fn render_cmd(c: &Cmd, r: &mut Ren, nbg: &mut u8, outer: u8) {
    match c {
        Cmd::Mark(_) => {
            r.next_mark += 1;
            r.out.push_str(&format!("mark {}", r.next_mark));
        }
        Cmd::St(n) => r.out.push_str(&format!("st {n}")),
        Cmd::Sub(b) => {
            r.out.push_str("( ");
            render_list(b, r, *nbg);
            r.out.push_str(" )");
        }
        Cmd::Pipe(stages) => {
            for (i, s) in stages.iter().enumerate() {
                if i > 0 {
                    r.out.push_str(" | ");
                }
                match s {
                    Stage::List(b) => {
                        r.out.push_str("{ ");
                        render_list(b, r, *nbg);
                        r.out.push_str("; }");
                    }
                    Stage::Cat => r.out.push_str("cat"),
                    Stage::Gen(n) => r.out.push_str(&format!("gen {n}")),
                    Stage::Sink => {
                        r.next_sink += 1;
                        r.out.push_str(&format!("sink s{}", r.next_sink));
                    }
                }
            }
        }
        Cmd::Bg(b) => {
            r.out.push_str("{ ");
            render_list(b, r, *nbg);
            r.out.push_str(&format!("; }} & p{}=$!", *nbg));
            *nbg += 1;
        }
        Cmd::Wait => r.out.push_str("wait"),
        Cmd::WaitPid(k) => {
            if *nbg == 0 {
                r.out.push_str("wait 99999");
            } else {
                r.out.push_str(&format!("wait $p{}", k % *nbg));
            }
        }
        Cmd::WaitUnknown => r.out.push_str("wait 99999"),
        Cmd::WaitMany(ks) => {
            r.out.push_str("wait");
            for k in ks {
                if *k == 255 || *nbg == 0 {
                    r.out.push_str(" 99999");
                } else {
                    r.out.push_str(&format!(" $p{}", k % *nbg));
                }
            }
        }
        Cmd::KilledLast { sig, trapped } => {
            let name = KSIGS[*sig as usize % 3].0;
            if *trapped {
                r.out.push_str(&format!("( trap : {name}; ( selfkill {name} ) )"));
            } else {
                r.out.push_str(&format!("( trap '' {name}; ( ( trap - {name}; selfkill {name} ) ) )"));
            }
        }
        Cmd::AsyncResetInt => r.out.push_str("{ trap - INT; selfkill INT; mark 9990; } & wait $!"),
        Cmd::WaitOuter(k) => {
            // `$pK` still names the enclosing process' job only while this process has not started
            // jobs of its own
            if outer == 0 || *nbg > 0 {
                r.out.push_str("wait 99999");
            } else {
                r.out.push_str(&format!("wait $p{}", k % outer));
            }
        }
        Cmd::CmdSub(b) => {
            r.out.push_str("x=$( ");
            render_list(b, r, *nbg);
            r.out.push_str(" )");
        }
        Cmd::Pipefail(on) => r.out.push_str(if *on { "set -o pipefail" } else { "set +o pipefail" }),
        Cmd::StopStage { st, last } => {
            if *last {
                r.out.push_str(&format!("st 0 | {{ selfkill STOP; st {st}; }}"));
            } else {
                r.out.push_str(&format!("{{ selfkill STOP; st {st}; }} | cat"));
            }
        }
        Cmd::EarlyExit { extra, cats, st } => {
            r.out.push_str(&format!("gen {}{} | st {st}", early_exit_len(*extra, *cats), crate::props::c13::cats(*cats % 3)));
        }
    }
}

pub fn render(prog: &[Cmd]) -> String {
    let mut r = Ren { out: String::new(), next_mark: 0, next_sink: 0 };
    render_list(prog, &mut r, 0);
    r.out.push('\n');
    r.out
}

// ---- reference model ----

#[derive(Clone)]
struct MProc {
    status: i32,
    pipefail: bool,
    trace: Vec<(u16, i32)>,
}

struct M {
    next_mark: u16,
    next_sink: u16,
    children: Vec<Vec<(u16, i32)>>,
    sinks: Vec<(String, usize)>,
    max_live: usize,
}

impl M {
    fn child(&mut self, p: &MProc, body: &[Cmd]) -> i32 {
        let mut c = p.clone();
        c.trace = vec![];
        self.list(&mut c, body);
        self.children.push(c.trace);
        // a subshell whose last command was killed by a signal ends by that signal itself
        // (docs/src/language/commands/exit_status.md), so the parent sees the same status
        if c.status >= 384 { c.status } else { c.status & 0xff }
    }

    fn list(&mut self, p: &mut MProc, cmds: &[Cmd]) {
        // background jobs of this process: exit status, and whether still known to `wait`
        let mut jobs: Vec<(i32, bool)> = vec![];
        for c in cmds {
            match c {
                Cmd::Mark(_) => {
                    self.next_mark += 1;
                    p.trace.push((self.next_mark, p.status));
                    p.status = 0;
                }
                Cmd::St(n) => p.status = *n as i32,
                Cmd::Sub(b) => p.status = self.child(p, b),
                Cmd::CmdSub(b) => {
                    // assignment-only command: status of the command substitution
                    p.status = self.child(p, b);
                }
                Cmd::Pipe(stages) => {
                    let mut last = 0;
                    let mut rightmost_failure = 0;
                    let gen_len = match stages.first() {
                        Some(Stage::Gen(n)) => Some(*n as usize),
                        _ => None,
                    };
                    for s in stages {
                        let st = match s {
                            Stage::List(b) => self.child(p, b),
                            Stage::Cat | Stage::Gen(_) => {
                                self.children.push(vec![]);
                                0
                            }
                            Stage::Sink => {
                                self.next_sink += 1;
                                self.sinks.push((format!("s{}", self.next_sink), gen_len.unwrap_or(0)));
                                self.children.push(vec![]);
                                0
                            }
                        };
                        last = st;
                        if st != 0 {
                            rightmost_failure = st;
                        }
                    }
                    self.max_live = self.max_live.max(stages.len());
                    p.status = if p.pipefail && rightmost_failure != 0 { rightmost_failure } else { last };
                    if p.pipefail && last == 0 && rightmost_failure != 0 {
                        p.status = rightmost_failure;
                    }
                }
                Cmd::Bg(b) => {
                    let st = self.child(p, b);
                    jobs.push((st, true));
                    p.status = 0;
                }
                Cmd::Wait => {
                    for j in jobs.iter_mut() {
                        j.1 = false;
                    }
                    p.status = 0;
                }
                Cmd::WaitPid(k) => {
                    if jobs.is_empty() {
                        p.status = 127;
                    } else {
                        let i = *k as usize % jobs.len();
                        if jobs[i].1 {
                            jobs[i].1 = false;
                            p.status = jobs[i].0;
                        } else {
                            p.status = 127;
                        }
                    }
                }
                Cmd::WaitUnknown | Cmd::WaitOuter(_) => p.status = 127,
                Cmd::WaitMany(ks) => {
                    p.status = 0;
                    for k in ks {
                        if *k == 255 || jobs.is_empty() {
                            p.status = 127;
                        } else {
                            let i = *k as usize % jobs.len();
                            if jobs[i].1 {
                                jobs[i].1 = false;
                                p.status = jobs[i].0;
                            } else {
                                p.status = 127;
                            }
                        }
                    }
                }
                Cmd::KilledLast { sig, trapped } => {
                    for _ in 0..(if *trapped { 2 } else { 3 }) {
                        self.children.push(vec![]);
                    }
                    p.status = 384 + KSIGS[*sig as usize % 3].1;
                }
                Cmd::AsyncResetInt => {
                    self.children.push(vec![]);
                    p.status = 384 + 2;
                }
                Cmd::Pipefail(on) => {
                    p.pipefail = *on;
                    p.status = 0;
                }
                Cmd::StopStage { st, last } => {
                    self.children.push(vec![]);
                    self.children.push(vec![]);
                    self.max_live = self.max_live.max(2);
                    p.status = if *last || p.pipefail { *st as i32 } else { 0 };
                }
                Cmd::EarlyExit { cats, st, .. } => {
                    let n = 2 + (*cats % 3) as usize;
                    for _ in 0..n {
                        self.children.push(vec![]);
                    }
                    self.max_live = self.max_live.max(n);
                    p.status = if *st != 0 || !p.pipefail { *st as i32 } else { 384 + VSIGPIPE };
                }
            }
        }
    }
}

struct Expected13 {
    main: Vec<(u16, i32)>,
    children: Vec<Vec<(u16, i32)>>,
    status: i32,
    sinks: Vec<(String, usize)>,
}

fn expected(prog: &[Cmd]) -> Expected13 {
    let mut m = M { next_mark: 0, next_sink: 0, children: vec![], sinks: vec![], max_live: 0 };
    let mut p = MProc { status: 0, pipefail: false, trace: vec![] };
    m.list(&mut p, prog);
    Expected13 { main: p.trace, children: m.children, status: p.status, sinks: m.sinks }
}

fn judge13(exp: &Expected13, r: &vsys::RunResult, script: &str) -> Result<(), String> {
    let ctx = |m: String| format!("{m}\nschedule {:?}\nscript: {script}stderr: {:?}", r.log.choices.iter().map(|c| c.1).collect::<Vec<_>>(), r.stderr);
    if let Some(p) = &r.panic {
        return Err(ctx(format!("panic: {p}")));
    }
    if r.log.deadlock {
        return Err(ctx("deadlock: no runnable process and no timer while the shell has not finished".into()));
    }
    if r.log.step_limit_hit || !r.finished {
        return Err(ctx("the shell did not finish within the step bound".into()));
    }
    let mut by_pid: BTreeMap<i32, Vec<(u16, i32)>> = BTreeMap::new();
    for t in &r.trace {
        let id: u16 = t.args.first().and_then(|s| s.parse().ok()).unwrap_or(0);
        by_pid.entry(t.pid).or_default().push((id, t.status));
    }
    let main = by_pid.remove(&r.main_pid).unwrap_or_default();
    if main != exp.main {
        return Err(ctx(format!("main trace {main:?}, expected {:?}", exp.main)));
    }
    let mut actual: Vec<_> = by_pid.into_values().collect();
    for e in exp.children.iter().filter(|t| !t.is_empty()) {
        match actual.iter().position(|a| a == e) {
            Some(i) => {
                actual.swap_remove(i);
            }
            None => return Err(ctx(format!("no child produced trace {e:?}; unmatched {actual:?}"))),
        }
    }
    if !actual.is_empty() {
        return Err(ctx(format!("unexpected child traces {actual:?}")));
    }
    if r.status != exp.status {
        return Err(ctx(format!("final status {}, expected {}", r.status, exp.status)));
    }
    if !r.stderr.is_empty() {
        return Err(ctx("diagnostic on stderr although every wait operand/child is well-defined".into()));
    }
    for (tag, len) in &exp.sinks {
        let want = probes::pattern(*len, 0);
        match r.sinks.iter().find(|s| &s.tag == tag) {
            None => return Err(ctx(format!("sink {tag} never completed"))),
            Some(s) if s.data != want => return Err(ctx(format!("sink {tag} received {} bytes, expected {len} (content differs)", s.data.len()))),
            _ => {}
        }
    }
    // every process must have ended, and every one whose parent is still around must be reaped
    for p in &r.procs {
        if p.pid == r.main_pid {
            continue;
        }
        if p.alive {
            return Err(ctx(format!("process {} (parent {}) is still alive after the shell finished", p.pid, p.ppid)));
        }
        if p.unreaped {
            return Err(ctx(format!("process {} (parent {}) was never reaped (zombie)", p.pid, p.ppid)));
        }
    }
    Ok(())
}

fn check_sched(c: &SchedCase) -> Outcome {
    let mut prog = c.prog.clone();
    sanitize(&mut prog, 0, true);
    let script = render(&prog);
    let exp = expected(&prog);
    let budget = 60;
    let mut failure: Option<String> = None;
    let mut distinct_nonfifo = 0usize;
    let mut max_runnable = 0usize;
    let mk = |chooser: Chooser| {
        let mut s = vsys::Setup::script(&script);
        s.chooser = chooser;
        s.preempt = true;
        s.max_steps = 50_000;
        s.cont_on_stall = true;
        vsys::run(&s)
    };
    let (runs, exhausted) = vsys::dfs_schedules(budget, mk, |r, taken| {
        max_runnable = max_runnable.max(r.log.max_runnable);
        if taken.iter().any(|c| *c != 0) {
            distinct_nonfifo += 1;
        }
        match judge13(&exp, r, &script) {
            Ok(()) => true,
            Err(e) => {
                failure = Some(e);
                false
            }
        }
    });
    if let Some(f) = failure {
        return Outcome::fail(f);
    }
    for seed in &c.seeds {
        let r = mk(Chooser::Seeded(*seed));
        if r.log.choices.iter().any(|c| c.1 != 0) {
            distinct_nonfifo += 1;
        }
        if let Err(e) = judge13(&exp, &r, &script) {
            return Outcome::fail(e);
        }
    }
    SCHEDULES_RUN.fetch_add(runs as u64 + c.seeds.len() as u64, std::sync::atomic::Ordering::Relaxed);
    SCHEDULES_NONFIFO.fetch_add(distinct_nonfifo as u64, std::sync::atomic::Ordering::Relaxed);
    Outcome::pass(distinct_nonfifo >= 2 && max_runnable >= 2)
        .class_if(exhausted, "schedule-space-exhausted")
        .class_if(!exhausted, "schedule-budget-hit")
        .class_if(prog_has(&prog, &|c| matches!(c, Cmd::Bg(_))), "async")
        .class_if(prog_has(&prog, &|c| matches!(c, Cmd::WaitPid(_))), "wait-pid")
        .class_if(prog_has(&prog, &|c| matches!(c, Cmd::Pipe(s) if s.len() >= 2)), "pipeline")
        .class_if(prog_has(&prog, &|c| matches!(c, Cmd::Pipe(s) if matches!(s.first(), Some(Stage::Gen(_))))), "pipeline-with-data")
        .class_if(prog_has(&prog, &|c| matches!(c, Cmd::Pipefail(true))), "pipefail")
        .class_if(prog_has(&prog, &|c| matches!(c, Cmd::CmdSub(_))), "command-substitution")
        .class_if(prog_has(&prog, &|c| matches!(c, Cmd::EarlyExit { .. })), "last-stage-exits-before-writers")
        .class_if(prog_has(&prog, &|c| matches!(c, Cmd::StopStage { .. })), "component-stopped-and-resumed")
}

fn prog_has(p: &[Cmd], f: &dyn Fn(&Cmd) -> bool) -> bool {
    p.iter().any(|c| {
        f(c) || match c {
            Cmd::Sub(b) | Cmd::Bg(b) | Cmd::CmdSub(b) => prog_has(b, f),
            Cmd::Pipe(st) => st.iter().any(|s| matches!(s, Stage::List(b) if prog_has(b, f))),
            _ => false,
        }
    })
}

pub static SCHEDULES_RUN: std::sync::atomic::AtomicU64 = std::sync::atomic::AtomicU64::new(0);
pub static SCHEDULES_NONFIFO: std::sync::atomic::AtomicU64 = std::sync::atomic::AtomicU64::new(0);

pub static SCHED: Driver<SchedCase> = Driver::new("C13", "schedule", check_sched);

fn arb_cmd() -> impl Strategy<Value = Cmd> {
    let leaf = prop_oneof![
        4 => Just(Cmd::Mark(0)),
        3 => (0u8..4).prop_map(Cmd::St),
        1 => Just(Cmd::Wait),
        2 => (0u8..3).prop_map(Cmd::WaitPid),
        1 => Just(Cmd::WaitUnknown),
        2 => (0u8..4).prop_map(Cmd::WaitOuter),
        1 => any::<bool>().prop_map(Cmd::Pipefail),
        2 => (0u16..1500, 0u8..3, 0u8..4).prop_map(|(extra, cats, st)| Cmd::EarlyExit { extra, cats, st }),
        2 => (0u8..4, any::<bool>()).prop_map(|(st, last)| Cmd::StopStage { st, last }),
    ];
    leaf.prop_recursive(3, 16, 3, |inner| {
        let list = prop::collection::vec(inner.clone(), 1..3);
        let stage = prop_oneof![
            4 => list.clone().prop_map(Stage::List),
            2 => Just(Stage::Cat),
            2 => prop_oneof![Just(1u16), Just(600), Just(1100), Just(2500), 0u16..3000].prop_map(Stage::Gen),
            2 => Just(Stage::Sink),
        ];
        prop_oneof![
            2 => list.clone().prop_map(Cmd::Sub),
            4 => prop::collection::vec(stage, 2..5).prop_map(Cmd::Pipe),
            3 => list.clone().prop_map(Cmd::Bg),
            1 => list.prop_map(Cmd::CmdSub),
        ]
    })
}

/// Short command sequences for situations that independent random commands rarely line up:
/// several failing components under `pipefail`, and statuses asked for after `wait` has already
/// collected (and forgotten) the jobs, or asked for twice.
fn arb_scenario() -> impl Strategy<Value = Vec<Cmd>> {
    let st_list = |n: u8| Stage::List(vec![Cmd::St(n)]);
    prop_oneof![
        // set -o pipefail; st a | st b | st c [| st d]; mark
        (prop::collection::vec(0u8..4, 2..5), any::<bool>()).prop_map(move |(sts, off)| {
            let mut v = vec![Cmd::Pipefail(true), Cmd::Pipe(sts.iter().map(|n| st_list(*n)).collect()), Cmd::Mark(0)];
            if off {
                v.push(Cmd::Pipefail(false));
            }
            v
        }),
        // two or three background jobs, `wait`, then their statuses asked for by pid: 127
        (prop::collection::vec(0u8..4, 1..4), 0u8..3, 0u8..3).prop_map(|(sts, k, j)| {
            let mut v: Vec<Cmd> = sts.iter().map(|n| Cmd::Bg(vec![Cmd::St(*n)])).collect();
            v.extend([Cmd::Wait, Cmd::WaitPid(k), Cmd::Mark(0), Cmd::WaitPid(j), Cmd::Mark(0)]);
            v
        }),
        // `wait` with several operands, the last one known, unknown or already collected
        (prop::collection::vec(0u8..4, 1..4), prop::collection::vec(prop_oneof![3 => 0u8..3, 1 => Just(255u8)], 2..4)).prop_map(|(sts, ks)| {
            let mut v: Vec<Cmd> = sts.iter().map(|n| Cmd::Bg(vec![Cmd::St(*n)])).collect();
            v.extend([Cmd::WaitMany(ks), Cmd::Mark(0)]);
            v
        }),
        // subshells that must die of the signal that killed their last command; an asynchronous
        // list that resets its trap for SIGINT
        (0u8..3, any::<bool>()).prop_map(|(sig, trapped)| vec![Cmd::KilledLast { sig, trapped }, Cmd::Mark(0)]),
        Just(vec![Cmd::AsyncResetInt, Cmd::Mark(0)]),
        // a status asked for twice, and several operands' worth of waits in a row
        (prop::collection::vec(1u8..4, 1..4), 0u8..3).prop_map(|(sts, k)| {
            let mut v: Vec<Cmd> = sts.iter().map(|n| Cmd::Bg(vec![Cmd::Mark(0), Cmd::St(*n)])).collect();
            v.extend([Cmd::WaitPid(k), Cmd::Mark(0), Cmd::WaitPid(k), Cmd::Mark(0), Cmd::WaitPid(k + 1), Cmd::Mark(0), Cmd::Wait, Cmd::Mark(0)]);
            v
        }),
    ]
}

fn arb_sched_case() -> impl Strategy<Value = SchedCase> {
    let part = prop_oneof![
        5 => arb_cmd().prop_map(|c| vec![c]),
        2 => arb_scenario(),
    ];
    (prop::collection::vec(part, 1..5), prop::collection::vec(any::<u64>(), 4..5))
        .prop_map(|(parts, seeds)| SchedCase { prog: parts.into_iter().flatten().collect(), seeds })
}

pub fn run(ctx: &Ctx, st: &mut Stats) {
    let n = ctx.tier.pick(20_000, 300_000);
    SCHED.run_random(ctx, st, n, arb_sched_case);
    st.extra.insert("schedules_run".into(), serde_json::json!(SCHEDULES_RUN.load(std::sync::atomic::Ordering::Relaxed)));
    st.extra.insert("schedules_differing_from_fifo".into(), serde_json::json!(SCHEDULES_NONFIFO.load(std::sync::atomic::Ordering::Relaxed)));
}

pub fn replay(driver: &str, case: &serde_json::Value) -> Result<(Outcome, Option<&'static str>), String> {
    match driver {
        "schedule" => SCHED.replay_known(case),
        _ => Err(format!("unknown driver {driver}")),
    }
}

// ---------------------------------------------------------------------------------------------
// C14

#[derive(Clone, Copy, Debug, PartialEq, Eq, Hash, Serialize, Deserialize)]
pub enum Shape {
    /// gen | cat{k} | sink
    Pipe(u8),
    /// x=$(gen | cat{k})
    Subst(u8),
    /// x=$(echo "$(gen)")   (nested; echo adds one newline which is stripped again)
    Nested,
    /// sink <<'EOF' ... EOF
    HereDoc,
    /// v=<payload>; echo "$v" | cat{k} | sink   (payload without trailing newlines; echo adds one)
    VarEcho(u8),
    /// gen | while IFS= read -r l; do echo "$l"; done | sink   (the payload ends with a newline)
    ReadLoop,
    /// the same loop reading the shell's standard input, a pipe that a writer process fills in
    /// chunks of 1-7 bytes (a multi-byte character then arrives in pieces, and under the FIFO
    /// schedule the reader has always drained the pipe before the next piece is written)
    StdinReadLoop(u8),
}

#[derive(Clone, Debug, PartialEq, Eq, Hash, Serialize, Deserialize)]
pub struct DataCase {
    pub n: u16,
    pub trailing: u8,
    pub shape: Shape,
    pub chooser: Chooser,
    /// standard descriptors closed with `exec` before the transfer (bit 0: fd 1, bit 1: fd 0,
    /// bit 2: fd 2), so that pipe ends are allocated on the standard descriptor numbers
    #[serde(default)]
    pub pre: u8,
    /// payload of mostly multi-byte characters (character boundaries fall on every residue of any
    /// buffer size)
    #[serde(default)]
    pub utf8: bool,
    /// white space of several kinds right before the trailing newlines (and between the last two)
    #[serde(default)]
    pub ws: bool,
}

fn pre_text(pre: u8) -> String {
    let mut s = String::new();
    if pre & 1 != 0 {
        s.push_str("exec >&-\n");
    }
    if pre & 2 != 0 {
        s.push_str("exec <&-\n");
    }
    if pre & 4 != 0 {
        s.push_str("exec 2>&-\n");
    }
    s
}

fn cats(k: u8) -> String {
    (0..k).map(|_| " | cat").collect()
}

fn check_data(c: &DataCase) -> Outcome {
    let n = c.n as usize;
    let mut tn = (c.trailing as usize).min(n);
    if matches!(c.shape, Shape::ReadLoop | Shape::StdinReadLoop(_)) {
        // the loop drops an unterminated last line by design: the payload ends with a newline
        tn = tn.max(1).min(n);
    }
    let payload = if c.ws { probes::pattern_ws(n, tn) } else if c.utf8 { probes::pattern_utf8(n, tn) } else { probes::pattern(n, tn) };
    let u = if c.ws { " w" } else if c.utf8 { " u" } else { "" };
    let stripped: Vec<u8> = {
        let mut v = payload.clone();
        while v.last() == Some(&b'\n') {
            v.pop();
        }
        v
    };
    let text = String::from_utf8(payload.clone()).unwrap();
    let (script, want_sink, want_var): (String, Option<Vec<u8>>, Option<Vec<u8>>) = match c.shape {
        Shape::Pipe(k) => (format!("gen {n} {tn}{u}{} | sink s\nsnap end\n", cats(k)), Some(payload.clone()), None),
        Shape::Subst(k) => (format!("x=$(gen {n} {tn}{u}{})\nsnap end\n", cats(k)), None, Some(stripped.clone())),
        Shape::Nested => (format!("x=$(echo \"$(gen {n} {tn}{u})\")\nsnap end\n"), None, Some(stripped.clone())),
        Shape::HereDoc => {
            // the body of a here-document is a sequence of lines: payload must end with a newline
            let mut body = String::from_utf8(stripped.clone()).unwrap();
            body.push('\n');
            if body.lines().any(|l| l == "EOF") {
                return Outcome::skip("payload line equals the delimiter");
            }
            (format!("sink s <<'EOF'\n{body}EOF\nsnap end\n"), Some(body.into_bytes()), None)
        }
        Shape::ReadLoop => (
            format!("gen {n} {tn}{u} | while IFS= read -r l; do echo \"$l\"; done | sink s\nsnap end\n"),
            Some(if payload.last() == Some(&b'\n') { payload.clone() } else { Vec::new() }),
            None,
        ),
        Shape::StdinReadLoop(_) => (
            "while IFS= read -r l; do echo \"$l\"; done | sink s\nsnap end\n".to_string(),
            Some(if payload.last() == Some(&b'\n') { payload.clone() } else { Vec::new() }),
            None,
        ),
        Shape::VarEcho(k) => {
            let v = String::from_utf8(stripped.clone()).unwrap();
            let mut want = stripped.clone();
            want.push(b'\n');
            (format!("v='{v}'\necho \"$v\"{} | sink s\nsnap end\n", cats(k)), Some(want), None)
        }
    };
    let _ = text;
    let script = format!("{}{script}", pre_text(c.pre));
    let mut s = vsys::Setup::script(&script);
    s.chooser = c.chooser.clone();
    s.preempt = true;
    s.max_steps = 400_000;
    if let Shape::StdinReadLoop(k) = c.shape {
        if c.pre & 2 != 0 {
            return Outcome::skip("standard input closed before a loop that reads it");
        }
        let size = (k % 7) as usize + 1;
        s.stdin_pipe = Some(payload.chunks(size).map(|x| x.to_vec()).collect());
        // the FIFO schedule runs the reader until it blocks before the writer's next chunk
        s.preempt = !matches!(c.chooser, Chooser::Fifo);
    }
    let r = vsys::run(&s);
    let ctx = |m: String| format!("{m} [n={n} trailing={tn} shape={:?} closed-before={:03b} schedule={:?}] stderr={:?}", c.shape, c.pre, c.chooser, r.stderr);
    if let Some(p) = &r.panic {
        return Outcome::fail(ctx(format!("panic: {p}")));
    }
    if r.log.deadlock {
        return Outcome::fail(ctx("deadlock".into()));
    }
    if !r.finished || r.log.step_limit_hit {
        return Outcome::fail(ctx("did not finish within the step bound".into()));
    }
    if !r.stderr.is_empty() {
        return Outcome::fail(ctx("unexpected diagnostic".into()));
    }
    let Some(snap) = r.snaps.iter().find(|s| s.tag == "end") else {
        return Outcome::fail(ctx("script did not reach its end".into()));
    };
    if snap.status != 0 {
        return Outcome::fail(ctx(format!("status {} after the transfer", snap.status)));
    }
    if let Some(want) = want_sink {
        let Some(got) = r.sinks.iter().find(|s| s.tag == "s") else {
            return Outcome::fail(ctx("sink did not run to EOF".into()));
        };
        if got.data != want {
            let first = got.data.iter().zip(&want).position(|(a, b)| a != b).unwrap_or(got.data.len().min(want.len()));
            return Outcome::fail(ctx(format!("sink received {} bytes, expected {}; first difference at offset {first}", got.data.len(), want.len())));
        }
    }
    if let Some(want) = want_var {
        let got = snap.vars.get("x").and_then(|v| v.0.as_ref()).map(|v| v.join("")).unwrap_or_default();
        if got.as_bytes() != want.as_slice() {
            let first = got.as_bytes().iter().zip(&want).position(|(a, b)| a != b).unwrap_or(got.len().min(want.len()));
            return Outcome::fail(ctx(format!("$( ) produced {} bytes, expected {} (payload minus trailing newlines); first difference at offset {first}", got.len(), want.len())));
        }
    }
    let stages = match c.shape {
        Shape::Pipe(k) | Shape::VarEcho(k) => 2 + k as usize,
        Shape::Subst(k) => 1 + k as usize,
        Shape::Nested => 2,
        Shape::HereDoc => 1,
        Shape::ReadLoop | Shape::StdinReadLoop(_) => 3,
    };
    let nonfifo = r.log.choices.iter().any(|c| c.1 != 0);
    Outcome::pass((n > 512 || stages >= 2) && nonfifo)
        .class(match n { 0 => "n=0", 1..=511 => "n<PIPE_BUF", 512..=1024 => "PIPE_BUF<=n<=PIPE_SIZE", _ => "n>PIPE_SIZE" })
        .class(match c.shape { Shape::Pipe(_) => "pipe", Shape::Subst(_) => "subst", Shape::Nested => "nested-subst", Shape::HereDoc => "heredoc", Shape::VarEcho(_) => "var-echo", Shape::ReadLoop => "read-loop", Shape::StdinReadLoop(_) => "read-loop-on-chunk-fed-standard-input" })
        .class_if(c.ws, "white-space-before-the-trailing-newlines")
        .class_if(tn > 0, "trailing-newlines")
        .class_if(nonfifo, "non-fifo-schedule")
        .class_if(c.pre & 1 != 0, "stdout-closed-before")
        .class_if(c.pre & 2 != 0, "stdin-closed-before")
        .class_if(c.pre & 4 != 0, "stderr-closed-before")
        .class_if(c.utf8, "multi-byte-payload")
}

pub static DATA: Driver<DataCase> = Driver::new("C14", "data", check_data);

// ---- here-document bodies with every delimiter form and awkward lines ----

/// (raw line as written in the script, what an unquoted-delimiter here-document makes of it;
/// None = the line ends in a line continuation there)
const HERE_LINES: &[(&str, Option<&str>)] = &[
    ("plain text", Some("plain text")),
    ("", Some("")),
    ("\\", None),
    ("\t\\", None),
    ("a\\", None),
    ("a\\\\", Some("a\\")),
    ("\\$v", Some("$v")),
    ("$v", Some("VAL")),
    ("${v}x ${#v}", Some("VALx 3")),
    ("\\`", Some("`")),
    ("'q' \"dq\" \\\"e", Some("'q' \"dq\" \\\"e")),
    ("$", Some("$")),
    ("a\\b \\t", Some("a\\b \\t")),
    ("\tx", Some("\tx")),
    ("\t\ty\t", Some("\t\ty\t")),
    (" \tz", Some(" \tz")),
    ("$(echo cs)", Some("cs")),
    ("$((1+2))", Some("3")),
    ("EOFx", Some("EOFx")),
    (" EOF", Some(" EOF")),
    ("\\EOF", Some("\\EOF")),
    ("#c", Some("#c")),
];

#[derive(Clone, Debug, PartialEq, Eq, Hash, Serialize, Deserialize)]
pub struct HereCase {
    /// indices into HERE_LINES
    pub lines: Vec<u8>,
    /// `<<-`
    pub dash: bool,
    /// 0: EOF (body is expanded), 1: 'EOF', 2: "EOF", 3: E\OF
    pub quoted: u8,
    /// a block of this many bytes of the position-dependent pattern is inserted after `at` lines
    pub pad: u16,
    pub at: u8,
    /// descriptor the here-document is attached to (0, or 3 read through `<&3`)
    pub fd3: bool,
    pub chooser: Chooser,
}

fn strip_tabs(l: &str) -> &str {
    l.trim_start_matches('\t')
}

fn check_here(c: &HereCase) -> Outcome {
    let quoted = c.quoted % 4 != 0;
    let mut raw: Vec<String> = vec![];
    let mut want: Vec<String> = vec![];
    let mut pending: Option<String> = None; // text before a line continuation
    let mut lines: Vec<&(&str, Option<&str>)> = c.lines.iter().map(|i| &HERE_LINES[*i as usize % HERE_LINES.len()]).collect();
    if lines.is_empty() {
        lines.push(&HERE_LINES[0]);
    }
    let at = c.at as usize % (lines.len() + 1);
    let mut has_lone_backslash = false;
    for (k, (r, exp)) in lines.iter().enumerate() {
        if k == at && c.pad > 0 {
            if pending.is_some() {
                return Outcome::skip("pattern block after a line continuation");
            }
            let block = String::from_utf8(probes::pattern(c.pad as usize, 1)).unwrap();
            for l in block.lines() {
                raw.push(l.to_string());
                want.push(l.to_string());
            }
        }
        raw.push(r.to_string());
        has_lone_backslash |= strip_tabs(r) == "\\";
        let shown: &str = if c.dash { strip_tabs(r) } else { r };
        if quoted {
            want.push(shown.to_string());
        } else {
            if pending.is_some() && c.dash && r.starts_with('\t') {
                return Outcome::skip("tab stripping on a line that continues the previous one is not pinned down");
            }
            let head = pending.take().unwrap_or_default();
            match exp {
                Some(e) => {
                    let e: &str = if c.dash && head.is_empty() { strip_tabs(e) } else { e };
                    want.push(format!("{head}{e}"));
                }
                None => {
                    // backslash-newline: the line goes on
                    let body = &shown[..shown.len() - 1];
                    pending = Some(format!("{head}{body}"));
                }
            }
        }
    }
    if pending.is_some() {
        return Outcome::skip("last body line ends in a line continuation (joins the delimiter line)");
    }
    let delim = match c.quoted % 4 {
        0 => "EOF",
        1 => "'EOF'",
        2 => "\"EOF\"",
        _ => "E\\OF",
    };
    let op = if c.dash { "<<-" } else { "<<" };
    let mut body = String::new();
    for l in &raw {
        body.push_str(l);
        body.push('\n');
    }
    let end = if c.dash { "\tEOF" } else { "EOF" };
    let script = if c.fd3 {
        format!("v=VAL\nsink s 3{op}{delim} <&3\n{body}{end}\nsnap end\n")
    } else {
        format!("v=VAL\nsink s {op}{delim}\n{body}{end}\nsnap end\n")
    };
    let mut expect = String::new();
    for l in &want {
        expect.push_str(l);
        expect.push('\n');
    }
    let mut s = vsys::Setup::script(&script);
    s.chooser = c.chooser.clone();
    s.preempt = true;
    s.max_steps = 400_000;
    let r = vsys::run(&s);
    let ctx = |m: String| format!("{m}\nscript:\n{script}stderr: {:?}", r.stderr);
    if let Some(p) = &r.panic {
        return Outcome::fail(ctx(format!("panic: {p}")));
    }
    if r.log.deadlock || !r.finished || r.log.step_limit_hit {
        return Outcome::fail(ctx("the shell did not finish".into()));
    }
    if !r.stderr.is_empty() {
        return Outcome::fail(ctx("unexpected diagnostic".into()));
    }
    let Some(snap) = r.snaps.iter().find(|s| s.tag == "end") else {
        return Outcome::fail(ctx("script did not reach its end (a body line was taken for the delimiter, or the delimiter line for body)".into()));
    };
    if snap.status != 0 {
        return Outcome::fail(ctx(format!("status {} after the here-document command", snap.status)));
    }
    let Some(got) = r.sinks.iter().find(|s| s.tag == "s") else {
        return Outcome::fail(ctx("the command did not read its standard input to the end".into()));
    };
    if got.data != expect.as_bytes() {
        let first = got.data.iter().zip(expect.as_bytes()).position(|(a, b)| a != b).unwrap_or(got.data.len().min(expect.len()));
        return Outcome::fail(ctx(format!(
            "here-document body: the command received {} bytes, expected {}; first difference at offset {first}: got {:?}, expected {:?}",
            got.data.len(),
            expect.len(),
            String::from_utf8_lossy(&got.data[first.saturating_sub(10)..(first + 20).min(got.data.len())]),
            &expect[first.saturating_sub(10).min(expect.len())..(first + 20).min(expect.len())]
        )));
    }
    Outcome::pass(lines.len() >= 2)
        .class(if quoted { "here:quoted-delimiter" } else { "here:expanded-body" })
        .class_if(c.dash, "here:tab-stripping")
        .class_if(c.pad as usize > 1024, "here:beyond-pipe-capacity")
        .class_if(has_lone_backslash, "here:lone-backslash-line")
        .class_if(c.fd3, "here:on-descriptor-3")
}

pub static HERE: Driver<HereCase> = Driver::new("C14", "heredoc", check_here);

fn arb_here_case() -> impl Strategy<Value = HereCase> {
    (
        prop::collection::vec(0u8..HERE_LINES.len() as u8, 1..7),
        any::<bool>(),
        0u8..4,
        prop_oneof![3 => Just(0u16), 2 => 1u16..600, 1 => 1000u16..4200],
        any::<u8>(),
        prop::bool::weighted(0.2),
        prop_oneof![1 => Just(Chooser::Fifo), 2 => any::<u64>().prop_map(Chooser::Seeded)],
    )
        .prop_map(|(lines, dash, quoted, pad, at, fd3, chooser)| HereCase { lines, dash, quoted, pad, at, fd3, chooser })
}

const SIZES: [u16; 19] = [0, 1, 2, 511, 512, 513, 1023, 1024, 1025, 1535, 1536, 2047, 2048, 2049, 3071, 3072, 4095, 4096, 4097];

fn shapes() -> Vec<Shape> {
    vec![Shape::Pipe(0), Shape::Pipe(1), Shape::Pipe(3), Shape::Subst(0), Shape::Subst(2), Shape::Nested, Shape::HereDoc, Shape::VarEcho(1), Shape::ReadLoop, Shape::StdinReadLoop(0), Shape::StdinReadLoop(1), Shape::StdinReadLoop(4)]
}

pub fn run14(ctx: &Ctx, st: &mut Stats) {
    // grid: sizes x trailing x shapes x (FIFO + seeded schedules)
    let shape_list = shapes();
    let nsched: u64 = ctx.tier.pick(16, 200);
    const PRES: [u8; 6] = [0, 1, 2, 3, 4, 7];
    let total = SIZES.len() as u64 * 4 * shape_list.len() as u64 * nsched * PRES.len() as u64;
    let shapes_r = &shape_list;
    let seed = ctx.seed;
    let decode = move |i: u64| -> Option<DataCase> {
        let pre = PRES[(i % PRES.len() as u64) as usize];
        let i = i / PRES.len() as u64;
        let sc = i % nsched;
        let r = i / nsched;
        let shape = shapes_r[(r % shapes_r.len() as u64) as usize];
        let r = r / shapes_r.len() as u64;
        let trailing = (r % 4) as u8;
        let n = SIZES[(r / 4) as usize];
        let chooser = if sc == 0 { Chooser::Fifo } else { Chooser::Seeded(seed.wrapping_mul(1000).wrapping_add(i)) };
        // the multi-byte payload on the plain descriptor set-up (alternating), ASCII otherwise
        let utf8 = pre == 0 && sc % 2 == 1;
        // the white-space tail on every third of the remaining schedules
        let ws = !utf8 && sc % 3 == 2;
        Some(DataCase { n, trailing, shape, chooser, pre, utf8, ws })
    };
    DATA.run_exhaustive(ctx, st, total, &decode);
    st.exhaustive_drivers.retain(|d| d != "data"); // the schedule dimension is sampled, not enumerated
    // random sizes, scripted (shrinkable) schedules
    let n = ctx.tier.pick(150_000, 3_000_000);
    DATA.run_random(ctx, st, n, || {
        (0u16..4200, 0u8..4, prop::sample::select(shapes()), prop::collection::vec(any::<u8>(), 0..200), prop_oneof![3 => Just(0u8), 2 => 0u8..8], 0u8..5)
            .prop_map(|(n, trailing, shape, v, pre, kind)| DataCase { n, trailing, shape, chooser: Chooser::Scripted(v), pre, utf8: kind >= 3, ws: kind == 2 })
    });
    // here-document bodies: delimiter forms x tab stripping x awkward lines
    let nl = HERE_LINES.len() as u64;
    let total = nl * nl * 2 * 4;
    HERE.run_exhaustive(ctx, st, total, &|i| {
        let quoted = (i % 4) as u8;
        let dash = (i / 4) % 2 == 1;
        let r = i / 8;
        Some(HereCase { lines: vec![(r % nl) as u8, (r / nl) as u8], dash, quoted, pad: 0, at: 0, fd3: false, chooser: Chooser::Fifo })
    });
    let n = ctx.tier.pick(40_000, 1_500_000);
    HERE.run_random(ctx, st, n, arb_here_case);
    // exhaustive DFS over schedules for a few small transfers
    let mut dfs_runs = 0u64;
    let mut dfs_exhausted = 0u64;
    for (n, shape) in [(600u16, Shape::Pipe(0)), (1100, Shape::Pipe(0)), (1100, Shape::Subst(0)), (600, Shape::Pipe(1))] {
        let budget = ctx.tier.pick(3_000, 100_000);
        let mut fail: Option<Failure> = None;
        let (runs, exhausted) = vsys::dfs_schedules(
            budget,
            |chooser| {
                // run through check_data to share the oracle; the RunResult is recomputed there, so
                // here only the schedule log is needed
                let c = DataCase { n, trailing: 1, shape, chooser: chooser.clone(), pre: 0, utf8: false, ws: false };
                let (out, _) = DATA.eval(&c);
                if let Verdict::Fail(m) = out.verdict {
                    fail.get_or_insert(Failure { driver: "data".into(), case: serde_json::to_value(&c).unwrap(), message: m });
                }
                // re-run to obtain the choice log for the DFS (cheap)
                let payload_script = match shape {
                    Shape::Pipe(k) => format!("gen {n} 1{} | sink s\nsnap end\n", cats(k)),
                    Shape::Subst(k) => format!("x=$(gen {n} 1{})\nsnap end\n", cats(k)),
                    _ => unreachable!(),
                };
                let mut s = vsys::Setup::script(&payload_script);
                s.chooser = chooser;
                s.preempt = true;
                s.max_steps = 400_000;
                vsys::run(&s)
            },
            |_, _| true,
        );
        dfs_runs += runs as u64;
        if exhausted {
            dfs_exhausted += 1;
        }
        st.evaluations += runs as u64;
        *st.per_driver.entry("data-dfs".into()).or_default() += runs as u64;
        if let Some(f) = fail {
            st.failures.push(f);
        }
    }
    st.extra.insert("dfs_schedules_run".into(), serde_json::json!(dfs_runs));
    st.extra.insert("dfs_transfers_fully_enumerated".into(), serde_json::json!(dfs_exhausted));
}

pub fn replay14(driver: &str, case: &serde_json::Value) -> Result<(Outcome, Option<&'static str>), String> {
    match driver {
        "data" => DATA.replay_known(case),
        "heredoc" => HERE.replay_known(case),
        _ => Err(format!("unknown driver {driver}")),
    }
}
