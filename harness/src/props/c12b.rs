//! C12, end to end — `%%`, `%+`, `%-`, `%n`, `%?name` and `$!` designate the jobs the documentation
//! says they do, through the job-control built-ins of a real shell.
//!
//! A case is a list of abstract job events. It is turned into a script step by step, with feedback:
//! the script built so far is run on the simulated OS (job control on, `set -m`), the job table it
//! prints after every event is parsed, and the next event is resolved against that table (for
//! instance "`fg` without an operand" is only appended when the job marked `+` is one that stops or
//! ends by itself once resumed, because resuming any other one would block for ever). Every run is
//! a pure function of the case, so the prefix of table dumps never changes between runs.
//!
//! Jobs are subshells that stop themselves (`selfkill STOP`) a generated number of times, or stop
//! once and then stay busy (`hold`), or run busy in the background from the start. None of them
//! changes state by itself while the shell is not waiting for it, so every table is determined.
//!
//! Oracle after every event (documented behaviour only, docs/src/interactive/job_control.md and the
//! property statement): the table lists exactly the jobs of the model with their states; numbers never
//! change; one current job if the table is not empty, a distinct previous job if it holds two or
//! more; with suspended jobs the current job is suspended, with two or more the previous job too;
//! "when a job is suspended, it becomes the current job, and the previous current job becomes the
//! previous job"; `%`, `%%`, `%+` name the job marked `+`, `%-` the one marked `-`, `%n` job n,
//! `%?text` the job whose name holds the text; `fg`/`bg` act on the job their operand designates in
//! the table printed just before; `$!` is the process ID of the last asynchronous job.

use crate::engine::*;
use crate::vsys;
use proptest::prelude::*;
use serde::{Deserialize, Serialize};

#[derive(Clone, Copy, Debug, PartialEq, Eq, Hash, Serialize, Deserialize)]
pub enum Spec {
    /// no operand (the current job)
    None,
    Percent,
    PercentPercent,
    Plus,
    Minus,
    /// `%n` with the number taken from the table printed before
    Num,
    /// `%?jK`
    Name,
}

#[derive(Clone, Copy, Debug, PartialEq, Eq, Hash, Serialize, Deserialize)]
pub enum JOp {
    /// foreground subshell that stops itself `k` times in all (k >= 1), then ends with status n
    NewS { k: u8, n: u8 },
    /// foreground subshell that stops itself once and, once resumed, stays busy
    NewH { n: u8 },
    /// asynchronous subshell that stays busy
    NewR { n: u8 },
    Fg { spec: Spec, sel: u8 },
    Bg { spec: Spec, sel: u8 },
    /// `kill -s KILL %?jK; wait %?jK`
    Kill { sel: u8 },
}

#[derive(Clone, Debug, PartialEq, Eq, Hash, Serialize, Deserialize)]
pub struct JobCase {
    pub ops: Vec<JOp>,
    pub seed: u64,
}

#[derive(Clone, Copy, Debug, PartialEq, Eq)]
enum Kind {
    /// stops that are still ahead once it is resumed
    S { rem: u8 },
    H,
    R,
}

#[derive(Clone, Debug)]
struct MJob {
    id: usize,
    kind: Kind,
    stopped: bool,
    n: u8,
}

#[derive(Clone, Debug, PartialEq, Eq)]
struct Row {
    num: u32,
    mark: char,
    pid: i64,
    stopped: bool,
    running: bool,
    id: Option<usize>,
    text: String,
}

#[derive(Clone, Debug, Default)]
struct Dump {
    table: Vec<Row>,
    /// output of `jobs SPEC` per spec label
    by_spec: Vec<(String, Vec<String>)>,
    extra: Vec<(String, String)>,
}

const MAX_NUM: u32 = 7;

fn parse_row(line: &str) -> Option<Row> {
    // `[n] M    pid State     name` (jobs -l)
    let rest = line.strip_prefix('[')?;
    let close = rest.find(']')?;
    let num: u32 = rest[..close].parse().ok()?;
    let rest = &rest[close + 1..];
    let mut chars = rest.chars();
    if chars.next()? != ' ' {
        return None;
    }
    let mark = chars.next()?;
    if !matches!(mark, '+' | '-' | ' ') {
        return None;
    }
    let rest = chars.as_str().trim_start();
    let (pid_s, rest) = rest.split_once(char::is_whitespace)?;
    let pid: i64 = pid_s.parse().ok()?;
    let rest = rest.trim_start();
    let (state, name) = match rest.split_once(char::is_whitespace) {
        Some((s, n)) => (s, n.trim_start()),
        None => (rest, ""),
    };
    let id = name.find(": j").and_then(|i| {
        let digits: String = name[i + 3..].chars().take_while(|c| c.is_ascii_digit()).collect();
        digits.parse().ok()
    });
    Some(Row { num, mark, pid, stopped: state.starts_with("Stopped"), running: state.starts_with("Running"), id, text: line.to_string() })
}

/// the same row as printed without `-l` (no pid column): compare by number, mark and job id
fn parse_row_short(line: &str) -> Option<(u32, char, Option<usize>)> {
    let rest = line.strip_prefix('[')?;
    let close = rest.find(']')?;
    let num: u32 = rest[..close].parse().ok()?;
    let rest = &rest[close + 1..];
    let mut chars = rest.chars();
    if chars.next()? != ' ' {
        return None;
    }
    let mark = chars.next()?;
    let name = chars.as_str();
    let id = name.find(": j").and_then(|i| {
        let digits: String = name[i + 3..].chars().take_while(|c| c.is_ascii_digit()).collect();
        digits.parse().ok()
    });
    Some((num, mark, id))
}

fn dump_text(i: usize, live: &[usize]) -> String {
    let mut s = format!("echo '@@ {i}'\njobs -l\n");
    for (label, spec) in [("+", "%+"), ("%%", "%%"), ("%", "%"), ("-", "%-")] {
        s.push_str(&format!("echo '@s {label}'\njobs {spec}\n"));
    }
    for n in 1..=MAX_NUM {
        s.push_str(&format!("echo '@s #{n}'\njobs %{n}\n"));
    }
    for id in live {
        s.push_str(&format!("echo '@s ?{id}'\njobs '%?: j{id};'\n"));
    }
    s.push_str("echo '@@end'\n");
    s
}

/// Splits stdout into the text between dumps (`extra` lines such as `@rc`, `@bang`, fg/bg output)
/// and the dumps.
fn parse_output(stdout: &str) -> Result<Vec<Dump>, String> {
    let mut dumps = vec![];
    let mut cur: Option<Dump> = None;
    let mut pending_extra: Vec<(String, String)> = vec![];
    let mut spec: Option<String> = None;
    for line in stdout.lines() {
        if let Some(_i) = line.strip_prefix("@@ ") {
            let mut d = Dump::default();
            d.extra = std::mem::take(&mut pending_extra);
            cur = Some(d);
            spec = None;
        } else if line == "@@end" {
            dumps.push(cur.take().ok_or("@@end without a dump")?);
            spec = None;
        } else if let Some(label) = line.strip_prefix("@s ") {
            let d = cur.as_mut().ok_or("@s outside a dump")?;
            d.by_spec.push((label.to_string(), vec![]));
            spec = Some(label.to_string());
        } else if let Some(d) = cur.as_mut() {
            if spec.is_some() {
                d.by_spec.last_mut().unwrap().1.push(line.to_string());
            } else {
                let row = parse_row(line).ok_or_else(|| format!("unparsable line in the job table: {line:?}"))?;
                d.table.push(row);
            }
        } else if let Some(rest) = line.strip_prefix('@') {
            let (k, v) = rest.split_once(' ').unwrap_or((rest, ""));
            pending_extra.push((k.to_string(), v.to_string()));
        } else {
            pending_extra.push(("out".to_string(), line.to_string()));
        }
    }
    Ok(dumps)
}

struct Step {
    text: String,
    /// what the step must do to the model
    effect: Effect,
}

#[derive(Clone, Debug)]
enum Effect {
    /// a new job, suspended at once (became suspended: documented to become the current job)
    NewStopped(MJob),
    NewRunning(MJob),
    /// job `id` resumed in the foreground; `dynamic` = the operand named it through a mark
    Fg { id: usize, dynamic: bool },
    Bg { id: usize, dynamic: bool },
    Kill { id: usize },
}

fn spec_text(spec: Spec, row: &Row, id: usize) -> String {
    match spec {
        Spec::None => String::new(),
        Spec::Percent => " %".into(),
        Spec::PercentPercent => " %%".into(),
        Spec::Plus => " %+".into(),
        Spec::Minus => " %-".into(),
        Spec::Num => format!(" %{}", row.num),
        Spec::Name => format!(" '%?: j{id};'"),
    }
}

/// Resolves an abstract event against the model and the table printed last.
fn resolve(op: JOp, model: &[MJob], last: &Dump, next_id: usize) -> Option<Step> {
    let live = model.len();
    match op {
        JOp::NewS { k, n } => {
            if live >= 5 {
                return None;
            }
            let k = k.clamp(1, 3);
            let stops = "selfkill STOP; ".repeat(k as usize);
            Some(Step {
                text: format!("(: j{next_id}; {stops}st {n})\necho \"@rc $?\"\n"),
                effect: Effect::NewStopped(MJob { id: next_id, kind: Kind::S { rem: k - 1 }, stopped: true, n }),
            })
        }
        JOp::NewH { n } => {
            if live >= 5 {
                return None;
            }
            Some(Step {
                text: format!("(: j{next_id}; selfkill STOP; hold; st {n})\necho \"@rc $?\"\n"),
                effect: Effect::NewStopped(MJob { id: next_id, kind: Kind::H, stopped: true, n }),
            })
        }
        JOp::NewR { n } => {
            if live >= 5 {
                return None;
            }
            Some(Step {
                text: format!("(: j{next_id}; hold; st {n}) &\necho \"@bang $!\"\n"),
                effect: Effect::NewRunning(MJob { id: next_id, kind: Kind::R, stopped: false, n }),
            })
        }
        JOp::Fg { spec, sel } | JOp::Bg { spec, sel } => {
            let is_fg = matches!(op, JOp::Fg { .. });
            let eligible = |j: &MJob| j.stopped && if is_fg { matches!(j.kind, Kind::S { .. }) } else { j.kind == Kind::H };
            let target: &MJob = match spec {
                Spec::Num | Spec::Name => {
                    let c: Vec<&MJob> = model.iter().filter(|j| eligible(j)).collect();
                    if c.is_empty() {
                        return None;
                    }
                    c[sel as usize % c.len()]
                }
                Spec::Minus => {
                    let row = last.table.iter().find(|r| r.mark == '-')?;
                    model.iter().find(|j| Some(j.id) == row.id && eligible(j))?
                }
                _ => {
                    let row = last.table.iter().find(|r| r.mark == '+')?;
                    model.iter().find(|j| Some(j.id) == row.id && eligible(j))?
                }
            };
            let row = last.table.iter().find(|r| r.id == Some(target.id))?;
            let dynamic = !matches!(spec, Spec::Num | Spec::Name);
            let cmd = if is_fg { "fg" } else { "bg" };
            Some(Step {
                text: format!("echo '@{cmd}'\n{cmd}{}\necho \"@rc $?\"\n", spec_text(spec, row, target.id)),
                effect: if is_fg { Effect::Fg { id: target.id, dynamic } } else { Effect::Bg { id: target.id, dynamic } },
            })
        }
        JOp::Kill { sel } => {
            if model.is_empty() {
                return None;
            }
            let j = &model[sel as usize % model.len()];
            Some(Step {
                text: format!("kill -s KILL '%?: j{};'\nwait '%?: j{};'\necho \"@rc $?\"\n", j.id, j.id),
                effect: Effect::Kill { id: j.id },
            })
        }
    }
}

fn rc_of(d: &Dump) -> Option<i64> {
    d.extra.iter().rev().find(|(k, _)| k == "rc").and_then(|(_, v)| v.parse().ok())
}

/// Checks the table printed after `effect` was applied to `model` (already updated) against the
/// table printed before.
fn check_dump(model: &[MJob], before: &Dump, after: &Dump, effect: &Effect, numbers: &mut Vec<(usize, u32)>) -> Result<(), String> {
    let t = &after.table;
    // 1. exactly the jobs of the model, in their states
    for r in t {
        let Some(id) = r.id else { return Err(format!("a job the script never started is listed: {:?}", r.text)) };
        let Some(j) = model.iter().find(|j| j.id == id) else {
            return Err(format!("job j{id} is listed although it has ended and was removed: {:?}", r.text));
        };
        if j.stopped != r.stopped || j.stopped == r.running {
            return Err(format!("job j{id} must be {}: {:?}", if j.stopped { "suspended" } else { "running" }, r.text));
        }
    }
    for j in model {
        let n = t.iter().filter(|r| r.id == Some(j.id)).count();
        if n != 1 {
            return Err(format!("job j{} is listed {n} times", j.id));
        }
    }
    // 2. numbers are distinct and never change
    for r in t {
        if t.iter().filter(|q| q.num == r.num).count() != 1 {
            return Err(format!("job number {} is used twice", r.num));
        }
        let id = r.id.unwrap();
        match numbers.iter().find(|(i, _)| *i == id) {
            Some((_, n)) if *n != r.num => return Err(format!("job j{id} had number {n}, now it has {}", r.num)),
            Some(_) => {}
            None => numbers.push((id, r.num)),
        }
    }
    // 3. current / previous job
    let cur: Vec<&Row> = t.iter().filter(|r| r.mark == '+').collect();
    let prev: Vec<&Row> = t.iter().filter(|r| r.mark == '-').collect();
    if !t.is_empty() && cur.len() != 1 {
        return Err(format!("a non-empty job table must have exactly one current job, {} are marked +", cur.len()));
    }
    if t.len() >= 2 && prev.len() != 1 {
        return Err(format!("with two or more jobs there must be exactly one previous job, {} are marked -", prev.len()));
    }
    if t.len() < 2 && !prev.is_empty() {
        return Err("a single job cannot be the previous job as well".into());
    }
    let nstopped = t.iter().filter(|r| r.stopped).count();
    if nstopped >= 1 && !cur[0].stopped {
        return Err(format!("suspended jobs exist but the current job is not suspended: {:?}", cur[0].text));
    }
    if nstopped >= 2 && !prev[0].stopped {
        return Err(format!("two or more suspended jobs exist but the previous job is not suspended: {:?}", prev[0].text));
    }
    // 4. "When a job is suspended, it becomes the current job, and the previous current job
    //    becomes the previous job."
    let suspended_now: Option<usize> = match effect {
        Effect::NewStopped(j) => Some(j.id),
        Effect::Fg { id, .. } if model.iter().any(|j| j.id == *id) => Some(*id),
        _ => None,
    };
    if let Some(id) = suspended_now {
        if cur[0].id != Some(id) {
            return Err(format!(
                "job j{id} has just been suspended, so it is the current job (docs/src/interactive/job_control.md: \"When a job is suspended, it becomes the current job\"), but + marks {:?}",
                cur[0].text
            ));
        }
        if let Some(old) = before.table.iter().find(|r| r.mark == '+') {
            if old.id != Some(id) && t.iter().any(|r| r.id == old.id) && prev.first().map(|r| r.id) != Some(old.id) {
                return Err(format!(
                    "job j{id} has just been suspended, so the old current job j{} is the previous job now, but - marks {:?}",
                    old.id.unwrap_or(0),
                    prev.first().map(|r| r.text.clone())
                ));
            }
        }
    }
    // 5. job IDs
    for (label, lines) in &after.by_spec {
        let want: Option<&Row> = match label.as_str() {
            "+" | "%%" | "%" => cur.first().copied(),
            "-" => prev.first().copied(),
            l if l.starts_with('#') => {
                let n: u32 = l[1..].parse().unwrap();
                t.iter().find(|r| r.num == n)
            }
            l if l.starts_with('?') => {
                let id: usize = l[1..].parse().unwrap();
                t.iter().find(|r| r.id == Some(id))
            }
            _ => None,
        };
        let got: Vec<(u32, char, Option<usize>)> = lines.iter().filter_map(|l| parse_row_short(l)).collect();
        match want {
            Some(w) => {
                if got.len() != 1 || got[0] != (w.num, w.mark, w.id) {
                    return Err(format!("job ID {label:?} must designate {:?}, `jobs` with it printed {lines:?}", w.text));
                }
            }
            None => {
                if !got.is_empty() {
                    return Err(format!("job ID {label:?} designates no job, yet `jobs` with it printed {lines:?}"));
                }
            }
        }
    }
    Ok(())
}

fn run_script(script: &str, seed: u64) -> vsys::RunResult {
    let mut s = vsys::Setup::script(script);
    s.chooser = vsys::Chooser::Seeded(seed);
    s.preempt = true;
    s.drain = false;
    vsys::run(&s)
}

fn check_jobctl(c: &JobCase) -> Outcome {
    let mut script = String::from("set -m\n");
    script.push_str(&dump_text(0, &[]));
    let mut model: Vec<MJob> = vec![];
    let mut numbers: Vec<(usize, u32)> = vec![];
    let mut dumps: Vec<Dump> = vec![Dump::default()];
    let mut next_id = 1;
    let mut applied = 0;
    let mut saw_dynamic = false;
    let mut saw_two_stopped = false;
    let mut saw_removal = false;
    for op in &c.ops {
        let last = dumps.last().unwrap().clone();
        let Some(step) = resolve(*op, &model, &last, next_id) else { continue };
        let before_model = model.clone();
        // update the model
        let mut expect_rc: Option<Box<dyn Fn(i64) -> bool>> = None;
        let mut expect_out: Option<usize> = None;
        match &step.effect {
            Effect::NewStopped(j) => {
                model.push(j.clone());
                next_id += 1;
                expect_rc = Some(Box::new(|rc| rc > 128));
            }
            Effect::NewRunning(j) => {
                model.push(j.clone());
                next_id += 1;
            }
            Effect::Fg { id, dynamic } => {
                saw_dynamic |= *dynamic;
                expect_out = Some(*id);
                let j = model.iter_mut().find(|j| j.id == *id).unwrap();
                match j.kind {
                    Kind::S { rem } if rem > 0 => {
                        j.kind = Kind::S { rem: rem - 1 };
                        expect_rc = Some(Box::new(|rc| rc > 128));
                    }
                    _ => {
                        let n = j.n as i64;
                        expect_rc = Some(Box::new(move |rc| rc == n));
                        model.retain(|j| j.id != *id);
                        saw_removal = true;
                    }
                }
            }
            Effect::Bg { id, dynamic } => {
                saw_dynamic |= *dynamic;
                expect_out = Some(*id);
                model.iter_mut().find(|j| j.id == *id).unwrap().stopped = false;
                expect_rc = Some(Box::new(|rc| rc == 0));
            }
            Effect::Kill { id } => {
                model.retain(|j| j.id != *id);
                expect_rc = Some(Box::new(|rc| rc > 128));
                saw_removal = true;
            }
        }
        applied += 1;
        script.push_str(&step.text);
        let live: Vec<usize> = model.iter().map(|j| j.id).collect();
        script.push_str(&dump_text(applied, &live));
        let r = run_script(&script, c.seed);
        let ctx = |m: String| format!("{m}\nevent {op:?} -> {:?}\nscript:\n{script}stdout:\n{}stderr: {:?}", step.effect, r.stdout, r.stderr);
        if let Some(p) = &r.panic {
            return Outcome::fail(ctx(format!("panic: {p}")));
        }
        if !r.finished {
            return Outcome::fail(ctx("the shell did not finish (a job-control built-in waits for a job that cannot end: it resumed or awaited another job than the one designated)".into()));
        }
        let new_dumps = match parse_output(&r.stdout) {
            Ok(d) => d,
            Err(e) => return Outcome::fail(ctx(e)),
        };
        if new_dumps.len() != applied + 1 {
            return Outcome::fail(ctx(format!("{} of {} job tables were printed", new_dumps.len(), applied + 1)));
        }
        for (i, d) in dumps.iter().enumerate() {
            if d.table != new_dumps[i].table {
                return Outcome::fail(ctx(format!("job table {i} differs between two runs of the same script prefix")));
            }
        }
        let after = new_dumps.last().unwrap().clone();
        if let Some(f) = &expect_rc {
            match rc_of(&after) {
                Some(rc) if f(rc) => {}
                other => return Outcome::fail(ctx(format!("unexpected exit status {other:?} of the event"))),
            }
        }
        if let Some(id) = expect_out {
            // fg prints the job name, bg `[n] name`
            let named = after.extra.iter().any(|(k, v)| k == "out" && v.contains(&format!(": j{id};")));
            if !named {
                return Outcome::fail(ctx(format!("the built-in did not act on job j{id}, which its operand designates in the table printed before")));
            }
        }
        if let Effect::NewRunning(j) = &step.effect {
            let bang: Option<i64> = after.extra.iter().rev().find(|(k, _)| k == "bang").and_then(|(_, v)| v.parse().ok());
            let pid = after.table.iter().find(|r| r.id == Some(j.id)).map(|r| r.pid);
            if bang.is_none() || bang != pid {
                return Outcome::fail(ctx(format!("$! is {bang:?} but the asynchronous job j{} has process ID {pid:?}", j.id)));
            }
        }
        if let Err(e) = check_dump(&model, &last, &after, &step.effect, &mut numbers) {
            let _ = &before_model;
            return Outcome::fail(ctx(e));
        }
        saw_two_stopped |= after.table.iter().filter(|r| r.stopped).count() >= 2;
        dumps.push(after);
    }
    Outcome::pass(saw_two_stopped && saw_removal)
        .class_if(saw_dynamic, "fg-or-bg-through-a-mark")
        .class_if(saw_two_stopped, "two-suspended-jobs")
        .class_if(saw_removal, "job-removed")
        .class_if(applied >= 5, "five-or-more-events")
}

pub static JOBCTL: Driver<JobCase> = Driver::new("C12", "jobctl", check_jobctl);

fn arb_spec() -> impl Strategy<Value = Spec> {
    prop::sample::select(vec![Spec::None, Spec::Percent, Spec::PercentPercent, Spec::Plus, Spec::Minus, Spec::Minus, Spec::Num, Spec::Name])
}

fn arb_jop() -> impl Strategy<Value = JOp> {
    prop_oneof![
        5 => (1u8..4, 0u8..4).prop_map(|(k, n)| JOp::NewS { k, n }),
        2 => (0u8..4).prop_map(|n| JOp::NewH { n }),
        2 => (0u8..4).prop_map(|n| JOp::NewR { n }),
        5 => (arb_spec(), any::<u8>()).prop_map(|(spec, sel)| JOp::Fg { spec, sel }),
        3 => (arb_spec(), any::<u8>()).prop_map(|(spec, sel)| JOp::Bg { spec, sel }),
        2 => any::<u8>().prop_map(|sel| JOp::Kill { sel }),
    ]
}

pub fn arb_job_case() -> impl Strategy<Value = JobCase> {
    (prop::collection::vec(arb_jop(), 1..9), 1u64..1000).prop_map(|(ops, seed)| JobCase { ops, seed })
}

pub fn run(ctx: &Ctx, st: &mut Stats) {
    let n = ctx.tier.pick(6_000, 300_000);
    JOBCTL.run_random(ctx, st, n, arb_job_case);
}
