//! C03 shell tier: the same expression trees through `$(( ))` in the real shell (value, variable
//! side effects, error => command not run + diagnostic), and arbitrary text inside `$(( ))`
//! (no panic, the error report renderer is exercised with the reported byte ranges).

use super::c03::*;
use crate::engine::*;
use crate::vsys;
use proptest::prelude::*;
use serde::{Deserialize, Serialize};

fn sq(s: &str) -> String {
    format!("'{}'", s.replace('\'', "'\\''"))
}

fn check_shell_tree(c: &TreeCase) -> Outcome {
    let text = render(&c.expr, c.blanks);
    let expect = model_eval(&c.expr, &c.env);
    if let Expect::Unspecified(w) = expect {
        return Outcome::skip(w);
    }
    let mut script = String::new();
    for name in ["a", "b", "c", "_x1", "u"] {
        match c.env.get(name) {
            Some(v) => script.push_str(&format!("{name}={}\n", sq(v))),
            None => script.push_str(&format!("unset {name}\n")),
        }
    }
    script.push_str(&format!("probe $(({text}))\nsnap end\n"));
    let r = vsys::run(&vsys::Setup::script(&script));
    if let Some(p) = &r.panic {
        return Outcome::fail(format!("panic: {p}\nscript:\n{script}"));
    }
    let trace = r.main_trace();
    let nontrivial = c.expr.has_operator();
    let vars_of = |r: &vsys::RunResult| -> Option<std::collections::BTreeMap<String, String>> {
        let s = r.snaps.iter().find(|s| s.tag == "end")?;
        let mut m = std::collections::BTreeMap::new();
        for name in ["a", "b", "c", "_x1", "u"] {
            if let Some((Some(v), ..)) = s.vars.get(name) {
                m.insert(name.to_string(), v.join(" "));
            }
        }
        Some(m)
    };
    match expect {
        Expect::Value(v, env) | Expect::Either(v, env) if !trace.is_empty() => {
            if trace.len() != 1 || trace[0].args != vec![v.to_string()] {
                return Outcome::fail(format!("`$(({text}))` gave {:?}, reference {v}\nscript:\n{script}", trace.iter().map(|t| &t.args).collect::<Vec<_>>()));
            }
            match vars_of(&r) {
                Some(m) if m == env => Outcome::pass(nontrivial).class("value"),
                Some(m) => Outcome::fail(format!("`$(({text}))`: variables afterwards {m:?}, reference {env:?}")),
                None => Outcome::fail(format!("`$(({text}))`: script did not reach its end; stderr {:?}", r.stderr)),
            }
        }
        Expect::Value(v, _) => Outcome::fail(format!("`$(({text}))` failed (status {} stderr {:?}), reference {v}", r.status, r.stderr.lines().next().unwrap_or(""))),
        Expect::Either(..) | Expect::Error => {
            // error: the command must not run, non-zero status, diagnostic
            if !trace.is_empty() {
                return Outcome::fail(format!("`$(({text}))` gave {:?}, reference says error (unrepresentable/undefined)\nscript:\n{script}", trace[0].args));
            }
            if r.status == 0 || r.stderr.is_empty() {
                return Outcome::fail(format!("`$(({text}))`: error expected; status {} stderr {:?}", r.status, r.stderr));
            }
            Outcome::pass(nontrivial).class("error")
        }
        Expect::Unspecified(_) => unreachable!(),
    }
}

pub static SHELL: Driver<TreeCase> = Driver::new("C03", "shell", check_shell_tree);

#[derive(Clone, Debug, Serialize, Deserialize)]
pub struct ShellTextCase {
    pub text: String,
}

fn check_shell_text(c: &ShellTextCase) -> Outcome {
    // arbitrary text inside $(( )): the shell may report a syntax or arithmetic error, or print a
    // number; it must not panic, hang or deadlock
    let script = format!("a=5\nb=-3\nprobe $(({}))\n", c.text);
    let r = vsys::run(&vsys::Setup::script(&script));
    if let Some(p) = &r.panic {
        return Outcome::fail(format!("panic: {p}\nscript: {script:?}"));
    }
    if !r.finished || r.log.deadlock {
        return Outcome::fail(format!("shell did not finish on {script:?}"));
    }
    let ran = !r.main_trace().is_empty();
    if !ran && r.stderr.is_empty() && r.status == 0 {
        return Outcome::fail(format!("no output, no diagnostic and status 0 for {script:?}"));
    }
    Outcome::pass(!c.text.trim().is_empty()).class(if ran { "evaluated" } else { "rejected" })
}

pub static SHELL_TEXT: Driver<ShellTextCase> = Driver::new("C03", "shell-text", check_shell_text);

pub fn run(ctx: &Ctx, st: &mut Stats) {
    let n = ctx.tier.pick(120_000, 6_000_000);
    SHELL.run_random(ctx, st, n, || (arb_expr(5), arb_env_pub(), any::<u32>()).prop_map(|(expr, env, blanks)| TreeCase { expr, env, blanks }));
    let n = ctx.tier.pick(60_000, 3_000_000);
    SHELL_TEXT.run_random(ctx, st, n, || {
        prop_oneof![
            2 => arb_soup_pub(),
            1 => ".{0,16}".prop_map(|s: String| s),
            2 => (arb_expr(3), any::<u32>(), any::<u16>(), prop::sample::select(vec!['$', '`', '\\', '"', '\'', ')', '(', '}', '{', 'é', '\n', '#', ';'])).prop_map(|(e, b, pos, ch)| {
                let mut chars: Vec<char> = render(&e, b).chars().collect();
                let p = pick_idx(pos, chars.len() + 1);
                chars.insert(p, ch);
                chars.into_iter().collect::<String>()
            }),
        ]
        .prop_map(|text| ShellTextCase { text })
    });
}
