//! C05 — pathname expansion returns exactly the existing matching paths, sorted.
//!
//! Case = (directory tree, pattern word, noglob, optional `cd`). The tree is materialised in the
//! simulated file system under /work, the word is rendered into `probe WORD` and run by the real
//! shell; the arguments the probe receives are compared with `model::glob` (own tree type, own
//! POSIX path resolution, component matching by `model::fnmatch`).

use crate::engine::*;
use crate::model::glob::{self as g, Expect, Node, Quirks, Seg, Tree};
use crate::vsys;
use proptest::prelude::*;
use serde::{Deserialize, Serialize};

pub const INFO: PropInfo = PropInfo {
    id: "C05",
    level: "exploration",
    rule: "cases = (directory tree, pattern word, noglob, cd). Tree: <=12 entries, depth <=3, names from {a b ab .a .b - [ * a] ? sub 'a b' \\x a\\b}: regular files, directories (some without search permission for the owner: modes 644, 655, 611; searchable ones 755, 700, 711), symbolic links (to file, to directory, dangling, relative with ../, absolute, to . and .., self-loop). Word: 1-3 components joined by / or //, optional prefix ./ ../ /work/ .// ../work/ /work/sub/../ or a tilde expansion `~/` with HOME naming a directory whose name may contain * [ \\ or a blank, optional trailing /, component text over {a b s u . - * ? [ ] !} with quoted segments ('..', \"..\", \\c) and parts coming from an unquoted ${v} (active pattern characters, backslash escapes) or a quoted \"${v}\" (literal); 45% of the random words are obtained by generalising the components of a path that exists in the tree (name -> *, x*, *x, one character -> ?, [x]rest, [!y]rest, quoted name, ${v}). The real shell runs `probe WORD` (optionally after `set -f` / `cd sub`) on the simulated OS with the tree under /work; the argument list the probe receives must be the model's: every existing pathname that matches component-wise (leading-period rule, slash only literally, quoted characters literal, . and .. only by literal components), strictly ascending in byte order (=> no duplicate), nothing else; or the word with quotes removed if nothing matches / noglob / no active wildcard. Exhaustive part: 4 (thorough 6) fixed trees x all patterns of <=2 components (thorough: also 3 components over the first 14) over a fixed component alphabet of 26 (thorough 54), plus every 1-component pattern under noglob and after cd; random part: proptest (tree, word) pairs with shrinking. Non-trivial = the word has >=1 component with an active wildcard AND some wildcard component matched >=1 directory entry of the tree (which implies that every earlier component was matched by the tree); distinct by serialised case.",
    assumptions: &[
        "POSIX locale: results sorted by byte value",
        "read permission on directories is always granted (the simulated OS does not model it and the sandbox runs as root): unreadable-directory cases are not generated",
        "the simulated OS does not follow symbolic links in the middle of a path, in opendir, or before a trailing slash, and follows at most 7 links: cases whose evaluation by POSIX rules needs that are skipped and counted; symbolic links are exercised as the last component of an existence test (followed, chains, ../ targets, loops) and as directory entries matched by a wildcard",
        "both answers accepted: a directory entry matched by the last (wildcard) component that cannot be stat'ed (dangling link, link loop, entry of an unsearchable directory: POSIX requires only read permission there but allows an existence test); a literal last component naming a link that does not resolve (lstat vs stat); a path whose existence depends on files outside /work; results of patterns containing // spelled with // or with /",
        "skipped as unspecified: patterns the fnmatch model calls undefined, a bracket expression containing a period against a leading period, a backslash from an unquoted expansion at the end of the value or before a slash, a word with such a backslash but no * ? [ (matched in older POSIX, unchanged in POSIX.1-2024), leading //, wildcard components that would list / (outside the modelled tree), unquoted expansions that are empty or contain IFS white space",
        "follows docs/src/language/words/globbing.md where POSIX leaves a choice: an unmatched [ is literal and the other wildcards of the component stay active; . and .. are never produced by a wildcard",
        "open known findings are attributed by re-evaluating the failing case with the deviation built into the model (keys vfs-dot-in-unsearchable-dir, glob-expansion-backslash-kept); a failure is excused only if that variant explains the shell's answer exactly",
    ],
};

#[derive(Clone, Debug, PartialEq, Eq, Hash, Serialize, Deserialize)]
pub struct GlobCase {
    pub tree: Tree,
    pub word: Vec<Seg>,
    pub noglob: bool,
    /// `cd` into this directory (relative to /work) first; ignored unless it is a real searchable directory
    pub cd: Option<String>,
}

fn sq(s: &str) -> String {
    assert!(!s.contains('\''));
    format!("'{s}'")
}

/// Permission bits of a directory: only the owner's execute bit decides whether the (owning,
/// unprivileged) shell process may search it, whatever the bits of group and others say.
fn dir_mode(search: bool, path: &str) -> u32 {
    let k = path.len() % 3;
    if search { [0o755, 0o700, 0o711][k] } else { [0o644, 0o655, 0o611][k] }
}

fn materialise(tree: &Tree, setup: &mut vsys::Setup) {
    for (path, node) in tree.flat() {
        let spec = match node {
            Node::File => vsys::FileSpec::Regular { content: String::new(), mode: 0o644, exec: false },
            Node::Dir { search, .. } => vsys::FileSpec::Dir { mode: dir_mode(*search, &path) },
            Node::Link(t) => vsys::FileSpec::Symlink { target: t.clone() },
        };
        setup.files.push((path, spec));
    }
}

fn show_tree(tree: &Tree) -> String {
    let mut s = String::from("{");
    for (i, (p, n)) in tree.flat().into_iter().enumerate() {
        if i > 0 {
            s.push_str(", ");
        }
        match n {
            Node::File => s.push_str(&format!("{p:?}")),
            Node::Dir { search: true, .. } => s.push_str(&format!("{p:?}/")),
            Node::Dir { search: false, .. } => s.push_str(&format!("{p:?}/(mode {:o})", dir_mode(false, &p))),
            Node::Link(t) => s.push_str(&format!("{p:?}->{t:?}")),
        }
    }
    s.push('}');
    s
}

fn check_with(c: &GlobCase, q: Quirks) -> Outcome {
    let tree = c.tree.normalized();
    let cd = c.cd.clone().filter(|d| tree.is_real_searchable_dir(d));
    let mut cwd = vec!["work".to_string()];
    if let Some(d) = &cd {
        cwd.extend(d.split('/').map(String::from));
    }
    let Some((text, vals)) = g::render(&c.word) else { return Outcome::skip("word not renderable") };
    let exp = g::expect(&tree, &cwd, &c.word, c.noglob, q);
    if let Expect::Unspecified(w) = exp {
        return Outcome::skip(w);
    }
    let mut script = String::new();
    if c.noglob {
        script.push_str("set -f\n");
    }
    for (i, v) in vals.iter().enumerate() {
        script.push_str(&format!("v{i}={}\n", sq(v)));
    }
    if let Some(Seg::Tilde(home)) = c.word.first() {
        script.push_str(&format!("HOME={}\n", sq(home)));
    }
    if let Some(d) = &cd {
        script.push_str(&format!("cd {d}\n"));
    }
    script.push_str(&format!("probe {text}\nsnap end\n"));
    let mut setup = vsys::Setup::script(&script);
    materialise(&tree, &mut setup);
    let r = vsys::run(&setup);
    let ctx = || format!("`probe {text}`{}{} in {}", if vals.is_empty() { String::new() } else { format!(" with v0..={vals:?}") }, cd.as_ref().map_or(String::new(), |d| format!(" after cd {d}")), show_tree(&tree));
    if let Some(p) = &r.panic {
        return Outcome::fail(format!("panic while running {}: {p}", ctx()));
    }
    if !r.finished || r.status != 0 || !r.snaps.iter().any(|s| s.tag == "end") {
        return Outcome::fail(format!("{}: shell did not run to the end (finished {}, status {}, stderr {:?})", ctx(), r.finished, r.status, r.stderr));
    }
    let trace = r.main_trace();
    if trace.len() != 1 {
        return Outcome::fail(format!("{}: probe ran {} times; stderr {:?}", ctx(), trace.len(), r.stderr));
    }
    let got = &trace[0].args;
    match exp {
        Expect::Unspecified(_) => unreachable!(),
        Expect::Literal(f, info) => {
            if got.len() != 1 || got[0] != f {
                return Outcome::fail(format!(
                    "{}{}: got {:?}, expected the single unchanged field {:?}",
                    ctx(), if c.noglob { " with noglob" } else { " (no active wildcard)" }, got, f
                ));
            }
            Outcome::pass(false)
                .class(if c.noglob { "noglob" } else { "no-active-wildcard" })
                .class_if(info.quoted_wildcard, "quoted-wildcard")
                .class_if(info.from_var, "part-from-variable")
        }
        Expect::Glob { cands, open, fallback, info } => {
            if let Err(why) = g::accept(got, &cands, &open, &fallback) {
                let req: Vec<&str> = cands.iter().filter(|c| c.required).map(|c| c.path.as_str()).collect();
                let mut req_sorted = req.clone();
                req_sorted.sort();
                let opt: Vec<&str> = cands.iter().filter(|c| !c.required).map(|c| c.path.as_str()).collect();
                return Outcome::fail(format!(
                    "{}: got {:?}; {why}. Expected {}{}",
                    ctx(),
                    got,
                    if req_sorted.is_empty() { format!("the unchanged word {fallback:?}") } else { format!("{req_sorted:?}") },
                    if opt.is_empty() { String::new() } else { format!(" (optionally also {opt:?})") }
                ));
            }
            let is_fallback = got.len() == 1 && got[0] == fallback && !cands.iter().any(|c| c.path == fallback);
            Outcome::pass(info.wild_matched)
                .class(if is_fallback { "no-match-fallback" } else { "nonempty-result" })
                .class(match got.len() { 1 => "fields:1", 2 => "fields:2", 3..=5 => "fields:3-5", _ => "fields:6+" })
                .class_if(info.components >= 2, "multi-component")
                .class_if(info.wild_components >= 2, "multi-wildcard-component")
                .class_if(info.metachar_name_matched, "metachar-in-name-matched")
                .class_if(info.dot_matched || info.dot_hidden, "dotfile")
                .class_if(info.dot_matched, "dotfile-matched-by-literal-period")
                .class_if(info.dot_hidden, "dotfile-hidden-from-wildcard")
                .class_if(info.symlink_followed || info.symlink_entry_matched, "symlink-traversed")
                .class_if(info.symlink_followed, "symlink-followed-in-existence-test")
                .class_if(info.unsearchable_dir_touched, "unsearchable-directory")
                .class_if(cands.iter().any(|c| !c.required), "optional-candidate")
                .class_if(info.quoted_wildcard, "quoted-wildcard")
                .class_if(info.trailing_slash, "trailing-slash")
                .class_if(info.double_slash, "double-slash")
                .class_if(info.absolute, "absolute")
                .class_if(info.from_var, "part-from-variable")
                .class_if(info.active_backslash, "backslash-from-variable")
                .class_if(cd.is_some(), "cd-first")
        }
    }
}

fn check(c: &GlobCase) -> Outcome {
    check_with(c, Quirks::default())
}

pub const KEY_DOT: &str = "vfs-dot-in-unsearchable-dir";
pub const KEY_BS: &str = "glob-expansion-backslash-kept";

/// A failing case is attributed to a known finding iff the model *with that deviation built in*
/// explains the shell's answer.
fn known(c: &GlobCase, _msg: &str) -> Option<&'static str> {
    let explains = |q: Quirks| matches!(check_with(c, q).verdict, Verdict::Pass);
    // With the simulator's deviation built in, the case may also turn out to be one that POSIX
    // leaves unspecified (e.g. a bracket expression containing a period in a directory that the
    // strict model never lists): the strict verdict then rests on the deviation alone.
    let dot = check_with(c, Quirks { dot_after_nondir: true, backslash_kept: false }).verdict;
    if matches!(dot, Verdict::Pass | Verdict::Skip(_)) {
        return Some(KEY_DOT);
    }
    if explains(Quirks { dot_after_nondir: false, backslash_kept: true }) {
        return Some(KEY_BS);
    }
    if explains(Quirks { dot_after_nondir: true, backslash_kept: true }) {
        return Some(KEY_BS);
    }
    None
}

pub static GLOB_X: Driver<GlobCase> = Driver::new("C05", "glob-exhaustive", check).with_known(known);
pub static GLOB_R: Driver<GlobCase> = Driver::new("C05", "glob-random", check).with_known(known);

// ---------------------------------------------------------------------------------------------
// Fixed trees and the component alphabet of the exhaustive part

fn f(n: &str) -> (String, Node) {
    (n.to_string(), Node::File)
}
fn d(n: &str, entries: Vec<(String, Node)>) -> (String, Node) {
    (n.to_string(), Node::Dir { search: true, entries })
}
fn dx(n: &str, entries: Vec<(String, Node)>) -> (String, Node) {
    (n.to_string(), Node::Dir { search: false, entries })
}
fn l(n: &str, t: &str) -> (String, Node) {
    (n.to_string(), Node::Link(t.to_string()))
}

fn fixed_trees(thorough: bool) -> Vec<Tree> {
    let mut v = vec![
        // flat, every special name
        Tree { entries: vec![f("a"), f("b"), f("ab"), f(".a"), f("-"), f("["), f("*"), f("a]"), f("?"), f("a b")] },
        // nested with dot files and dot directories
        Tree {
            entries: vec![
                f("a"),
                d("sub", vec![f("a"), f(".b"), d("sub", vec![f("a"), f("b")]), d("b", vec![])]),
                d(".b", vec![f("a"), f(".a")]),
                d("ab", vec![f("*"), f("a]")]),
            ],
        },
        // links and permissions
        Tree {
            entries: vec![
                f("a"),
                l("b", "a"),
                l("ab", "sub"),
                l("-", "nowhere"),
                l("?", "?"),
                d("sub", vec![f("a"), l("b", "../a"), l(".a", "/work/sub/a"), l("ab", "../nowhere")]),
                dx("[", vec![f("a"), d("sub", vec![])]),
            ],
        },
        // nothing but dot files
        Tree { entries: vec![f(".a"), d(".b", vec![f(".a"), f("a")])] },
    ];
    if thorough {
        v.push(Tree { entries: vec![] });
        v.push(Tree {
            entries: vec![
                d("a", vec![d("a", vec![f("a"), f(".a")]), f("b")]),
                d("b", vec![d("a", vec![f("b")]), l("b", "a")]),
                dx("ab", vec![d("a", vec![f("a")])]),
                f("*"),
            ],
        });
    }
    v
}

fn lit(s: &str) -> Seg {
    Seg::Lit(s.to_string())
}

fn component_alphabet(thorough: bool) -> Vec<Vec<Seg>> {
    let mut v: Vec<Vec<Seg>> = vec![
        vec![lit("*")],
        vec![lit("?")],
        vec![lit("a*")],
        vec![lit("*b")],
        vec![lit(".*")],
        vec![lit("[ab]")],
        vec![lit("[!a]*")],
        vec![lit("??")],
        vec![lit("*]")],
        vec![lit("[[]")],
        vec![lit("[*")],
        vec![lit("-*")],
        vec![lit("s*")],
        vec![Seg::Esc('*')],
        vec![Seg::SQ("?".into())],
        vec![Seg::DQ("[".into()), lit("*")],
        vec![lit("a"), Seg::Esc(' '), lit("*")],
        vec![lit("a")],
        vec![lit("sub")],
        vec![lit(".")],
        vec![lit("..")],
        vec![],
        vec![Seg::Var("*".into())],
        vec![Seg::QVar("*".into())],
        vec![Seg::Var("\\a*".into())],
        vec![lit("*"), Seg::SQ("*".into())],
        // a backslash that ends an unquoted expansion, with only empty quotes after it in the
        // component: there is nothing to escape, it stays an ordinary character
        vec![Seg::Var("a\\".into()), Seg::DQ(String::new())],
        vec![Seg::Var("sub\\".into()), Seg::SQ(String::new())],
        vec![Seg::Var("a\\".into()), Seg::QVar(String::new())],
    ];
    if thorough {
        v.extend([
            vec![lit("[a-b]*")],
            vec![lit("[]a]*")],
            vec![lit("*[!b]")],
            vec![lit("?*")],
            vec![lit(".?")],
            vec![lit(".[ab]")],
            vec![lit("[.]*")],
            vec![lit("[!.]*")],
            vec![lit("a[")],
            vec![lit("a]")],
            vec![lit("[a")],
            vec![lit("*a*")],
            vec![lit("[-a]")],
            vec![lit("[!-]")],
            vec![lit("!*")],
            vec![lit("b")],
            vec![lit("ab")],
            vec![Seg::Esc('['), lit("*")],
            vec![Seg::Esc('?')],
            vec![Seg::SQ("a b".into())],
            vec![Seg::SQ("*".into()), lit("*")],
            vec![Seg::DQ("a".into()), lit("?")],
            vec![Seg::Var("[ab]".into())],
            vec![Seg::Var("\\*".into()), lit("*")],
            vec![Seg::Var("s*".into())],
            vec![Seg::QVar("?".into()), lit("*")],
            vec![lit("*"), Seg::Esc('.'), lit("*")],
            vec![Seg::Esc('.'), lit("*")],
        ]);
    }
    v
}

fn join(comps: &[&Vec<Seg>]) -> Vec<Seg> {
    let mut w: Vec<Seg> = vec![];
    for (i, c) in comps.iter().enumerate() {
        if i > 0 {
            w.push(lit("/"));
        }
        w.extend(c.iter().cloned());
    }
    merge(w)
}

/// Merges adjacent unquoted literal segments (canonical form; same script text).
fn merge(w: Vec<Seg>) -> Vec<Seg> {
    let mut out: Vec<Seg> = vec![];
    for s in w {
        match (out.last_mut(), &s) {
            (Some(Seg::Lit(a)), Seg::Lit(b)) => a.push_str(b),
            (_, Seg::Lit(b)) if b.is_empty() => {}
            _ => out.push(s),
        }
    }
    out
}

// ---------------------------------------------------------------------------------------------
// Random generators

const NAMES: [&str; 14] = ["a", "b", "ab", ".a", ".b", "-", "[", "*", "a]", "?", "sub", "a b", "\\x", "a\\b"];

const LINK_TARGETS: [&str; 20] = [
    "a", "b", "ab", "sub", ".a", "-", "*", "nowhere", "../a", "../b", "../sub", "../nowhere", "sub/a", "sub/b", "sub/sub", "/work/a", "/work/sub", "/work/nowhere",
    ".", "..",
];

fn arb_name() -> impl Strategy<Value = String> {
    prop::sample::select(NAMES.to_vec()).prop_map(String::from)
}

fn arb_leaf() -> impl Strategy<Value = Node> {
    prop_oneof![
        6 => Just(Node::File),
        3 => prop::sample::select(LINK_TARGETS.to_vec()).prop_map(|t| Node::Link(t.to_string())),
        1 => any::<bool>().prop_map(|s| Node::Dir { search: s, entries: vec![] }),
    ]
}

fn arb_dir(depth: usize) -> BoxedStrategy<Node> {
    let inner: BoxedStrategy<Node> = if depth >= g::MAX_DEPTH - 1 {
        arb_leaf().boxed()
    } else {
        prop_oneof![3 => arb_leaf(), 2 => arb_dir(depth + 1)].boxed()
    };
    (prop::bool::weighted(0.85), prop::collection::vec((arb_name(), inner), 0..5))
        .prop_map(|(search, entries)| Node::Dir { search, entries })
        .boxed()
}

fn arb_tree() -> impl Strategy<Value = Tree> {
    let top = prop_oneof![4 => arb_leaf().boxed(), 2 => arb_dir(1)];
    (prop::collection::vec((arb_name(), top), 0..9), prop::option::weighted(0.7, arb_dir(1)))
        .prop_map(|(mut entries, sub)| {
            if let Some(s) = sub {
                // make the name `sub` mostly a directory, so that `cd sub`, `sub/*`, `../` are meaningful
                entries.retain(|(n, _)| n != "sub");
                let at = entries.len().min(2);
                entries.insert(at, ("sub".to_string(), s));
            }
            Tree { entries }.normalized()
        })
}

fn quote_name(n: &str, how: u8) -> Vec<Seg> {
    let plain_ok = n.chars().all(|c| "absu.-*?[]!".contains(c));
    match how % 7 {
        0 | 1 if plain_ok => vec![lit(n)], // metacharacters stay active
        2 => vec![Seg::SQ(n.to_string())],
        3 => vec![Seg::DQ(n.to_string())],
        4 => n.chars().map(|c| if c.is_ascii_alphabetic() { lit(&c.to_string()) } else { Seg::Esc(c) }).collect(),
        5 => vec![Seg::QVar(n.to_string())],
        6 if !n.contains(' ') => {
            // unquoted expansion with the metacharacters escaped by backslashes
            let mut v = String::new();
            for c in n.chars() {
                if !c.is_ascii_alphabetic() && c != '.' && c != '-' {
                    v.push('\\');
                }
                v.push(c);
            }
            vec![Seg::Var(v)]
        }
        _ => vec![Seg::SQ(n.to_string())],
    }
}

const WILD: [&str; 22] = [
    "*", "*", "*", "?", "?", "[ab]", "[!a]", "[a-b]", "[]a]", "[[]", "[*?]", "[!.]", "[.-]", "[!-]", ".*", "a*", "*b", "s*", "??", "[", "]", "!",
];
const ACTIVE: [char; 10] = ['a', 'b', '.', '-', '*', '?', '[', ']', '!', 's'];
const VAR_VALUES: [&str; 24] = [
    "*", "?", "a*", "*b", "[ab]", ".*", "s*", "\\*", "\\?", "\\a", "\\[", "*\\]", "a\\b", "\\.*", "[\\a]", "\\\\", "a\\", "su*", "[!a]*", "ab",
    // an escaped backslash followed by an active wildcard / an ordinary character
    "\\\\*", "a\\\\*", "\\\\x", "a\\\\b",
];

fn arb_piece() -> impl Strategy<Value = Vec<Seg>> {
    prop_oneof![
        7 => prop::sample::select(WILD.to_vec()).prop_map(|s| vec![lit(s)]),
        5 => (prop::sample::select(NAMES.to_vec()), any::<u8>()).prop_map(|(n, h)| quote_name(n, h)),
        3 => prop::collection::vec(prop::sample::select(ACTIVE.to_vec()), 1..4).prop_map(|v| vec![Seg::Lit(v.into_iter().collect())]),
        2 => prop::sample::select(vec!['*', '?', '[', ']', '\\', 'a', '.', '-', ' ', '!']).prop_map(|c| vec![Seg::Esc(c)]),
        2 => prop::sample::select(vec!["*", "?", "[", "]", "a", "[a]", "*a", "!", "\\", "."]).prop_map(|s| vec![Seg::SQ(s.to_string())]),
        1 => prop::sample::select(vec!["*", "?", "[", "]", "a", "[ab]", "a*", "."]).prop_map(|s| vec![Seg::DQ(s.to_string())]),
        3 => prop::sample::select(VAR_VALUES.to_vec()).prop_map(|s| vec![Seg::Var(s.to_string())]),
        1 => prop::sample::select(vec!["*", "?", "[a]", "a b", "\\*", "a"]).prop_map(|s| vec![Seg::QVar(s.to_string())]),
        // empty quotes: they contribute nothing to the field, also not something to escape for a
        // backslash that ends the expansion before them
        1 => prop::sample::select(vec![Seg::SQ(String::new()), Seg::DQ(String::new()), Seg::QVar(String::new())]).prop_map(|s| vec![s]),
    ]
}

fn arb_component() -> impl Strategy<Value = Vec<Seg>> {
    prop_oneof![
        12 => prop::collection::vec(arb_piece(), 1..3).prop_map(|v| v.into_iter().flatten().collect::<Vec<Seg>>()),
        3 => Just(vec![lit("*")]),
        1 => Just(vec![lit(".")]),
        1 => Just(vec![lit("..")]),
        4 => any::<u8>().prop_map(|h| quote_name("sub", h)),
    ]
}

const WILD_COMPONENTS: [&str; 20] =
    ["*", "*", "*", "?", "??", "a*", "*b", ".*", "s*", "[ab]", "[!a]", "[ab]*", "[!a]*", "*]", "[[]", "[*?]", "-*", "*[!b]", ".?", "?*"];

/// A component that certainly contains an active wildcard.
fn arb_wild_component() -> impl Strategy<Value = Vec<Seg>> {
    prop_oneof![
        6 => prop::sample::select(WILD_COMPONENTS.to_vec()).prop_map(|s| vec![lit(s)]),
        2 => (prop::sample::select(NAMES.to_vec()), any::<u8>(), any::<bool>()).prop_map(|(n, h, star_first)| {
            // a (partly quoted) name prefix or suffix next to a star
            let cut: String = n.chars().take(1).collect();
            let mut v = quote_name(&cut, h);
            if star_first { v.insert(0, lit("*")) } else { v.push(lit("*")) }
            v
        }),
        2 => prop::sample::select(vec!["*", "?", "a*", "[ab]*", "s*", ".*", "\\**", "\\[*", "*\\]", "\\a*", "*\\b"]).prop_map(|s| vec![Seg::Var(s.to_string())]),
    ]
}

/// Whole multi-component texts coming from one variable (slashes inside the expansion).
const VAR_PATHS: [&str; 10] = ["sub/*", "*/a", "*/*", "./*", "s*/.*", "*/", "sub//*", "/work/*", "su\\b/*", "*/\\a"];

fn arb_word() -> impl Strategy<Value = Vec<Seg>> {
    let structured = (
        prop::sample::select(vec![
            "", "", "", "", "", "", "", "", "", "./", "./", "../", "/work/", "/work/", ".//", "../work/", "/work/sub/../",
            // `~`-prefixed entries stand for a tilde expansion with HOME = the rest
            "~/work/sub", "~/work/*", "~/work/[", "~/work/\\x", "~/work/a b", "~/work/a\\b", "~/work",
        ]),
        prop::collection::vec((arb_component(), prop::bool::weighted(0.12)), 1..4),
        (arb_wild_component(), any::<u8>(), prop::bool::weighted(0.85)),
        prop::bool::weighted(0.15),
        prop::bool::weighted(0.06),
    )
        .prop_map(|(prefix, mut comps, (wild, pos, force), trailing, whole_var)| {
            if force {
                let k = pos as usize % comps.len();
                comps[k].0 = wild;
            }
            let mut w = vec![lit(prefix)];
            if prefix.starts_with('~') {
                // tilde expansion: `~/...` with HOME naming a directory of the tree (or not); the
                // result of the expansion is literal whatever characters it contains
                w = vec![Seg::Tilde(prefix[1..].to_string()), lit("/")];
            }
            for (i, (c, doubled)) in comps.into_iter().enumerate() {
                if i > 0 {
                    w.push(lit(if doubled { "//" } else { "/" }));
                }
                w.extend(c);
            }
            if trailing {
                w.push(lit("/"));
            }
            let w = merge(w);
            if whole_var && w.iter().all(|s| matches!(s, Seg::Lit(_))) {
                // the same text, but produced by an unquoted expansion
                return vec![Seg::Var(g::unquoted(&w))];
            }
            w
        });
    prop_oneof![
        20 => structured,
        1 => (prop::sample::select(VAR_PATHS.to_vec()), any::<bool>()).prop_map(|(p, q)| if q { vec![Seg::QVar(p.to_string())] } else { vec![Seg::Var(p.to_string())] }),
    ]
}

/// Turns a name of the tree into a component that (mostly) matches it.
fn generalise(name: &str, how: u8, h2: u8) -> Vec<Seg> {
    let cs: Vec<char> = name.chars().collect();
    let first: String = cs[..1].iter().collect();
    let rest: String = cs[1..].iter().collect();
    let q = |t: &str| if t.is_empty() { vec![] } else { quote_name(t, h2) };
    match how % 10 {
        0 | 1 => vec![lit(if name.starts_with('.') && how % 2 == 0 { ".*" } else { "*" })],
        2 => {
            let mut v = q(&first);
            v.push(lit("*"));
            v
        }
        3 => {
            let mut v = vec![lit("*")];
            v.extend(q(&cs[cs.len() - 1..].iter().collect::<String>()));
            v
        }
        4 => {
            // one character replaced by ?
            let k = h2 as usize % cs.len();
            let mut v = q(&cs[..k].iter().collect::<String>());
            v.push(lit("?"));
            v.extend(q(&cs[k + 1..].iter().collect::<String>()));
            v
        }
        5 => {
            // first character as a bracket expression
            let mut v = vec![lit(&format!("[{first}]"))];
            v.extend(q(&rest));
            v
        }
        6 => {
            let mut v = vec![lit(&format!("[!{}]", if first == "b" { "a" } else { "b" }))];
            v.extend(q(&rest));
            v
        }
        7 => vec![Seg::Var(if h2 % 2 == 0 { "*".to_string() } else { "?*".to_string() })],
        _ => q(name),
    }
}

fn derive_word(tree: &Tree, idx: u16, hows: [u8; 3], h2s: [u8; 3], deco: u8, trailing: bool) -> Option<Vec<Seg>> {
    let flat = tree.flat();
    if flat.is_empty() {
        return None;
    }
    let (path, _) = &flat[pick_idx(idx, flat.len())];
    let names: Vec<&str> = path.split('/').collect();
    let mut comps: Vec<Vec<Seg>> = names.iter().enumerate().map(|(i, n)| generalise(n, hows[i % 3], h2s[i % 3])).collect();
    let is_wild = |c: &Vec<Seg>| c.iter().any(|s| matches!(s, Seg::Lit(t) if t.contains(['*', '?']) || (t.contains('[') && t.contains(']'))) || matches!(s, Seg::Var(_)));
    if !comps.iter().any(is_wild) {
        let k = deco as usize % comps.len();
        comps[k] = vec![lit("*")];
    }
    let prefix = match deco % 16 {
        0 | 1 => "./",
        2 | 3 => "/work/",
        4 => ".//",
        5 => "../work/",
        _ => "",
    };
    let mut w = vec![lit(prefix)];
    for (i, c) in comps.into_iter().enumerate() {
        if i > 0 {
            w.push(lit(if deco / 16 == 3 { "//" } else { "/" }));
        }
        w.extend(c);
    }
    if trailing {
        w.push(lit("/"));
    }
    Some(merge(w))
}

fn arb_case() -> impl Strategy<Value = GlobCase> {
    (
        arb_tree(),
        arb_word(),
        (prop::bool::weighted(0.45), any::<u16>(), any::<[u8; 3]>(), any::<[u8; 3]>(), any::<u8>(), prop::bool::weighted(0.12)),
        prop::bool::weighted(0.06),
        prop_oneof![10 => Just(None), 3 => Just(Some("sub".to_string())), 1 => Just(Some("sub/sub".to_string()))],
    )
        .prop_map(|(tree, word, (derive, idx, hows, h2s, deco, trailing), noglob, cd)| {
            let mut cd = cd.filter(|d| tree.is_real_searchable_dir(d));
            let mut word = word;
            if derive {
                // a pattern obtained by generalising the components of a path that exists in the tree
                if let Some(w) = derive_word(&tree, idx, hows, h2s, deco, trailing) {
                    word = w;
                    if !g::unquoted(&word).starts_with('/') {
                        cd = None;
                    }
                }
            }
            // `../x` from /work itself leaves the modelled tree: go down first when possible
            let text = g::unquoted(&word);
            if cd.is_none() && text.starts_with("../") && !text.starts_with("../work/") && tree.is_real_searchable_dir("sub") {
                cd = Some("sub".to_string());
            }
            GlobCase { tree, word, noglob, cd }
        })
}

// ---------------------------------------------------------------------------------------------

pub fn run(ctx: &Ctx, st: &mut Stats) {
    let thorough = ctx.tier == Tier::Thorough;
    let trees = fixed_trees(thorough);
    let alpha = component_alphabet(thorough);
    let na = alpha.len() as u64;
    let nt = trees.len() as u64;
    // patterns: 1 component, 2 components, (thorough) 3 components over the first 14 of the alphabet;
    // per tree; plus every single-component pattern under noglob and after `cd sub`
    let n3 = if thorough { 14u64 } else { 0 };
    let per_tree = na + na * na + n3 * n3 * n3 + 2 * na;
    let total = per_tree * nt;
    let (trees_r, alpha_r) = (&trees, &alpha);
    let decode = move |i: u64| -> Option<GlobCase> {
        let tree = trees_r[(i / per_tree) as usize].clone();
        let mut k = i % per_tree;
        let a = |j: u64| &alpha_r[j as usize];
        let (word, noglob, cd) = if k < na {
            (join(&[a(k)]), false, None)
        } else if k < na + na * na {
            k -= na;
            (join(&[a(k / na), a(k % na)]), false, None)
        } else if k < na + na * na + n3 * n3 * n3 {
            k -= na + na * na;
            (join(&[a(k / (n3 * n3)), a(k / n3 % n3), a(k % n3)]), false, None)
        } else {
            k -= na + na * na + n3 * n3 * n3;
            if k < na { (join(&[a(k)]), true, None) } else { (join(&[a(k - na)]), false, Some("sub".to_string())) }
        };
        if word.is_empty() {
            return None;
        }
        let cd = cd.filter(|d| tree.is_real_searchable_dir(d));
        Some(GlobCase { tree, word, noglob, cd })
    };
    GLOB_X.run_exhaustive(ctx, st, total, &decode);
    st.extra.insert(
        "exhaustive_space".into(),
        serde_json::json!({"fixed_trees": nt, "component_alphabet": na, "patterns_per_tree": per_tree, "cases": total}),
    );

    let n = ctx.tier.pick(400_000, 5_000_000);
    GLOB_R.run_random(ctx, st, n, arb_case);
}

pub fn replay(driver: &str, case: &serde_json::Value) -> Result<(Outcome, Option<&'static str>), String> {
    match driver {
        "glob-exhaustive" => GLOB_X.replay_known(case),
        "glob-random" => GLOB_R.replay_known(case),
        _ => Err(format!("unknown driver {driver}")),
    }
}
