//! C11 — signal dispositions always match the traps; a caught signal runs its trap once.
//! (a) API-level histories on `TrapSet` over the real `SignalSystem` implementation
//! (`Rc<Concurrent<VirtualSystem>>`) against a per-signal reference merge;
//! (b) script-level: a trapped signal delivered at every syntactic position (self-kill) and
//! asynchronously by the scheduler between any two steps.

use crate::engine::*;
use crate::vsys::{self, Chooser};
use futures_util::FutureExt as _;
use proptest::prelude::*;
use serde::{Deserialize, Serialize};
use std::rc::Rc;
use yash_env::Env;
use yash_env::source::Location;
use yash_env::system::r#virtual::{self as v, VirtualSystem};
use yash_env::system::{Concurrent, Disposition};
use yash_env::trap::{Action, SetActionError, SignalSystem};

pub const INFO: PropInfo = PropInfo {
    id: "C11",
    level: "exploration",
    rule: "two families of cases. (history) operation sequences over {set_action(signal, default|ignore|command) with override_ignore fixed per history (interactive or not), enable/disable the internal dispositions for SIGCHLD / terminators / stoppers / all, enter_subshell(ignore_sigint_sigquit, keep_stoppers), deliver(signal) + poll, take_caught_signal*} on signals {INT QUIT TERM CHLD TSTP TTIN USR1 KILL STOP} x 3 configurations of initially ignored signals, executed on TrapSet over Rc<Concurrent<VirtualSystem>>; exhaustive to length 4 (quick) / strided length 5 (thorough) over a 53-operation alphabet, random to length 14. Oracle after every operation: for every signal the disposition installed in the simulated process == max(internal, disposition of (user action or inherited)) in the order Default<Ignore<Catch; set_action fails with InitiallyIgnored exactly when the signal was ignored on entry and override is off, with SIGKILL/SIGSTOP errors for those; take_caught_signal yields each delivered trapped signal exactly once. (delivery) scripts of 3-7 commands with `trap 'mark T$?' USR1`: the signal is sent by `kill -s USR1 $$` at every position, or raised asynchronously by the scheduler before a generated step, also in an interactive shell that reads the script through a pipe in generated chunks so that the `read` built-in (and the shell's own input) can be blocked when the signal arrives; exactly one trap execution per delivery, after the command during which it arrived and before the next command of that process (a delivery made while the shell is blocked inside the `wait` built-in - the awaited child is held until after the wait - must make `wait` return > 128 at once, with the action run exactly once before the next command), `$?` seen by the action is that of the interrupted/previous command and is restored afterwards. (chain) two traps, USR1 -> `mark T $?[; kill -s USR2 $$ | ; return 7]`, USR2 -> `mark U $?`: USR2 delivered while the USR1 action runs, both signals pending at one command boundary (sent by a subshell in either order), a USR1 action that returns from the enclosing function, delivery by the last command of the script; between two consecutive marks each delivery's action runs exactly once, the action of a signal sent by another action follows it directly, no command of the left function runs, `$?` untouched. Non-trivial: history changes the effective disposition of a signal >= 2 times; delivery arrives while >= 1 command is still to run; distinct by serialised case.",
    assumptions: &[
        "signals are not queued: two deliveries before a command boundary may run the action once or twice (counted, not judged)",
        "asynchronous delivery is explored only between scheduler steps (blocking points and preemption points)",
    ],
};

const SIGS: [&str; 9] = ["INT", "QUIT", "TERM", "CHLD", "TSTP", "TTIN", "USR1", "KILL", "STOP"];

fn num(i: usize) -> yash_env::signal::Number {
    [v::SIGINT, v::SIGQUIT, v::SIGTERM, v::SIGCHLD, v::SIGTSTP, v::SIGTTIN, v::SIGUSR1, v::SIGKILL, v::SIGSTOP][i]
}

#[derive(Clone, Copy, Debug, PartialEq, Eq, Hash, Serialize, Deserialize)]
pub enum Act {
    Default,
    Ignore,
    Command,
}

#[derive(Clone, Copy, Debug, PartialEq, Eq, Hash, Serialize, Deserialize)]
pub enum Op {
    Set { sig: u8, act: Act },
    EnableChld,
    EnableTerminators,
    DisableTerminators,
    EnableStoppers,
    DisableStoppers,
    DisableAll,
    Subshell { int_quit: bool, keep_stoppers: bool },
    Deliver(u8),
    Take,
}

#[derive(Clone, Debug, PartialEq, Eq, Hash, Serialize, Deserialize)]
pub struct HistCase {
    /// the shell is interactive: set_action is called with override_ignore = true
    pub interactive: bool,
    /// bit i set = signal i ignored on entry
    pub ignored: u16,
    pub ops: Vec<Op>,
}

#[derive(Clone, Copy, PartialEq, Eq, PartialOrd, Ord, Debug)]
enum D {
    Default,
    Ignore,
    Catch,
}

fn d_of(a: Act) -> D {
    match a {
        Act::Default => D::Default,
        Act::Ignore => D::Ignore,
        Act::Command => D::Catch,
    }
}

#[derive(Clone, Debug)]
struct MSig {
    initial_ignored: bool,
    /// user-visible action; None = never set (inherited)
    user: Option<Act>,
    internal: D,
    /// delivered while trapped and not yet taken
    pending: bool,
}

impl MSig {
    fn effective(&self) -> D {
        let base = match self.user {
            Some(a) => d_of(a),
            None => {
                if self.initial_ignored {
                    D::Ignore
                } else {
                    D::Default
                }
            }
        };
        base.max(self.internal)
    }
}

fn check_hist(c: &HistCase) -> Outcome {
    let system = VirtualSystem::new();
    let state = Rc::clone(&system.state);
    let pid = system.process_id;
    {
        let mut st = state.borrow_mut();
        let p = st.processes.get_mut(&pid).unwrap();
        for i in 0..7 {
            if c.ignored >> i & 1 == 1 {
                let _ = p.set_disposition(num(i), Disposition::Ignore);
            }
        }
    }
    let mut env = Env::with_system(Rc::new(Concurrent::new(system)));
    let mut m: Vec<MSig> = (0..9)
        .map(|i| MSig { initial_ignored: i < 7 && c.ignored >> i & 1 == 1, user: None, internal: D::Default, pending: false })
        .collect();
    let mut changes = [0u32; 9];
    let mut classes: Vec<&'static str> = vec![];
    let cmd: Rc<str> = Rc::from("echo trapped");
    macro_rules! now {
        ($f:expr) => {
            match $f.now_or_never() {
                Some(r) => r,
                None => return Outcome::fail(format!("a TrapSet operation blocked in history {:?}", c.ops)),
            }
        };
    }
    for (step, op) in c.ops.iter().enumerate() {
        let before: Vec<D> = m.iter().map(|s| s.effective()).collect();
        match *op {
            Op::Set { sig, act } => {
                let over = c.interactive;
                let i = sig as usize % 9;
                let action = match act {
                    Act::Default => Action::Default,
                    Act::Ignore => Action::Ignore,
                    Act::Command => Action::Command(Rc::clone(&cmd)),
                };
                let r = now!(env.traps.set_action(&env.system, num(i), action, Location::dummy("t"), over));
                let expect: Result<(), &str> = if i == 7 {
                    Err("SIGKILL")
                } else if i == 8 {
                    Err("SIGSTOP")
                } else if !over && m[i].initial_ignored {
                    Err("InitiallyIgnored")
                } else {
                    Ok(())
                };
                let got: Result<(), String> = match &r {
                    Ok(()) => Ok(()),
                    Err(SetActionError::InitiallyIgnored) => Err("InitiallyIgnored".into()),
                    Err(SetActionError::SIGKILL) => Err("SIGKILL".into()),
                    Err(SetActionError::SIGSTOP) => Err("SIGSTOP".into()),
                    Err(e) => Err(format!("{e:?}")),
                };
                if got.clone().map_err(|e| e.to_string()) != expect.map_err(|e| e.to_string()) {
                    return Outcome::fail(format!(
                        "step {step}: set_action({}, {act:?}, override={over}) returned {got:?}, expected {expect:?} (signal ignored on entry: {}, user action so far: {:?}); history {:?}",
                        SIGS[i], m[i].initial_ignored, m[i].user, c.ops
                    ));
                }
                if expect.is_ok() {
                    // a delivery that is caught but not yet taken stays pending only while the
                    // signal remains trapped (command action replaced by a command action)
                    if !(m[i].user == Some(Act::Command) && act == Act::Command) {
                        m[i].pending = false;
                    }
                    m[i].user = Some(act);
                } else if expect == Err("InitiallyIgnored") {
                    classes.push("initially-ignored-refused");
                }
            }
            Op::EnableChld => {
                let _ = now!(env.traps.enable_internal_disposition_for_sigchld(&env.system));
                m[3].internal = D::Catch;
            }
            Op::EnableTerminators => {
                let _ = now!(env.traps.enable_internal_dispositions_for_terminators(&env.system));
                m[0].internal = D::Catch;
                m[1].internal = D::Ignore;
                m[2].internal = D::Ignore;
            }
            Op::DisableTerminators => {
                let _ = now!(env.traps.disable_internal_dispositions_for_terminators(&env.system));
                for i in 0..3 {
                    m[i].internal = D::Default;
                }
            }
            Op::EnableStoppers => {
                let _ = now!(env.traps.enable_internal_dispositions_for_stoppers(&env.system));
                m[4].internal = D::Ignore;
                m[5].internal = D::Ignore;
            }
            Op::DisableStoppers => {
                let _ = now!(env.traps.disable_internal_dispositions_for_stoppers(&env.system));
                m[4].internal = D::Default;
                m[5].internal = D::Default;
            }
            Op::DisableAll => {
                let _ = now!(env.traps.disable_internal_dispositions(&env.system));
                for s in m.iter_mut() {
                    s.internal = D::Default;
                }
            }
            Op::Subshell { int_quit, keep_stoppers } => {
                now!(env.traps.enter_subshell(&env.system, int_quit, keep_stoppers));
                classes.push("enter-subshell");
                for (i, s) in m.iter_mut().enumerate() {
                    if s.user == Some(Act::Command) {
                        s.user = Some(Act::Default);
                        s.pending = false;
                    }
                    if i == 3 {
                        continue; // SIGCHLD keeps its internal disposition
                    }
                    if int_quit && (i == 0 || i == 1) {
                        s.user = Some(Act::Ignore);
                        s.internal = D::Default;
                    } else if keep_stoppers && (i == 4 || i == 5) && s.internal != D::Default {
                        s.user = Some(Act::Ignore);
                        s.internal = D::Default;
                    } else {
                        s.internal = D::Default;
                    }
                }
            }
            Op::Deliver(sig) => {
                let i = sig as usize % 7;
                let eff = m[i].effective();
                if eff == D::Default && i != 3 {
                    continue; // would terminate or stop the process
                }
                let res = state.borrow_mut().processes.get_mut(&pid).unwrap().raise_signal(num(i));
                if res.process_state_changed {
                    return Outcome::fail(format!("step {step}: delivering {} changed the process state although the reference disposition is {eff:?}; history {:?}", SIGS[i], c.ops));
                }
                let caught = env.poll_signals();
                let caught_list: Vec<yash_env::signal::Number> = caught.map(|l| l.to_vec()).unwrap_or_default();
                let was_caught = caught_list.contains(&num(i));
                if was_caught != (eff == D::Catch) {
                    return Outcome::fail(format!(
                        "step {step}: delivered {}: the shell {} it, reference disposition is {eff:?}; history {:?}",
                        SIGS[i], if was_caught { "caught" } else { "did not catch" }, c.ops
                    ));
                }
                if eff == D::Catch && m[i].user == Some(Act::Command) {
                    m[i].pending = true;
                    classes.push("trapped-signal-delivered");
                }
            }
            Op::Take => {
                let mut seen: Vec<usize> = vec![];
                let mut guard = 0;
                while let Some((sig, st)) = env.traps.take_caught_signal() {
                    guard += 1;
                    if guard > 50 {
                        return Outcome::fail(format!("take_caught_signal keeps returning signals; history {:?}", c.ops));
                    }
                    if matches!(st.action, Action::Command(_)) {
                        if let Some(i) = (0..9).find(|i| num(*i) == sig) {
                            seen.push(i);
                        }
                    }
                }
                for i in 0..7 {
                    let want = m[i].pending && m[i].user == Some(Act::Command);
                    let got = seen.iter().filter(|x| **x == i).count();
                    if got != want as usize {
                        return Outcome::fail(format!(
                            "step {step}: take_caught_signal yielded {} {got} time(s), expected {} (delivered while trapped and not yet taken); history {:?}",
                            SIGS[i], want as usize, c.ops
                        ));
                    }
                    m[i].pending = false;
                }
            }
        }
        // the invariant: installed dispositions == reference merge
        for i in 0..9 {
            let got = match env.system.get_disposition(num(i)) {
                Ok(Disposition::Default) => D::Default,
                Ok(Disposition::Ignore) => D::Ignore,
                Ok(Disposition::Catch) => D::Catch,
                Err(e) => return Outcome::fail(format!("get_disposition({}) failed: {e}", SIGS[i])),
            };
            let want = m[i].effective();
            if got != want {
                return Outcome::fail(format!(
                    "after step {step} ({op:?}): disposition installed for SIG{} is {got:?}, reference says {want:?} (user action {:?}, internal {:?}, ignored on entry {}); history {:?} initially ignored mask {:#b}",
                    SIGS[i], m[i].user, m[i].internal, m[i].initial_ignored, c.ops, c.ignored
                ));
            }
            if want != before[i] {
                changes[i] += 1;
            }
        }
    }
    let mut out = Outcome::pass(changes.iter().any(|c| *c >= 2));
    classes.sort();
    classes.dedup();
    for cl in classes {
        out = out.class(cl);
    }
    out
}

pub static HIST: Driver<HistCase> = Driver::new("C11", "history", check_hist);

fn op_alphabet() -> Vec<Op> {
    let mut v = vec![];
    for sig in [0u8, 2, 3, 4, 6, 7] {
        for act in [Act::Default, Act::Ignore, Act::Command] {
            v.push(Op::Set { sig, act });
        }
    }
    v.extend([Op::EnableChld, Op::EnableTerminators, Op::DisableTerminators, Op::EnableStoppers, Op::DisableStoppers, Op::DisableAll]);
    for int_quit in [false, true] {
        for keep_stoppers in [false, true] {
            v.push(Op::Subshell { int_quit, keep_stoppers });
        }
    }
    for sig in [0u8, 2, 3, 4, 6] {
        v.push(Op::Deliver(sig));
    }
    v.push(Op::Take);
    v
}

const IGNORED_CONFIGS: [u16; 3] = [0, 0b1000101, 0b0010010]; // none; INT TERM USR1; QUIT TSTP

fn arb_op() -> impl Strategy<Value = Op> {
    prop_oneof![
        6 => (0u8..9, prop::sample::select(vec![Act::Default, Act::Ignore, Act::Command])).prop_map(|(sig, act)| Op::Set { sig, act }),
        1 => Just(Op::EnableChld),
        1 => Just(Op::EnableTerminators),
        1 => Just(Op::DisableTerminators),
        1 => Just(Op::EnableStoppers),
        1 => Just(Op::DisableStoppers),
        1 => Just(Op::DisableAll),
        2 => (any::<bool>(), any::<bool>()).prop_map(|(int_quit, keep_stoppers)| Op::Subshell { int_quit, keep_stoppers }),
        4 => (0u8..7).prop_map(Op::Deliver),
        2 => Just(Op::Take),
    ]
}

// ---------------------------------------------------------------------------------------------
// (b) delivery at every point of a script

#[derive(Clone, Debug, PartialEq, Eq, Hash, Serialize, Deserialize)]
pub enum Step {
    /// `st N`
    St(u8),
    Mark,
    /// `( st N )`
    Sub(u8),
    /// `x=$(st N)` hmm: assignment-only command, status N
    Subst(u8),
    /// `st N | st M`
    Pipe(u8, u8),
    /// function call: `f N` with f() { st $1; }
    Func(u8),
    /// `kill -s USR1 $$`
    Kill,
    /// `read rX` + a data line (only when the script is fed through a pipe: the built-in then
    /// blocks until the feeder has written the line, which is when a signal can arrive)
    Read,
    /// `( hold; st N ) & mark W; wait $!; mark A; release; wait $!` - the child cannot finish before
    /// `release`, and the harness raises USR1 once the shell is blocked after `mark W`, i.e. inside
    /// the wait built-in: `wait` must return > 128 at once and the action must run right after it.
    /// Used at most once per case, without any other delivery, in non-interactive shells.
    WaitHeld(u8),
    /// like `WaitHeld`, with a second trap (`trap 'mark U $?' USR2`) and USR1 and USR2 raised at the
    /// same instant: both actions must run, once each, before the command after `wait`
    WaitHeld2(u8),
    /// like `WaitHeld`, with a SIGCHLD (as any other child, or `kill -s CHLD`, may cause at any
    /// time) arriving in the same instant as USR1: the trap must interrupt `wait` all the same
    WaitHeldChld(u8),
}

/// expected `$?` of a mark that follows the interrupted `wait`: any value > 128, the same the
/// action saw
const INTERRUPTED: i32 = -128;

#[derive(Clone, Debug, PartialEq, Eq, Hash, Serialize, Deserialize)]
pub struct DeliverCase {
    pub steps: Vec<Step>,
    /// asynchronous delivery: raise USR1 on the shell process before this scheduler step
    pub raise_at: Option<u32>,
    pub sched: Option<u64>,
    /// interactive shell (`-i`) reading the script from a pipe written in chunks of these sizes
    #[serde(default)]
    pub interactive_pipe: Option<Vec<u16>>,
}

fn check_deliver(c: &DeliverCase) -> Outcome {
    let mut script = String::from("f() { st $1; }\ntrap 'mark T $?' USR1\n");
    let mut next = 1;
    // expected (without asynchronous delivery): sequence of (marker, status)
    let mut expect: Vec<(String, i32)> = vec![];
    let mut status = 0;
    let held = c.raise_at.is_none() && c.interactive_pipe.is_none() && c.steps.iter().any(|s| matches!(s, Step::WaitHeld(_) | Step::WaitHeld2(_) | Step::WaitHeldChld(_)));
    let held_both = held && matches!(c.steps.iter().find(|s| matches!(s, Step::WaitHeld(_) | Step::WaitHeld2(_) | Step::WaitHeldChld(_))), Some(Step::WaitHeld2(_)));
    if held_both {
        script.push_str("trap 'mark U $?' USR2\n");
    }
    let mut held_done = false;
    for s in &c.steps {
        if (c.raise_at.is_some() || held) && matches!(s, Step::Kill) {
            continue; // one kind of delivery per case keeps the attribution of T entries unambiguous
        }
        match s {
            Step::WaitHeld(n) | Step::WaitHeld2(n) | Step::WaitHeldChld(n) => {
                if held && !held_done {
                    held_done = true;
                    script.push_str(&format!("( hold; st {n} ) &\nmark W\nwait $!\nmark A\nrelease\nwait $!\n"));
                    expect.push(("W".into(), 0));
                    expect.push(("A".into(), INTERRUPTED));
                    status = *n as i32;
                }
            }
            Step::St(n) => {
                script.push_str(&format!("st {n}\n"));
                status = *n as i32;
            }
            Step::Mark => {
                script.push_str(&format!("mark {next}\n"));
                expect.push((next.to_string(), status));
                next += 1;
                status = 0;
            }
            Step::Sub(n) => {
                script.push_str(&format!("( st {n} )\n"));
                status = *n as i32;
            }
            Step::Subst(n) => {
                script.push_str(&format!("x=$(st {n})\n"));
                status = *n as i32;
            }
            Step::Pipe(a, b) => {
                script.push_str(&format!("st {a} | st {b}\n"));
                status = *b as i32;
            }
            Step::Func(n) => {
                script.push_str(&format!("f {n}\n"));
                status = *n as i32;
            }
            Step::Read => {
                if c.interactive_pipe.is_some() {
                    script.push_str("read rX\nsome data\n");
                    status = 0;
                }
            }
            Step::Kill => {
                script.push_str("kill -s USR1 $$\n");
                // kill returns 0; the trap runs after it, sees $? = 0, and $? stays 0
                expect.push(("T".into(), 0));
                status = 0;
            }
        }
    }
    script.push_str(&format!("mark {next}\n"));
    expect.push((next.to_string(), status));
    let status = 0; // the final `mark` succeeds
    let mut s = vsys::Setup::script(&script);
    if let Some(chunks) = &c.interactive_pipe {
        s.argv = vec!["yash".into(), "-i".into()];
        let bytes = script.as_bytes();
        let mut v = vec![];
        let (mut i, mut k) = (0, 0);
        while i < bytes.len() {
            let want = if chunks.is_empty() { bytes.len() } else { (chunks[k % chunks.len()] as usize).max(1) };
            let end = (i + want).min(bytes.len());
            v.push(bytes[i..end].to_vec());
            i = end;
            k += 1;
        }
        s.stdin_pipe = Some(v);
    }
    if let Some(seed) = c.sched {
        s.chooser = Chooser::Seeded(seed);
        s.preempt = true;
    }
    s.raise_usr1_at_step = c.raise_at;
    if held {
        s.raise_usr1_when_blocked_after = Some("W".into());
        s.raise_usr2_too = held_both;
        s.raise_chld_too = matches!(c.steps.iter().find(|s| matches!(s, Step::WaitHeld(_) | Step::WaitHeld2(_) | Step::WaitHeldChld(_))), Some(Step::WaitHeldChld(_)));
        s.preempt = true;
        s.drain = true; // let the released child end
    }
    let r = vsys::run(&s);
    let ctx = |m: String| format!("{m}\nraise_at {:?} sched {:?}\nscript:\n{script}stderr: {:?}", c.raise_at, c.sched, r.stderr);
    if let Some(p) = &r.panic {
        return Outcome::fail(ctx(format!("panic: {p}")));
    }
    if r.log.deadlock || !r.finished {
        return Outcome::fail(ctx(if held {
            "shell did not finish: `wait` was not interrupted by the trapped signal that arrived while it was blocked (the child cannot end before `release`)".into()
        } else {
            "shell did not finish".into()
        }));
    }
    let got: Vec<(String, i32, Vec<String>)> = r.main_trace().iter().map(|t| (t.args[0].clone(), t.status, t.args.clone())).collect();
    let raised = r.log.raised;
    // synchronous part: remove the (at most one) asynchronous T entry and compare
    let mut actual: Vec<(String, i32)> = vec![];
    let mut async_t: Vec<(usize, i32, i32, String)> = vec![]; // (position, status seen by the action, $? printed, T or U)
    let need = if held_both { 2 } else { 1 };
    let mut exp_iter = expect.iter().peekable();
    for (pos, (name, st, args)) in got.iter().enumerate() {
        let matches_expected = exp_iter.peek().is_some_and(|e| &e.0 == name && (name != "T" || true));
        if name == "T" || name == "U" {
            let shown: i32 = args.get(1).and_then(|s| s.parse().ok()).unwrap_or(-1);
            if name == "T" && exp_iter.peek().is_some_and(|e| e.0 == "T") {
                // a synchronous (self-kill) trap execution
                let e = exp_iter.next().unwrap();
                if shown != e.1 {
                    return Outcome::fail(ctx(format!("trap action after `kill` saw $?={shown}, expected {}", e.1)));
                }
                actual.push((name.clone(), *st));
                continue;
            }
            async_t.push((pos, *st, shown, name.clone()));
            continue;
        }
        let _ = matches_expected;
        match exp_iter.next() {
            Some(e) if &e.0 == name => {
                // `$?` on entry to a mark: if an asynchronous trap ran just before, `$?` must still
                // be the value from before the trap (restored)
                if e.1 == INTERRUPTED {
                    // the mark after the interrupted wait: the action ran directly before it and
                    // both saw the status of the interrupted wait, which is > 128
                    let ok_positions = async_t.len() >= need && async_t[async_t.len() - need..].iter().enumerate().all(|(k, a)| a.0 + need - k == pos);
                    if !ok_positions {
                        return Outcome::fail(ctx(format!(
                            "{need} trapped signal(s) arrived while the shell was blocked in `wait`, but not every action ran between `wait` and the next command: {got:?}"
                        )));
                    }
                    if held_both && async_t[async_t.len() - 2].3 == async_t[async_t.len() - 1].3 {
                        return Outcome::fail(ctx(format!("USR1 and USR2 arrived together but one action ran twice: {got:?}")));
                    }
                    // yash-rs runs the action inside the built-in ("the trap action is executed and
                    // the built-in returns immediately", docs/src/builtins/wait.md), where `$?` is
                    // still that of the previous command (0, left by `mark W`); POSIX words it as
                    // wait returning first. Either way the next command must see the status > 128.
                    let first = &async_t[async_t.len() - need];
                    if *st <= 128 || !(first.1 == *st || first.1 == 0) {
                        return Outcome::fail(ctx(format!(
                            "`wait` interrupted by a trapped signal must return > 128 (and the action sees that status or the one before `wait`): action saw {}, next command saw {st}",
                            first.1
                        )));
                    }
                } else if e.1 != *st {
                    return Outcome::fail(ctx(format!("mark {name} saw $?={st}, expected {} (the trap action must not change $?)", e.1)));
                }
                actual.push((name.clone(), *st));
            }
            other => return Outcome::fail(ctx(format!("unexpected trace entry {name} (expected {:?}); trace {got:?}", other))),
        }
    }
    if exp_iter.next().is_some() {
        return Outcome::fail(ctx(format!("trace ended early: {got:?}, expected {expect:?}")));
    }
    match (raised, async_t.len()) {
        (false, 0) => {}
        (false, n) => return Outcome::fail(ctx(format!("{n} trap execution(s) without any asynchronous delivery: {got:?}"))),
        (true, n) if n == need => {
            // the action prints the $? it saw as its second argument; it must equal the $? on entry
            for (_, st, shown, _) in &async_t {
                if st != shown {
                    return Outcome::fail(ctx(format!("trap action: $? on entry {st} but it printed {shown}")));
                }
            }
        }
        // delivered when every command of the script had already run (the shell was waiting for
        // more input and met the end of it): no command boundary follows, nothing is demanded
        (true, 0) if r.log.raised_trace_len >= got.len() && c.interactive_pipe.is_some() => {
            return Outcome::pass(false).class("delivered-after-the-last-command");
        }
        (true, 0) => return Outcome::fail(ctx(format!("USR1 was delivered to the shell (step {:?}) but the trap action never ran: {got:?}", c.raise_at))),
        (true, n) => return Outcome::fail(ctx(format!("{need} asynchronous deliveries but {n} trap executions: {got:?}"))),
    }
    if r.status != status {
        return Outcome::fail(ctx(format!("final status {} expected {status}", r.status)));
    }
    let kills = c.steps.iter().filter(|s| matches!(s, Step::Kill)).count();
    Outcome::pass(raised || kills > 0)
        .class_if(raised, "asynchronous-delivery")
        .class_if(kills > 0, "self-kill")
        .class_if(raised && async_t.first().is_some_and(|a| a.0 + 1 < got.len()), "delivery-before-last-command")
        .class_if(c.raise_at.is_some() && !raised, "raise-point-beyond-run")
        .class_if(held && raised, "delivery-while-blocked-in-wait")
        .class_if(held_both && raised, "two-signals-at-once-while-blocked-in-wait")
        .class_if(c.interactive_pipe.is_some(), "interactive-shell-fed-through-a-pipe")
        .class_if(c.interactive_pipe.is_some() && c.steps.contains(&Step::Read), "read-built-in-may-block")
}

// ---------------------------------------------------------------------------------------------
// (c) several trapped signals: one arriving while another action runs, two pending at one boundary,
//     an action that leaves the enclosing function

#[derive(Clone, Copy, Debug, PartialEq, Eq, Hash, Serialize, Deserialize)]
pub enum TAct {
    /// `mark T $?`
    Plain,
    /// `mark T $?; kill -s USR2 $$` - USR2 is delivered while the USR1 action runs
    SendUsr2,
    /// `mark T $?; return 7` - only ever triggered inside a function
    Return,
    /// `mark T $?; kill -s USR2 $$; (mark S; mark S)` - the action forks a subshell while USR2 is
    /// caught but not yet handled: the subshell must not run (or keep) the parent's USR2 trap
    SendUsr2Sub,
    /// `mark T $?; kill -s USR2 $$; trap 'mark U $?' USR2` - the USR1 action sets the trap for USR2
    /// again (same action) while a USR2 delivery is caught but not yet handled: the delivery must
    /// not be forgotten
    SendUsr2Retrap,
}

#[derive(Clone, Debug, PartialEq, Eq, Hash, Serialize, Deserialize)]
pub enum CStep {
    St(u8),
    Mark,
    /// `kill -s USR1 $$`
    Kill1,
    /// `(kill -s USR1 $$; kill -s USR2 $$)`: both pending when the subshell has been awaited
    KillBoth,
    /// `(kill -s USR2 $$; kill -s USR1 $$)`
    KillBothRev,
    /// `kill -s USR1 $$ | st 0`: the signal arrives while the shell runs a multi-command pipeline;
    /// the action is due when the pipeline has finished, before the command that follows it
    KillPipe,
}

#[derive(Clone, Debug, PartialEq, Eq, Hash, Serialize, Deserialize)]
pub struct ChainCase {
    pub steps: Vec<CStep>,
    pub t_action: TAct,
    /// end the script with a self-kill instead of a final mark (actions must still run before exit)
    pub last_kill: bool,
    pub sched: Option<u64>,
    /// the steps are written on one line, separated by `;` (one list, parsed and executed as a
    /// whole) instead of one per line
    #[serde(default)]
    pub sameline: bool,
}

fn check_chain(c: &ChainCase) -> Outcome {
    let t_text = match c.t_action {
        TAct::Plain => "mark T $?",
        TAct::SendUsr2 => "mark T $?; kill -s USR2 $$",
        TAct::Return => "mark T $?; return 7",
        TAct::SendUsr2Sub => "mark T $?; kill -s USR2 $$; (mark S; mark S)",
        TAct::SendUsr2Retrap => "mark T $?; kill -s USR2 $$; trap \"mark U \\$?\" USR2",
    };
    let send2 = matches!(c.t_action, TAct::SendUsr2 | TAct::SendUsr2Sub | TAct::SendUsr2Retrap);
    let mut script = format!("trap '{t_text}' USR1\ntrap 'mark U $?' USR2\n");
    if c.t_action == TAct::Return {
        script.push_str("h1() { kill -s USR1 $$; mark X; }\nh2() { (kill -s USR1 $$; kill -s USR2 $$); mark X; }\nh3() { (kill -s USR2 $$; kill -s USR1 $$); mark X; }\n");
    }
    let head_len = script.len();
    // segments: expected (T count, U count) between consecutive numbered marks, and the `$?` the
    // mark closing the segment must see (None = not asserted)
    let mut segs: Vec<(u32, u32, Option<i32>)> = vec![];
    let (mut t, mut u) = (0u32, 0u32);
    let mut status: Option<i32> = Some(0);
    let mut next = 1;
    let mut deliveries = 0;
    for s in &c.steps {
        match s {
            CStep::St(n) => {
                script.push_str(&format!("st {n}\n"));
                status = Some(*n as i32);
            }
            CStep::Mark => {
                script.push_str(&format!("mark {next}\n"));
                next += 1;
                segs.push((t, u, status));
                t = 0;
                u = 0;
                status = Some(0);
            }
            CStep::Kill1 | CStep::KillPipe => {
                deliveries += 1;
                t += 1;
                let text = if matches!(s, CStep::KillPipe) { "kill -s USR1 $$ | st 0\n" } else { "kill -s USR1 $$\n" };
                match c.t_action {
                    TAct::Plain => script.push_str(text),
                    TAct::SendUsr2 | TAct::SendUsr2Sub | TAct::SendUsr2Retrap => {
                        script.push_str(text);
                        u += 1;
                    }
                    TAct::Return => script.push_str("h1\n"),
                }
                status = if c.t_action == TAct::Return { None } else { Some(0) };
            }
            CStep::KillBoth | CStep::KillBothRev => {
                deliveries += 1;
                t += 1;
                u += 1;
                let rev = matches!(s, CStep::KillBothRev);
                match c.t_action {
                    TAct::Plain => script.push_str(if rev { "(kill -s USR2 $$; kill -s USR1 $$)\n" } else { "(kill -s USR1 $$; kill -s USR2 $$)\n" }),
                    // two USR2 deliveries could coalesce: send USR1 only, the action sends USR2
                    TAct::SendUsr2 | TAct::SendUsr2Sub | TAct::SendUsr2Retrap => script.push_str("(kill -s USR1 $$)\n"),
                    TAct::Return => script.push_str(if rev { "h3\n" } else { "h2\n" }),
                }
                status = if c.t_action == TAct::Return { None } else { Some(0) };
            }
        }
    }
    let last_kill = c.last_kill && c.t_action != TAct::Return;
    if last_kill {
        script.push_str("kill -s USR1 $$\n");
        deliveries += 1;
        t += 1;
        if send2 {
            u += 1;
        }
        segs.push((t, u, None));
    } else {
        script.push_str(&format!("mark {next}\n"));
        segs.push((t, u, status));
    }
    if c.sameline {
        // the trap and function definitions stay on lines of their own; the steps form one line
        let steps: Vec<&str> = script[head_len..].lines().collect();
        script = format!("{}{}\n", &script[..head_len], steps.join("; "));
    }
    let mut s = vsys::Setup::script(&script);
    if let Some(seed) = c.sched {
        s.chooser = Chooser::Seeded(seed);
        s.preempt = true;
    }
    let r = vsys::run(&s);
    let ctx = |m: String| format!("{m}\nsched {:?}\nscript:\n{script}stderr: {:?}", c.sched, r.stderr);
    if let Some(p) = &r.panic {
        return Outcome::fail(ctx(format!("panic: {p}")));
    }
    if r.log.deadlock || !r.finished {
        return Outcome::fail(ctx("shell did not finish".into()));
    }
    let got: Vec<(String, i32, i32)> = r
        .main_trace()
        .iter()
        .map(|t| (t.args[0].clone(), t.status, t.args.get(1).and_then(|s| s.parse().ok()).unwrap_or(-1)))
        .collect();
    if got.iter().any(|g| g.0 == "X") {
        return Outcome::fail(ctx(format!("a command after the delivery ran although the USR1 action returns from the function: {got:?}")));
    }
    // split the trace at numbered marks
    let mut it = got.iter().peekable();
    for (k, (et, eu, est)) in segs.iter().enumerate() {
        let closing = (k + 1).to_string();
        let is_last_open = last_kill && k + 1 == segs.len();
        let mut seq: Vec<&(String, i32, i32)> = vec![];
        let mut closed = false;
        for g in it.by_ref() {
            if g.0 == "T" || g.0 == "U" {
                seq.push(g);
            } else if g.0 == closing && !is_last_open {
                if let Some(e) = est {
                    if g.1 != *e {
                        return Outcome::fail(ctx(format!("mark {closing} saw $?={}, expected {e} (trap actions must not change $?): {got:?}", g.1)));
                    }
                }
                closed = true;
                break;
            } else {
                return Outcome::fail(ctx(format!("unexpected trace entry {:?}: {got:?}", g.0)));
            }
        }
        if !closed && !is_last_open {
            return Outcome::fail(ctx(format!("mark {closing} never ran: {got:?}")));
        }
        let nt = seq.iter().filter(|g| g.0 == "T").count() as u32;
        let nu = seq.iter().filter(|g| g.0 == "U").count() as u32;
        if nt != *et || nu != *eu {
            return Outcome::fail(ctx(format!(
                "before {}: {et} USR1 and {eu} USR2 deliveries but the actions ran {nt} and {nu} times (each delivery must run its action exactly once at the next command boundary): {got:?}",
                if is_last_open { "the end of the script".to_string() } else { format!("mark {closing}") }
            )));
        }
        for g in &seq {
            if g.1 != g.2 {
                return Outcome::fail(ctx(format!("action {} printed $?={} but $? on entry was {}: {got:?}", g.0, g.2, g.1)));
            }
        }
        if send2 {
            // USR2 arrives while the USR1 action runs: its action is due at the boundary right after it
            for w in seq.chunks(2) {
                if !(w.len() == 2 && w[0].0 == "T" && w[1].0 == "U") {
                    return Outcome::fail(ctx(format!("the USR2 action must follow the USR1 action that sent it: {got:?}")));
                }
            }
        }
        if c.t_action != TAct::Return {
            // nothing between the kill and the action changes `$?` (kill / the subshell end with 0)
            for g in &seq {
                if g.1 != 0 {
                    return Outcome::fail(ctx(format!("action {} saw $?={}, expected 0 (status of the command that just finished): {got:?}", g.0, g.1)));
                }
            }
        }
    }
    if it.next().is_some() {
        return Outcome::fail(ctx(format!("trace continues after the last expected entry: {got:?}")));
    }
    if c.t_action != TAct::Return && r.status != 0 {
        return Outcome::fail(ctx(format!("final status {} expected 0", r.status)));
    }
    // subshells: they only ever run `kill` or the two S marks; a trap action of the parent running
    // in a child means a command trap survived the subshell entry (or a delivery was duplicated)
    let mut per_child: std::collections::BTreeMap<i32, Vec<&str>> = Default::default();
    for e in r.trace.iter().filter(|e| e.pid != r.main_pid) {
        per_child.entry(e.pid).or_default().push(e.args[0].as_str());
    }
    for (pid, names) in &per_child {
        if names.iter().any(|n| *n != "S") {
            return Outcome::fail(ctx(format!("subshell {pid} ran {names:?}: a trap action of the parent ran inside a subshell (command traps are reset on subshell entry; each delivery runs its action once, in the process that received it)")));
        }
        if c.t_action == TAct::SendUsr2Sub && names.len() != 2 {
            return Outcome::fail(ctx(format!("subshell {pid} ran {names:?}, expected its two marks")));
        }
    }
    if c.t_action == TAct::SendUsr2Sub && per_child.len() as u32 != segs.iter().map(|s| s.0).sum::<u32>() {
        return Outcome::fail(ctx(format!("{} subshells of the USR1 action left a trace, expected one per delivery: {:?}", per_child.len(), per_child)));
    }
    let both = c.steps.iter().any(|s| matches!(s, CStep::KillBoth | CStep::KillBothRev));
    let in_pipe = c.t_action != TAct::Return && c.steps.iter().any(|s| matches!(s, CStep::KillPipe));
    Outcome::pass(deliveries > 0)
        .class_if(c.sameline, "steps-on-one-line")
        .class_if(in_pipe, "delivery-during-a-multi-command-pipeline")
        .class(match c.t_action {
            TAct::Plain => "chain:plain",
            TAct::SendUsr2 => "chain:signal-during-action",
            TAct::Return => "chain:action-returns",
            TAct::SendUsr2Sub => "chain:subshell-forked-while-a-signal-is-pending",
            TAct::SendUsr2Retrap => "chain:trap-set-again-while-its-signal-is-pending",
        })
        .class_if(both, "two-signals-pending-at-one-boundary")
        .class_if(last_kill, "delivery-by-last-command")
}

pub static CHAIN: Driver<ChainCase> = Driver::new("C11", "chain", check_chain);

fn arb_cstep() -> impl Strategy<Value = CStep> {
    prop_oneof![
        2 => (0u8..4).prop_map(CStep::St),
        3 => Just(CStep::Mark),
        2 => Just(CStep::Kill1),
        2 => Just(CStep::KillBoth),
        1 => Just(CStep::KillBothRev),
        2 => Just(CStep::KillPipe),
    ]
}

pub static DELIVER: Driver<DeliverCase> = Driver::new("C11", "delivery", check_deliver);

fn arb_step() -> impl Strategy<Value = Step> {
    prop_oneof![
        3 => (0u8..4).prop_map(Step::St),
        3 => Just(Step::Mark),
        4 => (0u8..4).prop_map(Step::Sub),
        2 => (0u8..4).prop_map(Step::Subst),
        2 => (0u8..4, 0u8..4).prop_map(|(a, b)| Step::Pipe(a, b)),
        1 => (0u8..4).prop_map(Step::Func),
        2 => Just(Step::Kill),
        2 => Just(Step::Read),
        2 => (0u8..4).prop_map(Step::WaitHeld),
        1 => (0u8..4).prop_map(Step::WaitHeld2),
        1 => (0u8..4).prop_map(Step::WaitHeldChld),
    ]
}

// -------------------------------------------------------------------------------------------
// (d) the trapped signal arrives again while its own action runs: the action is not re-entered,
// it runs once more after the running one has finished - whatever construct the action is made of

#[derive(Clone, Debug, PartialEq, Eq, Hash, Serialize, Deserialize)]
pub struct ReenterCase {
    /// how the action's commands are wrapped: 0 flat, 1 for, 2 while, 3 eval, 4 braces, 5 if,
    /// 6 function call, 7 sourced file, 8 case, 9 for inside eval, 10 until, 11 nested loops
    pub wrap: u8,
    /// how the first delivery is made: 0 `kill`, 1 `(kill)`, 2 `kill | st 0`, 3 from a function
    pub deliver: u8,
    /// the action sends the signal to the shell this many times (all while it runs)
    pub resend: u8,
    pub sameline: bool,
    pub sched: Option<u64>,
}

fn check_reenter(c: &ReenterCase) -> Outcome {
    let resend = (c.resend % 2) + 1;
    // `cnt r 1` succeeds once per shell process: only the first run of the action re-sends
    let sends: String = (0..resend).map(|_| "kill -s USR1 $$; ").collect();
    let body = format!("mark B; if cnt r 1; then {sends}fi; mark M; mark E");
    let mut head = String::new();
    let mut files = vec![];
    let action = match c.wrap % 12 {
        0 => body.clone(),
        1 => format!("for i in 1; do {body}; done"),
        2 => format!("while :; do {body}; break; done"),
        3 => format!("eval \"{body}\""),
        4 => format!("{{ {body}; }}"),
        5 => format!("if :; then {body}; fi"),
        6 => {
            head.push_str(&format!("fa() {{ {body}; }}\n"));
            "fa".to_string()
        }
        7 => {
            files.push(("/work/act".to_string(), vsys::FileSpec::Regular { content: body.replace("; ", "\n") + "\n", mode: 0o644, exec: false }));
            ". ./act".to_string()
        }
        8 => format!("case x in x) {body};; esac"),
        9 => format!("eval \"for i in 1; do {body}; done\""),
        10 => format!("until {body}; do :; done"),
        _ => format!("for i in 1; do while :; do {body}; break; done; done"),
    };
    // the body contains `$$`, harmless to expand at definition time inside the double quotes of
    // `eval "..."`; the trap operand itself is single-quoted
    let mut script = format!("{head}trap '{action}' USR1\nhk() {{ kill -s USR1 $$; }}\n");
    let steps = [
        "mark 1".to_string(),
        match c.deliver % 4 {
            0 => "kill -s USR1 $$".to_string(),
            1 => "(kill -s USR1 $$)".to_string(),
            2 => "kill -s USR1 $$ | st 0".to_string(),
            _ => "hk".to_string(),
        },
        "mark 2".to_string(),
    ];
    script.push_str(&steps.join(if c.sameline { "; " } else { "\n" }));
    script.push('\n');
    let mut s = vsys::Setup::script(&script);
    s.files.extend(files);
    if let Some(seed) = c.sched {
        s.chooser = Chooser::Seeded(seed);
        s.preempt = true;
    }
    let r = vsys::run(&s);
    let ctx = |m: String| format!("{m}\nsched {:?}\nscript:\n{script}stderr: {:?}", c.sched, r.stderr);
    if let Some(p) = &r.panic {
        return Outcome::fail(ctx(format!("panic: {p}")));
    }
    if r.log.deadlock || !r.finished {
        return Outcome::fail(ctx("shell did not finish".into()));
    }
    let got: Vec<String> = r.main_trace().iter().map(|t| t.args[0].clone()).collect();
    // the deliveries made while the action runs may coalesce into one pending signal (POSIX does
    // not queue ordinary signals): the action runs once more for them, possibly once per delivery
    let runs_min = 2;
    let runs_max = 1 + resend as usize;
    let mut ok = false;
    for runs in runs_min..=runs_max {
        let mut want = vec!["1".to_string()];
        for _ in 0..runs {
            want.extend(["B", "M", "E"].map(String::from));
        }
        want.push("2".into());
        if got == want {
            ok = true;
        }
    }
    if !ok {
        return Outcome::fail(ctx(format!(
            "commands run: {got:?}; expected 1, then the action's B M E {runs_min}{} times without interleaving (the signal arrived again while its action ran: the action must finish and then run again), then 2",
            if runs_max > runs_min { format!(" to {runs_max}") } else { String::new() }
        )));
    }
    Outcome::pass(true).class(match c.wrap % 12 {
        0 => "action-flat",
        1 | 2 | 10 | 11 => "action-in-loop",
        3 | 9 => "action-in-eval",
        6 => "action-in-function",
        7 => "action-in-sourced-file",
        _ => "action-in-compound-command",
    })
}

pub static REENTER: Driver<ReenterCase> = Driver::new("C11", "reenter", check_reenter);

fn reenter_cases(seeds: u64, base: u64) -> Vec<ReenterCase> {
    let mut v = vec![];
    for wrap in 0..12u8 {
        for deliver in 0..4u8 {
            for resend in 0..2u8 {
                for sameline in [false, true] {
                    v.push(ReenterCase { wrap, deliver, resend, sameline, sched: None });
                    for k in 0..seeds {
                        v.push(ReenterCase { wrap, deliver, resend, sameline, sched: Some(base.wrapping_mul(1000003).wrapping_add(k * 7919 + wrap as u64 * 31 + deliver as u64)) });
                    }
                }
            }
        }
    }
    v
}

// -------------------------------------------------------------------------------------------
// (e) `trap` with several conditions in one command: every condition that can be set gets the
// action, wherever a condition that cannot (KILL, STOP) stands among them

#[derive(Clone, Debug, PartialEq, Eq, Hash, Serialize, Deserialize)]
pub struct TrapOpsCase {
    /// per command: action (0 default `-`, 1 ignore `''`, 2.. a command), `--` before the action,
    /// conditions as indices into TO_CONDS
    pub cmds: Vec<(u8, bool, Vec<u8>)>,
}

/// (spelling, key in the snapshot's trap table, name in the process' disposition list)
const TO_CONDS: [(&str, &str, &str); 9] = [
    ("USR1", "Signal(Number(124))", "USR1"),
    ("USR2", "Signal(Number(125))", "USR2"),
    ("TERM", "Signal(Number(15))", "TERM"),
    ("HUP", "Signal(Number(1))", "HUP"),
    ("EXIT", "Exit", ""),
    ("0", "Exit", ""),
    ("QUIT", "Signal(Number(3))", "QUIT"),
    ("KILL", "", ""),
    ("STOP", "", ""),
];

fn check_trap_ops(c: &TrapOpsCase) -> Outcome {
    use std::collections::BTreeMap;
    let mut script = String::new();
    let mut model: BTreeMap<&str, String> = BTreeMap::new(); // snapshot key -> action text ("-" default)
    let mut disp: BTreeMap<&str, &str> = BTreeMap::new();
    let mut expect: Vec<(BTreeMap<&str, String>, BTreeMap<&str, &str>, bool)> = vec![];
    let mut mixed = false;
    for (k, (act, dd, conds)) in c.cmds.iter().enumerate() {
        let has_bad = conds.iter().any(|i| TO_CONDS[*i as usize % 9].1.is_empty());
        // KILL / STOP only together with an action that tries to catch or ignore them
        let act = if has_bad && *act % 4 == 0 { 2 } else { *act % 4 };
        let text = match act {
            0 => "-".to_string(),
            1 => "''".to_string(),
            n => format!("'mark A{k}{n}'"),
        };
        let names: Vec<&str> = conds.iter().map(|i| TO_CONDS[*i as usize % 9].0).collect();
        // through `command`: an error of the special built-in must not end the shell here
        script.push_str(&format!("command trap {}{text} {}\nsnap S{k}\n", if *dd { "-- " } else { "" }, names.join(" ")));
        let mut any_good_after_bad = false;
        let mut seen_bad = false;
        for i in conds {
            let (_, key, dname) = TO_CONDS[*i as usize % 9];
            if key.is_empty() {
                seen_bad = true;
                continue;
            }
            any_good_after_bad |= seen_bad;
            let val = match act {
                0 => "-".to_string(),
                1 => String::new(),
                n => format!("mark A{k}{n}"),
            };
            model.insert(key, val);
            if !dname.is_empty() {
                disp.insert(dname, match act { 0 => "Default", 1 => "Ignore", _ => "Catch" });
            }
        }
        mixed |= any_good_after_bad;
        expect.push((model.clone(), disp.clone(), has_bad));
    }
    // keep the EXIT action (if any) from adding a trace entry that matters: only snapshots are read
    let r = vsys::run(&vsys::Setup::script(&script));
    let ctx = |m: String| format!("{m}\nscript:\n{script}stderr: {:?}", r.stderr);
    if let Some(p) = &r.panic {
        return Outcome::fail(ctx(format!("panic: {p}")));
    }
    for (k, (m, d, bad)) in expect.iter().enumerate() {
        let tag = format!("S{k}");
        let Some(sn) = r.snaps.iter().find(|s| s.tag == tag) else {
            return Outcome::fail(ctx(format!("the shell did not reach the command after `command trap` number {k} (an error of a special built-in run through `command` must not end the shell)")));
        };
        if *bad != (sn.status != 0) {
            return Outcome::fail(ctx(format!("command {k}: exit status {} although the operands {} KILL / STOP", sn.status, if *bad { "include" } else { "do not include" })));
        }
        let got: BTreeMap<&str, &str> = sn.traps.iter().filter(|(_, v)| v.as_str() != "-").map(|(k, v)| (k.as_str(), v.as_str())).collect();
        let want: BTreeMap<&str, &str> = m.iter().filter(|(_, v)| v.as_str() != "-").map(|(k, v)| (*k, v.as_str())).collect();
        if got != want {
            return Outcome::fail(ctx(format!("after command {k} the traps are {got:?}, expected {want:?} (every condition that can be trapped gets the action, whatever else is named in the same command)")));
        }
        if let Some((_, p)) = r.proc_snaps.iter().find(|(t, p)| *t == tag && p.pid == sn.pid) {
            for (name, w) in d {
                let g = p.dispositions.iter().find(|x| x.0 == *name).map(|x| x.1.as_str()).unwrap_or("");
                if g != *w {
                    return Outcome::fail(ctx(format!("after command {k} the disposition installed for {name} is {g}, the traps imply {w}")));
                }
            }
        }
    }
    Outcome::pass(c.cmds.iter().any(|x| x.2.len() >= 2)).class_if(mixed, "settable-condition-after-KILL-or-STOP").class_if(expect.iter().any(|e| e.2), "command-with-KILL-or-STOP")
}

pub static TRAPOPS: Driver<TrapOpsCase> = Driver::new("C11", "trap-operands", check_trap_ops);

// -------------------------------------------------------------------------------------------
// (f) two trapped signals pending at one command boundary, the action of one of them is a syntax
// error: the shell is aborted there (docs/src/termination.md), so nothing may run afterwards - in
// particular not the other signal's action

#[derive(Clone, Debug, PartialEq, Eq, Hash, Serialize, Deserialize)]
pub struct ActErrCase {
    /// the subshell sends USR2 before USR1
    pub rev: bool,
    /// which error: 0 `fi`, 1 `)`, 2 unclosed quote, 3 `if then`, 4 `${unset_v?}`, 5 assignment to a
    /// read-only variable
    pub err: u8,
    pub sameline: bool,
    pub sched: Option<u64>,
}

fn check_act_err(c: &ActErrCase) -> Outcome {
    // four syntax errors (nothing of the action may run), an expansion error and an assignment error
    // (shell errors that abort a non-interactive shell just the same)
    let bad = ["mark B; fi", "mark B; )", "mark B; mark \"x", "if then mark B; fi", ": ${unset_v?}; mark B", "readonly rr=1; rr=2; mark B"][c.err as usize % 6];
    // which of two pending signals is handled first is not specified: run both assignments of the
    // erroneous action; the good action can precede the abort in at most one of them
    let mut good_ran = 0;
    let mut scripts = String::new();
    for bad_on_usr1 in [true, false] {
        let (a1, a2) = if bad_on_usr1 { (bad, "mark G") } else { ("mark G", bad) };
        let send = if c.rev { "(kill -s USR2 $$; kill -s USR1 $$)" } else { "(kill -s USR1 $$; kill -s USR2 $$)" };
        let sep = if c.sameline { "; " } else { "\n" };
        let script = format!("trap '{}' USR1\ntrap '{}' USR2\nmark 1{sep}{send}{sep}mark 2{sep}mark 3\n", a1.replace('\'', "'\\''"), a2.replace('\'', "'\\''"));
        let mut s = vsys::Setup::script(&script);
        if let Some(seed) = c.sched {
            s.chooser = Chooser::Seeded(seed);
            s.preempt = true;
        }
        let r = vsys::run(&s);
        let ctx = |m: String| format!("{m}\nsched {:?}\nscript:\n{script}stderr: {:?}", c.sched, r.stderr.lines().next());
        if let Some(p) = &r.panic {
            return Outcome::fail(ctx(format!("panic: {p}")));
        }
        if r.log.deadlock || !r.finished {
            return Outcome::fail(ctx("shell did not finish".into()));
        }
        let got: Vec<String> = r.main_trace().iter().map(|t| t.args[0].clone()).collect();
        if got.iter().any(|g| g == "B" || g == "2" || g == "3") {
            return Outcome::fail(ctx(format!("commands run: {got:?}: nothing of an action that is a syntax error may run, and the non-interactive shell is aborted at that point (no `mark 2`, no `mark 3`)")));
        }
        if got.first().map(String::as_str) != Some("1") {
            return Outcome::fail(ctx(format!("commands run: {got:?}; `mark 1` expected first")));
        }
        if r.status == 0 || r.stderr.is_empty() {
            return Outcome::fail(ctx(format!("exit status {} / no diagnostic after a syntax or shell error in a trap action", r.status)));
        }
        if got.iter().filter(|g| *g == "G").count() > 1 {
            return Outcome::fail(ctx(format!("the other action ran more than once: {got:?}")));
        }
        if got.iter().any(|g| g == "G") {
            good_ran += 1;
        }
        scripts.push_str(&script);
        scripts.push_str("---\n");
    }
    if good_ran == 2 {
        return Outcome::fail(format!(
            "the other signal's action ran in both assignments of the erroneous action: in one of them it was handled after the syntax error, i.e. after the point where the shell is aborted\nsched {:?}\nscripts:\n{scripts}",
            c.sched
        ));
    }
    Outcome::pass(true).class(if good_ran == 1 { "other-action-before-the-abort-in-one-assignment" } else { "other-action-never-ran" })
}

pub static ACTERR: Driver<ActErrCase> = Driver::new("C11", "action-syntax-error", check_act_err);

fn act_err_cases(seeds: u64, base: u64) -> Vec<ActErrCase> {
    let mut v = vec![];
    for rev in [false, true] {
        for err in 0..6u8 {
            for sameline in [false, true] {
                v.push(ActErrCase { rev, err, sameline, sched: None });
                for k in 0..seeds {
                    v.push(ActErrCase { rev, err, sameline, sched: Some(base.wrapping_mul(2654435761).wrapping_add(k * 104729 + err as u64)) });
                }
            }
        }
    }
    v
}

pub fn run(ctx: &Ctx, st: &mut Stats) {
    // (f) syntax error in one of two pending actions
    ACTERR.run_list_par(ctx, st, act_err_cases(ctx.tier.pick(3, 40), ctx.seed));
    // (e) several conditions in one trap command
    TRAPOPS.run_random(ctx, st, ctx.tier.pick(8_000, 300_000), || {
        prop::collection::vec((0u8..4, prop::bool::weighted(0.3), prop::collection::vec(0u8..9, 1..5)), 1..4).prop_map(|cmds| TrapOpsCase { cmds })
    });
    // (d) re-entrance
    REENTER.run_list_par(ctx, st, reenter_cases(ctx.tier.pick(4, 60), ctx.seed));
    // (a) exhaustive histories
    let alpha = op_alphabet();
    let n = alpha.len() as u64;
    let depth = 5u32;
    let per_cfg: u64 = (1..=depth).map(|d| n.pow(d)).sum();
    let total = per_cfg * IGNORED_CONFIGS.len() as u64 * 2;
    let stride: u64 = ctx.tier.pick(29, 1);
    let off = ctx.seed % stride;
    let alpha_r = &alpha;
    let decode = move |i: u64| -> Option<HistCase> {
        let i = i * stride + off;
        if i >= total {
            return None;
        }
        let cfg = IGNORED_CONFIGS[(i % 3) as usize];
        let interactive = (i / 3) % 2 == 1;
        let mut k = i / 6;
        let mut len = 1;
        loop {
            let c = n.pow(len);
            if k < c {
                break;
            }
            k -= c;
            len += 1;
        }
        let mut ops = vec![];
        for _ in 0..len {
            ops.push(alpha_r[(k % n) as usize]);
            k /= n;
        }
        Some(HistCase { interactive, ignored: cfg, ops })
    };
    HIST.run_exhaustive(ctx, st, total.div_ceil(stride), &decode);
    if stride != 1 {
        st.exhaustive_drivers.retain(|d| d != "history");
    }
    st.extra.insert("history_space".into(), serde_json::json!({"alphabet": n, "depth": depth, "configs": 3, "histories": total, "stride": stride}));
    let cases = ctx.tier.pick(300_000, 15_000_000);
    HIST.run_random(ctx, st, cases, || {
        (any::<bool>(), prop::sample::select(vec![0u16, 0b1000101, 0b0010010, 0b0001001, 0b1111111]), prop::collection::vec(arb_op(), 1..14))
            .prop_map(|(interactive, ignored, ops)| HistCase { interactive, ignored, ops })
    });
    // (b) deliveries
    let cases = ctx.tier.pick(120_000, 2_000_000);
    DELIVER.run_random(ctx, st, cases, || {
        (
            prop::collection::vec(arb_step(), 2..7),
            prop::option::weighted(0.7, 0u32..24),
            prop::option::weighted(0.5, any::<u64>()),
            prop::option::weighted(0.35, prop::collection::vec(1u16..24, 0..4)),
        )
            .prop_map(|(steps, raise_at, sched, interactive_pipe)| DeliverCase { steps, raise_at, sched, interactive_pipe })
    });
    // (c) chains
    let cases = ctx.tier.pick(90_000, 1_500_000);
    CHAIN.run_random(ctx, st, cases, || {
        (
            prop::collection::vec(arb_cstep(), 1..7),
            prop::sample::select(vec![TAct::Plain, TAct::SendUsr2, TAct::Return, TAct::SendUsr2Sub, TAct::SendUsr2Retrap]),
            prop::bool::weighted(0.3),
            prop::option::weighted(0.5, any::<u64>()),
            prop::bool::weighted(0.4),
        )
            .prop_map(|(steps, t_action, last_kill, sched, sameline)| ChainCase { steps, t_action, last_kill, sched, sameline })
    });
}

pub fn replay(driver: &str, case: &serde_json::Value) -> Result<(Outcome, Option<&'static str>), String> {
    match driver {
        "history" => HIST.replay_known(case),
        "delivery" => DELIVER.replay_known(case),
        "chain" => CHAIN.replay_known(case),
        "reenter" => REENTER.replay_known(case),
        "trap-operands" => TRAPOPS.replay_known(case),
        "action-syntax-error" => ACTERR.replay_known(case),
        _ => Err(format!("unknown driver {driver}")),
    }
}
