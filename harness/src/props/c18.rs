//! C18 — input is consumed line by line, no further than the running command needs.

use crate::engine::*;
use crate::model::interp::Sym;
use crate::vsys::{self, Chooser, FileSpec};
use proptest::prelude::*;
use serde::{Deserialize, Serialize};

pub const INFO: PropInfo = PropInfo {
    id: "C18",
    level: "exploration",
    rule: "cases = scripts of 3-10 items mixing plain probes, alias definitions used on later lines / on the same line, unalias, `read` consuming the following line(s) as data, multi-line compound commands, here-documents, function definitions, line continuations, eval of multi-line text, a sourced multi-line file, `pos` probes, comments/blank lines, a command followed by `;` and an alias that expands to a comment or to nothing, `read` of a line ending in an invalid UTF-8 sequence, comments holding arbitrary bytes (valid multi-byte characters, stray lead/continuation bytes, truncated sequences just before the newline), and optionally a syntax error planted at a generated item; feeding mode in {-c string, script file, stdin = regular file, stdin = pipe written by a helper process in generated chunk sizes under a generated schedule}. Oracle: reference line-at-a-time interpreter => exact probe trace (ids, $?, values set by read), here-document data, final status class; identical across feeding modes and chunkings; data lines taken by `read` are not executed and the line after them is; with a syntax error every earlier command has run, none after, status non-zero; for seekable stdin the offset of fd 0 observed by `pos` equals the end of the line containing it; fd 0 is in blocking mode whenever a command runs, also when the pipe was inherited with O_NONBLOCK. Non-trivial = the script has a read followed by data, or an alias defined and used on consecutive lines, or a syntax error with >=1 command before it, or runs under pipe mode with >1 chunk; distinct by serialised case.",
    assumptions: &[
        "a syntax error is planted only on a line of its own (POSIX parses whole lines; what runs from the same line is unspecified)",
        "alias definitions appear only at top level (inside a compound command they cannot affect that command, which is already parsed)",
    ],
};

#[derive(Clone, Debug, PartialEq, Eq, Hash, Serialize, Deserialize)]
pub enum Item {
    Mark,
    /// `alias zK='mark N'`
    AliasDef(u8),
    /// `zK` (alias or not found)
    AliasUse(u8),
    /// `alias zK='mark N'; zK` on one line: the use is not yet an alias
    AliasSameLine(u8),
    Unalias(u8),
    /// `read [-r] rA [rB]` followed by the data line (stdin modes only)
    Read { two: bool, raw: bool, data: String },
    /// multi-line if
    If(bool),
    /// multi-line brace group containing two marks
    Group,
    /// `sink hK <<EOF` + lines
    HereDoc(Vec<String>),
    /// `sink hK <<EOF; pos P` (then = 0) or `sink hK <<EOF; read rA` + a data line after the
    /// delimiter (then = 1; stdin modes): when the second command runs, the input has been read up
    /// to and including the delimiter line, and no further
    HereDocThen { lines: Vec<String>, then: u8 },
    /// the `portable` option decides how the following lines are parsed (a function name with a
    /// hyphen is a syntax error while it is on): 0 `set -o portable`, 1 `set +o portable`,
    /// 2 `fn-h() { mark N; }` + `fn-h`, 3 an alias whose two-line value turns the option on and
    /// then defines `fn-h` (the second line is parsed under the new setting: syntax error),
    /// 4 an alias whose value turns it off, defines and calls `fn-h`
    Portable(u8),
    /// `exec <inc3`: when the commands come from standard input, the shell goes on reading them
    /// from the new standard input (two marks, then end of input); otherwise only the commands'
    /// standard input changes and the script continues
    ExecStdin,
    /// multi-line function definition, then a call
    Func,
    /// `mark \` + newline + `N`
    Continuation,
    /// eval 'mark A<newline>mark B'
    Eval,
    /// `. ./inc` where inc has two lines
    Source,
    Comment,
    Blank,
    Pos,
    /// for loop over two words on three lines
    For,
    /// `st N`
    St(u8),
    /// a comment holding arbitrary bytes (valid multi-byte characters, stray lead or continuation
    /// bytes, truncated sequences), on a line of its own or after a `mark`, `pos` or `read`; the bytes are fed
    /// verbatim in the file and stdin modes and as `?` in the `-c` string
    /// attach: 0 = line of its own, 1 = after `mark N`, 2 = after `pos TAG`, 3 = after `read rA`
    /// (stdin modes; followed by a data line)
    RawComment { bytes: Vec<u8>, attach: u8 },
    /// a command, `;`, then an alias that expands to a comment (`zc` = `#`) or to nothing (`ze`):
    /// 0 `pos P; zc words`, 1 `pos P; ze`, 2 `read rA; zc words` + data line (stdin modes),
    /// 3 `mark N; zc mark 9999`
    SemiAlias(u8),
    /// `read rC` whose data line ends in an invalid / truncated UTF-8 sequence (stdin modes): the
    /// built-in fails, and must not have consumed anything beyond that line
    ReadBad(u8),
}

/// Raw byte b >= 0x80 is carried through the script text as the private-use character U+E000+b.
fn raw_char(b: u8) -> char {
    if b < 0x80 { b as char } else { char::from_u32(0xE000 + b as u32).unwrap() }
}

/// The bytes actually fed to the shell for `text`.
fn fed_bytes(text: &str, raw: bool) -> Vec<u8> {
    let mut out = Vec::with_capacity(text.len());
    for ch in text.chars() {
        let u = ch as u32;
        if (0xE080..=0xE0FF).contains(&u) {
            out.push(if raw { (u - 0xE000) as u8 } else { b'?' });
        } else {
            let mut buf = [0u8; 4];
            out.extend_from_slice(ch.encode_utf8(&mut buf).as_bytes());
        }
    }
    out
}

#[derive(Clone, Copy, Debug, PartialEq, Eq, Hash, Serialize, Deserialize)]
pub enum SynErr {
    Fi,
    CloseParen,
    DoubleBar,
    UnclosedQuoteAtEof,
    UnclosedBraceAtEof,
    IfThenNoCond,
}

#[derive(Clone, Copy, Debug, PartialEq, Eq, Hash, Serialize, Deserialize)]
pub enum Mode {
    CString,
    File,
    StdinFile,
    StdinPipe,
    /// the script is a file operand naming a FIFO that a writer fills in chunks
    FileFifo,
}

#[derive(Clone, Debug, PartialEq, Eq, Hash, Serialize, Deserialize)]
pub struct InputCase {
    pub items: Vec<Item>,
    /// (position in items, kind): a syntax error inserted before that item
    pub error: Option<(u8, SynErr)>,
    /// chunk sizes for pipe mode (cycled)
    pub chunks: Vec<u16>,
    pub sched: Option<u64>,
    /// pipe mode: the shell inherits the read end with O_NONBLOCK set (POSIX sh: a FIFO or
    /// terminal on standard input is put into blocking mode, since commands sharing that input
    /// would otherwise see EAGAIN instead of the data that follows)
    #[serde(default)]
    pub nonblock: bool,
}

struct Built {
    text: String,
    /// expected main trace: (args prefix to compare, status)
    trace: Vec<(Vec<String>, Sym)>,
    sinks: Vec<(String, String)>,
    status: Sym,
    has_read: bool,
    alias_consecutive: bool,
    error_with_prior: bool,
    classes: Vec<&'static str>,
}

/// Builds the script text and, in the same pass, the reference line-at-a-time interpretation.
fn build(c: &InputCase, stdin_mode: bool) -> Built {
    let mut text = String::new();
    let mut trace: Vec<(Vec<String>, Sym)> = vec![];
    let mut sinks = vec![];
    let mut status = Sym::Known(0);
    let mut next_mark = 1u32;
    let mut aliases: [Option<u32>; 3] = [None; 3];
    let mut func_defined = false;
    let mut has_read = false;
    let mut alias_consecutive = false;
    let mut last_was_aliasdef: Option<u8> = None;
    let mut classes = vec![];
    let mut aborted = false;
    let mut error_with_prior = false;
    let mut vars: std::collections::BTreeMap<String, String> = Default::default();
    let mut nsink = 0;
    let mut portable = false;
    let err_pos = c.error.map(|(p, k)| (p as usize % (c.items.len() + 1), k));
    let uses_semi_alias = c.items.iter().any(|i| matches!(i, Item::SemiAlias(_)));
    if uses_semi_alias {
        text.push_str("alias zc='#' ze=''\n");
    }
    let mut mark = |trace: &mut Vec<(Vec<String>, Sym)>, status: &mut Sym, next_mark: &mut u32, extra: Vec<String>| -> u32 {
        let id = *next_mark;
        *next_mark += 1;
        let mut a = vec![id.to_string()];
        a.extend(extra);
        trace.push((a, *status));
        *status = Sym::Known(0);
        id
    };
    for (i, item) in c.items.iter().enumerate() {
        if let Some((p, k)) = err_pos {
            if p == i && !aborted {
                text.push_str(match k {
                    SynErr::Fi => "fi\n",
                    SynErr::CloseParen => ")\n",
                    SynErr::DoubleBar => "mark 9000 | | mark 9001\n",
                    SynErr::IfThenNoCond => "if then mark 9002; fi\n",
                    // the two "at EOF" kinds are emitted at the very end instead
                    SynErr::UnclosedQuoteAtEof | SynErr::UnclosedBraceAtEof => "",
                });
                if !matches!(k, SynErr::UnclosedQuoteAtEof | SynErr::UnclosedBraceAtEof) {
                    aborted = true;
                    status = Sym::NonZero;
                    error_with_prior = !trace.is_empty();
                    classes.push("syntax-error-mid-script");
                }
            }
        }
        // after the abort point text is still emitted (it must not run), but the model stops
        let live = !aborted;
        let consecutive_def = last_was_aliasdef.take();
        match item {
            Item::Mark => {
                // show the variables set by read
                let id = next_mark;
                text.push_str(&format!("mark {id} \"$rA\" \"$rB\"\n"));
                if live {
                    let extra = vec![vars.get("rA").cloned().unwrap_or_default(), vars.get("rB").cloned().unwrap_or_default()];
                    mark(&mut trace, &mut status, &mut next_mark, extra);
                } else {
                    next_mark += 1;
                }
            }
            Item::St(n) => {
                text.push_str(&format!("st {n}\n"));
                if live {
                    status = Sym::Known(*n as i32);
                }
            }
            Item::AliasDef(k) => {
                let k = *k % 3;
                let id = next_mark;
                next_mark += 1;
                text.push_str(&format!("alias z{k}='mark {id}'\n"));
                if live {
                    aliases[k as usize] = Some(id);
                    status = Sym::Known(0);
                    last_was_aliasdef = Some(k);
                }
            }
            Item::AliasUse(k) => {
                let k = *k % 3;
                text.push_str(&format!("z{k}\n"));
                if live {
                    match aliases[k as usize] {
                        Some(id) => {
                            trace.push((vec![id.to_string()], status));
                            status = Sym::Known(0);
                            if consecutive_def == Some(k) {
                                alias_consecutive = true;
                                classes.push("alias-used-on-next-line");
                            }
                        }
                        None => status = Sym::Known(127),
                    }
                }
            }
            Item::AliasSameLine(k) => {
                let k = *k % 3;
                let id = next_mark;
                next_mark += 1;
                text.push_str(&format!("alias z{k}='mark {id}'; z{k}\n"));
                if live {
                    // the whole line was parsed before the alias existed: the old meaning applies
                    match aliases[k as usize] {
                        Some(old) => {
                            trace.push((vec![old.to_string()], Sym::Known(0)));
                            status = Sym::Known(0);
                        }
                        None => status = Sym::Known(127),
                    }
                    aliases[k as usize] = Some(id);
                    classes.push("alias-same-line");
                }
            }
            Item::Unalias(k) => {
                let k = *k % 3;
                text.push_str(&format!("unalias z{k}\n"));
                if live {
                    status = if aliases[k as usize].take().is_some() { Sym::Known(0) } else { Sym::NonZero };
                }
            }
            Item::Read { two, raw, data } => {
                if !stdin_mode {
                    // without a shared stdin the item degenerates to a plain probe
                    let id = next_mark;
                    text.push_str(&format!("mark {id}\n"));
                    if live {
                        mark(&mut trace, &mut status, &mut next_mark, vec![]);
                    } else {
                        next_mark += 1;
                    }
                    continue;
                }
                let names = if *two { "rA rB" } else { "rA" };
                text.push_str(&format!("read {}{names}\n{data}\n", if *raw { "-r " } else { "" }));
                if live {
                    has_read = true;
                    classes.push("read-consumes-next-line");
                    match crate::model::expand::read_split(data, *raw, if *two { 2 } else { 1 }, &None) {
                        crate::model::expand::ReadExpect::Values(v) => {
                            vars.insert("rA".into(), v[0].clone());
                            if *two {
                                vars.insert("rB".into(), v[1].clone());
                            }
                        }
                        crate::model::expand::ReadExpect::Unspecified(_) => {
                            // generator avoids these (no backslashes / odd delimiters in data)
                            vars.insert("rA".into(), data.clone());
                        }
                    }
                    status = Sym::Known(0);
                }
            }
            Item::If(ok) => {
                let (a, b) = (next_mark, next_mark + 1);
                next_mark += 2;
                text.push_str(&format!("if st {}\nthen\n  mark {a}\nelse\n  mark {b}\nfi\n", if *ok { 0 } else { 1 }));
                if live {
                    let st_in = Sym::Known(if *ok { 0 } else { 1 });
                    trace.push((vec![(if *ok { a } else { b }).to_string()], st_in));
                    status = Sym::Known(0);
                }
            }
            Item::Group => {
                let (a, b) = (next_mark, next_mark + 1);
                next_mark += 2;
                text.push_str(&format!("{{\n  mark {a}\n  mark {b}\n}}\n"));
                if live {
                    trace.push((vec![a.to_string()], status));
                    trace.push((vec![b.to_string()], Sym::Known(0)));
                    status = Sym::Known(0);
                }
            }
            Item::For => {
                let a = next_mark;
                next_mark += 1;
                text.push_str(&format!("for w in p q\ndo\n  mark {a} $w\ndone\n"));
                if live {
                    trace.push((vec![a.to_string(), "p".into()], status));
                    trace.push((vec![a.to_string(), "q".into()], Sym::Known(0)));
                    status = Sym::Known(0);
                }
            }
            Item::HereDoc(lines) => {
                nsink += 1;
                let tag = format!("h{nsink}");
                let body: String = lines.iter().map(|l| format!("{l}\n")).collect();
                text.push_str(&format!("sink {tag} <<EOF\n{body}EOF\n"));
                if live {
                    sinks.push((tag, body));
                    status = Sym::Known(0);
                    classes.push("here-document");
                }
            }
            Item::HereDocThen { lines, then } => {
                nsink += 1;
                let tag = format!("h{nsink}");
                let body: String = lines.iter().map(|l| format!("{l}\n")).collect();
                let reads = *then % 2 == 1 && stdin_mode;
                if reads {
                    text.push_str(&format!("sink {tag} <<EOF; read rA\n{body}EOF\nafter {tag}\n"));
                } else {
                    text.push_str(&format!("sink {tag} <<EOF; pos q{i}\n{body}EOF\n"));
                }
                if live {
                    sinks.push((tag.clone(), body));
                    classes.push("here-document-then-reader-on-the-same-line");
                    if reads {
                        has_read = true;
                        vars.insert("rA".into(), format!("after {tag}"));
                        status = Sym::Known(0);
                    } else {
                        let off = if stdin_mode { fed_bytes(&text, true).len().to_string() } else { "*".to_string() };
                        trace.push((vec!["pos".into(), off, format!("q{i}"), "nb=0".into()], Sym::Known(0)));
                        status = Sym::Known(0);
                    }
                }
            }
            Item::Portable(k) => {
                let a = next_mark;
                match *k % 5 {
                    0 | 1 => {
                        text.push_str(if *k % 5 == 0 { "set -o portable\n" } else { "set +o portable\n" });
                        if live {
                            portable = *k % 5 == 0;
                            status = Sym::Known(0);
                            classes.push("option-change-governs-later-lines");
                        }
                    }
                    2 => {
                        next_mark += 1;
                        text.push_str(&format!("fn-h() {{ mark {a}; }}\nfn-h\n"));
                        if live {
                            if portable {
                                aborted = true;
                                status = Sym::NonZero;
                                error_with_prior = !trace.is_empty();
                                classes.push("syntax-error-because-of-an-option-set-earlier");
                            } else {
                                trace.push((vec![a.to_string()], Sym::Known(0)));
                                status = Sym::Known(0);
                            }
                        }
                    }
                    3 => {
                        next_mark += 1;
                        text.push_str(&format!("alias zp='set -o portable\nfn-h() {{ mark {a}; }}'\nzp\n"));
                        if live {
                            portable = true;
                            aborted = true;
                            status = Sym::NonZero;
                            error_with_prior = !trace.is_empty();
                            classes.push("option-changed-by-the-first-line-of-an-alias-value");
                        }
                    }
                    _ => {
                        next_mark += 1;
                        text.push_str(&format!("alias zq='set +o portable\nfn-h() {{ mark {a}; }}\nfn-h'\nzq\n"));
                        if live {
                            portable = false;
                            trace.push((vec![a.to_string()], Sym::Known(0)));
                            status = Sym::Known(0);
                            classes.push("option-changed-by-the-first-line-of-an-alias-value");
                        }
                    }
                }
            }
            Item::ExecStdin => {
                text.push_str("exec <inc3\n");
                if live {
                    status = Sym::Known(0);
                    if stdin_mode {
                        trace.push((vec!["7101".into()], Sym::Known(0)));
                        trace.push((vec!["7102".into()], Sym::Known(0)));
                        // nothing of the old input is read any more
                        aborted = true;
                        classes.push("commands-continue-from-the-new-standard-input");
                    }
                }
            }
            Item::Func => {
                let a = next_mark;
                next_mark += 1;
                text.push_str(&format!("fn1()\n{{\n  mark {a}\n}}\nfn1\n"));
                if live {
                    func_defined = true;
                    trace.push((vec![a.to_string()], Sym::Known(0)));
                    status = Sym::Known(0);
                }
            }
            Item::Continuation => {
                let a = next_mark;
                next_mark += 1;
                text.push_str(&format!("mark \\\n{a}\n"));
                if live {
                    trace.push((vec![a.to_string()], status));
                    status = Sym::Known(0);
                }
            }
            Item::Eval => {
                let (a, b) = (next_mark, next_mark + 1);
                next_mark += 2;
                text.push_str(&format!("eval 'mark {a}\nmark {b}'\n"));
                if live {
                    trace.push((vec![a.to_string()], status));
                    trace.push((vec![b.to_string()], Sym::Known(0)));
                    status = Sym::Known(0);
                }
            }
            Item::Source => {
                text.push_str(". ./inc\n");
                if live {
                    trace.push((vec!["7001".into()], status));
                    trace.push((vec!["7002".into()], Sym::Known(0)));
                    status = Sym::Known(0);
                }
            }
            Item::Comment => text.push_str("# just a comment; mark 8000\n"),
            Item::RawComment { bytes, attach } => {
                let tail: String = bytes.iter().filter(|b| !matches!(**b, b'\n' | 0 | b'\\' | b'\r')).map(|b| raw_char(*b)).collect();
                let attach = if !stdin_mode && *attach % 4 == 3 { 1 } else { *attach % 4 };
                match attach {
                    1 => {
                        let id = next_mark;
                        text.push_str(&format!("mark {id} # {tail}\n"));
                        if live {
                            mark(&mut trace, &mut status, &mut next_mark, vec![]);
                        } else {
                            next_mark += 1;
                        }
                    }
                    2 => {
                        let tag = format!("p{i}");
                        text.push_str(&format!("pos {tag} # {tail}\n"));
                        if live {
                            let off = if stdin_mode { fed_bytes(&text, true).len().to_string() } else { "*".to_string() };
                            trace.push((vec!["pos".into(), off, tag, "nb=0".into()], status));
                        }
                    }
                    3 => {
                        text.push_str(&format!("read rA # {tail}\ndata{i}\n"));
                        if live {
                            has_read = true;
                            classes.push("read-consumes-next-line");
                            vars.insert("rA".into(), format!("data{i}"));
                            status = Sym::Known(0);
                        }
                    }
                    _ => text.push_str(&format!("# {tail}\n")),
                }
                if live && bytes.iter().any(|b| *b >= 0x80) {
                    classes.push("non-ascii-bytes-in-comment");
                }
            }
            Item::SemiAlias(kind) => {
                let kind = if !stdin_mode && *kind % 4 == 2 { 3 } else { *kind % 4 };
                match kind {
                    0 | 1 => {
                        let tag = format!("p{i}");
                        text.push_str(&format!("pos {tag}; {}\n", if kind == 0 { "zc some words" } else { "ze" }));
                        if live {
                            let off = if stdin_mode { fed_bytes(&text, true).len().to_string() } else { "*".to_string() };
                            trace.push((vec!["pos".into(), off, tag, "nb=0".into()], status));
                        }
                    }
                    2 => {
                        text.push_str(&format!("read rA; zc note\nsemi{i}\n"));
                        if live {
                            has_read = true;
                            classes.push("read-consumes-next-line");
                            vars.insert("rA".into(), format!("semi{i}"));
                            status = Sym::Known(0);
                        }
                    }
                    _ => {
                        let id = next_mark;
                        text.push_str(&format!("mark {id}; zc mark 9999\n"));
                        if live {
                            mark(&mut trace, &mut status, &mut next_mark, vec![]);
                        } else {
                            next_mark += 1;
                        }
                    }
                }
                if live {
                    classes.push("alias-to-comment-after-semicolon");
                }
            }
            Item::ReadBad(k) => {
                if !stdin_mode {
                    let id = next_mark;
                    text.push_str(&format!("mark {id}\n"));
                    if live {
                        mark(&mut trace, &mut status, &mut next_mark, vec![]);
                    } else {
                        next_mark += 1;
                    }
                    continue;
                }
                let tail: &[u8] = [&[0xE9u8][..], &[0xF0, 0x9F], &[0xC3], &[0xE2, 0x82], &[0xF0, 0x9F, 0x98]][*k as usize % 5];
                let tail: String = tail.iter().map(|b| raw_char(*b)).collect();
                text.push_str(&format!("read rC\ncaf{tail}\n"));
                if live {
                    has_read = true;
                    classes.push("read-of-invalid-utf8-line");
                    status = Sym::NonZero;
                }
            }
            Item::Blank => text.push_str("\n"),
            Item::Pos => {
                let tag = format!("p{i}");
                text.push_str(&format!("pos {tag}\n"));
                if live {
                    let off = if stdin_mode { fed_bytes(&text, true).len().to_string() } else { "*".to_string() };
                    trace.push((vec!["pos".into(), off, tag, "nb=0".into()], status));
                    // pos leaves $? alone
                }
            }
        }
    }
    let _ = func_defined;
    if let Some((_, k)) = err_pos {
        if !aborted {
            match k {
                SynErr::UnclosedQuoteAtEof => {
                    text.push_str("mark 9100 'unterminated\n");
                    status = Sym::NonZero;
                    error_with_prior = !trace.is_empty();
                    classes.push("syntax-error-at-eof");
                }
                SynErr::UnclosedBraceAtEof => {
                    text.push_str("{ mark 9101\n");
                    status = Sym::NonZero;
                    error_with_prior = !trace.is_empty();
                    classes.push("syntax-error-at-eof");
                }
                _ => {
                    // position == items.len(): error line at the very end
                    text.push_str(match k {
                        SynErr::Fi => "fi\n",
                        SynErr::CloseParen => ")\n",
                        SynErr::DoubleBar => "mark 9000 | | mark 9001\n",
                        _ => "if then mark 9002; fi\n",
                    });
                    status = Sym::NonZero;
                    error_with_prior = !trace.is_empty();
                    classes.push("syntax-error-mid-script");
                }
            }
        }
    }
    Built { text, trace, sinks, status, has_read, alias_consecutive, error_with_prior, classes }
}

fn run_mode(c: &InputCase, mode: Mode, b: &Built) -> Result<(), String> {
    let mut s = match mode {
        Mode::CString => vsys::Setup::script(&String::from_utf8(fed_bytes(&b.text, false)).unwrap()),
        Mode::File => {
            let mut s = vsys::Setup::script("");
            s.argv = vec!["yash".into(), "/work/script.sh".into()];
            s.files.push(("script.sh".into(), FileSpec::Bytes { content: fed_bytes(&b.text, true), mode: 0o644 }));
            s
        }
        Mode::StdinFile => {
            let mut s = vsys::Setup::script("");
            s.argv = vec!["yash".into(), "-s".into()];
            s.stdin = Some(fed_bytes(&b.text, true));
            s
        }
        Mode::StdinPipe | Mode::FileFifo => {
            let mut s = vsys::Setup::script("");
            s.argv = vec!["yash".into()];
            let fed = fed_bytes(&b.text, true);
            let bytes = fed.as_slice();
            let mut chunks = vec![];
            let mut i = 0;
            let mut k = 0;
            while i < bytes.len() {
                let want = if c.chunks.is_empty() { bytes.len() } else { (c.chunks[k % c.chunks.len()] as usize).max(1) };
                let end = (i + want).min(bytes.len());
                chunks.push(bytes[i..end].to_vec());
                i = end;
                k += 1;
            }
            if mode == Mode::FileFifo {
                s.argv = vec!["yash".into(), "/work/script.fifo".into()];
                s.files.push(("script.fifo".into(), FileSpec::Fifo { mode: 0o644 }));
                s.fifo_feed = Some(("/work/script.fifo".into(), chunks));
            } else {
                s.stdin_pipe = Some(chunks);
                s.stdin_nonblock = c.nonblock;
            }
            if let Some(seed) = c.sched {
                s.chooser = Chooser::Seeded(seed);
                s.preempt = true;
            }
            s
        }
    };
    s.files.push(("inc".into(), FileSpec::Regular { content: "mark 7001\nmark 7002\n".into(), mode: 0o644, exec: false }));
    s.files.push(("inc3".into(), FileSpec::Regular { content: "mark 7101\nmark 7102\n".into(), mode: 0o644, exec: false }));
    let r = vsys::run(&s);
    let ctx = |m: String| format!("{m} [mode {mode:?} chunks {:?} sched {:?}]\nscript:\n{}stderr: {:?}", c.chunks, c.sched, b.text, r.stderr);
    if let Some(p) = &r.panic {
        return Err(ctx(format!("panic: {p}")));
    }
    if r.log.deadlock || !r.finished {
        return Err(ctx(format!("shell did not finish (deadlock={})", r.log.deadlock)));
    }
    let got = r.main_trace();
    let show = |t: &[(Vec<String>, Sym)]| t.iter().map(|(a, s)| format!("{a:?}@{s:?}")).collect::<Vec<_>>().join(" ");
    let gshow = got.iter().map(|t| format!("{:?}@{}", t.args, t.status)).collect::<Vec<_>>().join(" ");
    if got.len() != b.trace.len() {
        return Err(ctx(format!("trace length differs: expected [{}], got [{gshow}]", show(&b.trace))));
    }
    for (e, g) in b.trace.iter().zip(&got) {
        let mut want = e.0.clone();
        if mode == Mode::StdinPipe && want.first().map(|s| s.as_str()) == Some("pos") {
            want[1] = "-1".into(); // a pipe is not seekable
        }
        let args_ok = want.len() <= g.args.len() && want.iter().zip(&g.args).all(|(x, y)| x == "*" || x == y);
        if !args_ok || !e.1.matches(g.status) {
            return Err(ctx(format!("trace differs at {:?}@{:?} vs {:?}@{}: expected [{}], got [{gshow}]", e.0, e.1, g.args, g.status, show(&b.trace))));
        }
    }
    for (tag, body) in &b.sinks {
        match r.sinks.iter().find(|s| &s.tag == tag) {
            Some(s) if s.data == body.as_bytes() => {}
            Some(s) => return Err(ctx(format!("here-document {tag}: got {:?}, expected {:?}", String::from_utf8_lossy(&s.data), body))),
            None => return Err(ctx(format!("here-document {tag} never delivered"))),
        }
    }
    if !b.status.matches(r.status) {
        return Err(ctx(format!("final status {}, expected {:?}", r.status, b.status)));
    }
    Ok(())
}

fn check_input(c: &InputCase) -> Outcome {
    let has_read_item = c.items.iter().any(|i| matches!(i, Item::Read { .. }));
    // string/file modes: the read-free rendering; stdin modes: reads consume script lines
    let plain = build(c, false);
    let stdin = build(c, true);
    for (mode, b) in [(Mode::CString, &plain), (Mode::File, &plain), (Mode::StdinFile, &stdin), (Mode::StdinPipe, &stdin), (Mode::FileFifo, &plain)] {
        if let Err(e) = run_mode(c, mode, b) {
            return Outcome::fail(e);
        }
    }
    let nontrivial = stdin.has_read || stdin.alias_consecutive || stdin.error_with_prior || c.chunks.len() > 1;
    let mut out = Outcome::pass(nontrivial);
    for cl in &stdin.classes {
        out = out.class(cl);
    }
    out.class_if(has_read_item, "has-read").class_if(c.sched.is_some(), "pipe-with-seeded-schedule").class_if(c.chunks.iter().any(|c| *c == 1), "one-byte-chunks").class_if(c.nonblock, "pipe-inherited-non-blocking")
}

pub static INPUT: Driver<InputCase> = Driver::new("C18", "input", check_input);

fn arb_item() -> impl Strategy<Value = Item> {
    let data = prop::collection::vec(prop::sample::select(vec!['a', 'b', ' ', 'm', 'k', '1', ';', '#', '\u{e9}', '\u{20ac}']), 0..8)
        .prop_map(|v| v.into_iter().collect::<String>());
    prop_oneof![
        6 => Just(Item::Mark),
        2 => (0u8..3).prop_map(Item::St),
        3 => (0u8..3).prop_map(Item::AliasDef),
        4 => (0u8..3).prop_map(Item::AliasUse),
        1 => (0u8..3).prop_map(Item::AliasSameLine),
        1 => (0u8..3).prop_map(Item::Unalias),
        5 => (any::<bool>(), any::<bool>(), prop_oneof![data.clone(), Just("mark 9500".to_string()), Just("exit 7".to_string())])
            .prop_map(|(two, raw, data)| Item::Read { two, raw, data }),
        2 => any::<bool>().prop_map(Item::If),
        1 => Just(Item::Group),
        1 => Just(Item::For),
        2 => prop::collection::vec(prop_oneof![Just("mark 9600".to_string()), Just("x y".to_string()), Just("".to_string()), Just("EOF2".to_string())], 0..3).prop_map(Item::HereDoc),
        2 => (prop::collection::vec(prop_oneof![Just("mark 9700".to_string()), Just("x y".to_string()), Just("".to_string())], 0..3), 0u8..2)
            .prop_map(|(lines, then)| Item::HereDocThen { lines, then }),
        3 => (0u8..5).prop_map(Item::Portable),
        1 => Just(Item::ExecStdin),
        1 => Just(Item::Func),
        1 => Just(Item::Continuation),
        1 => Just(Item::Eval),
        1 => Just(Item::Source),
        1 => Just(Item::Comment),
        3 => (prop::collection::vec(prop::sample::select(vec![0xC3u8, 0xA9, 0xE9, 0xF0, 0x9F, 0x98, 0x80, 0xE2, 0x82, 0xAC, 0xFF, 0xC2, b'a', b' ', b'm']), 1..7), 0u8..4)
            .prop_map(|(bytes, attach)| Item::RawComment { bytes, attach }),
        1 => Just(Item::Blank),
        3 => Just(Item::Pos),
        2 => (0u8..4).prop_map(Item::SemiAlias),
        2 => (0u8..5).prop_map(Item::ReadBad),
    ]
}

fn arb_case() -> impl Strategy<Value = InputCase> {
    (
        prop::collection::vec(arb_item(), 2..9),
        prop::option::weighted(
            0.4,
            (any::<u8>(), prop::sample::select(vec![SynErr::Fi, SynErr::CloseParen, SynErr::DoubleBar, SynErr::UnclosedQuoteAtEof, SynErr::UnclosedBraceAtEof, SynErr::IfThenNoCond])),
        ),
        prop_oneof![
            1 => Just(vec![]),
            1 => Just(vec![1u16]),
            3 => prop::collection::vec(1u16..40, 1..5),
        ],
        prop::option::weighted(0.7, any::<u64>()),
        any::<bool>(),
    )
        .prop_map(|(items, error, chunks, sched, nonblock)| InputCase { items, error, chunks, sched, nonblock })
}

// -------------------------------------------------------------------------------------------
// Interactive shells: a line that cannot be parsed (or whose command is aborted by a shell error)
// is given up, the following lines are read and run as usual

#[derive(Clone, Debug, PartialEq, Eq, Hash, Serialize, Deserialize)]
pub enum ILine {
    Mark,
    St(u8),
    /// a line that is a syntax error on its own: 0 `fi`, 1 `)`, 2 `|| mark N`, 3 `if then`, 4 `mark N ;;`,
    /// 5 `mark N )` , 6 `{ mark N; } }`
    Syntax(u8),
    /// `alias iK='mark N'`
    AliasDef(u8),
    /// `iK`
    AliasUse(u8),
    /// expansion error: `mark ${unset_v?}`
    ExpErr,
    /// assignment to the read-only variable `ro`
    AssignErr,
    /// error of a special built-in: 0 `shift 9`, 1 `. ./missing`, 2 `set -o nosuchoption`
    SpecialErr(u8),
    /// a two-line if
    If(bool),
    Blank,
}

#[derive(Clone, Debug, PartialEq, Eq, Hash, Serialize, Deserialize)]
pub struct InterCase {
    pub lines: Vec<ILine>,
    /// unterminated construct at the end of input: 0 `if true; then`, 1 `{ mark N`, 2 `mark 'abc`,
    /// 3 `mark "$(`, 4 `while true; do`
    pub tail: Option<u8>,
    pub chunks: Vec<u16>,
    pub sched: Option<u64>,
}

fn check_inter(c: &InterCase) -> Outcome {
    // reference: line-at-a-time interpreter of an interactive shell (docs/src/termination.md: a
    // command syntax error / shell error sets a non-zero status, the interactive shell ignores the
    // current command and resumes reading input; the shell's exit status at end of input is that
    // of the last command, where a shell error counts with its non-zero status)
    #[derive(Clone, Copy, PartialEq, Debug)]
    enum S {
        Exact(i32),
        NonZero,
    }
    let mut script = String::new();
    let mut ro_defined = false;
    let mut expect: Vec<(String, S)> = vec![];
    let mut status = S::Exact(0);
    let mut next = 100u32;
    let mut aliases: std::collections::BTreeMap<u8, u32> = Default::default();
    let mut errors_before_first_good = 0u32;
    let mut errors = 0u32;
    let mut good_lines = 0u32;
    for l in &c.lines {
        match l {
            ILine::Mark => {
                script.push_str(&format!("mark {next}\n"));
                expect.push((next.to_string(), status));
                next += 1;
                status = S::Exact(0);
                good_lines += 1;
            }
            ILine::St(n) => {
                script.push_str(&format!("st {n}\n"));
                status = S::Exact(*n as i32);
                good_lines += 1;
            }
            ILine::Syntax(k) => {
                let n = next;
                next += 1;
                script.push_str(&match k % 7 {
                    0 => "fi\n".to_string(),
                    1 => ")\n".to_string(),
                    2 => format!("|| mark {n}\n"),
                    3 => "if then\n".to_string(),
                    4 => format!("mark {n} ;;\n"),
                    5 => format!("mark {n} )\n"),
                    _ => format!("{{ mark {n}; }} }}\n"),
                });
                // nothing of the line runs (POSIX leaves open whether the commands before the error on
                // the same line run; these lines have none that could, except forms 4-6 whose mark
                // must not run in a shell that parses whole lines - yash-rs documents line-wise parsing)
                status = S::NonZero;
                errors += 1;
                if good_lines == 0 {
                    errors_before_first_good += 1;
                }
            }
            ILine::AliasDef(k) => {
                let k = k % 3;
                script.push_str(&format!("alias i{k}='mark {next}'\n"));
                aliases.insert(k, next);
                next += 1;
                status = S::Exact(0);
                good_lines += 1;
            }
            ILine::AliasUse(k) => {
                let k = k % 3;
                script.push_str(&format!("i{k}\n"));
                match aliases.get(&k) {
                    Some(n) => {
                        expect.push((n.to_string(), status));
                        status = S::Exact(0);
                    }
                    None => status = S::Exact(127),
                }
                good_lines += 1;
            }
            ILine::ExpErr => {
                script.push_str(&format!("mark {next} ${{unset_v?}}\n"));
                next += 1;
                status = S::NonZero;
                errors += 1;
            }
            ILine::AssignErr => {
                if !ro_defined {
                    // (a good line: defined lazily so that an input may start with error lines)
                    script.push_str("readonly ro=1\n");
                    ro_defined = true;
                    good_lines += 1;
                }
                script.push_str("ro=2\n");
                status = S::NonZero;
                errors += 1;
            }
            ILine::SpecialErr(k) => {
                script.push_str(match k % 3 {
                    0 => "shift 9\n",
                    1 => ". ./missing\n",
                    _ => "set -o nosuchoption\n",
                });
                status = S::NonZero;
                errors += 1;
            }
            ILine::If(b) => {
                script.push_str(&format!("if st {}; then\nmark {next}; fi\n", if *b { 0 } else { 1 }));
                if *b {
                    expect.push((next.to_string(), S::Exact(0)));
                }
                next += 1;
                status = S::Exact(0);
                good_lines += 1;
            }
            ILine::Blank => script.push('\n'),
        }
    }
    if let Some(t) = c.tail {
        let n = next;
        script.push_str(&match t % 5 {
            0 => "if true; then\n".to_string(),
            1 => format!("{{ mark {n}\n"),
            2 => format!("mark 'abc{n}\n"),
            3 => "mark \"$(\n".to_string(),
            _ => "while true; do\n".to_string(),
        });
        status = S::NonZero;
        errors += 1;
        if good_lines == 0 {
            errors_before_first_good += 1;
        }
    }
    let mut s = vsys::Setup::script(&script);
    s.argv = vec!["yash".into(), "-i".into()];
    let bytes = script.as_bytes();
    let mut v = vec![];
    let (mut i, mut k) = (0, 0);
    while i < bytes.len() {
        let want = if c.chunks.is_empty() { bytes.len() } else { (c.chunks[k % c.chunks.len()] as usize).max(1) };
        let end = (i + want).min(bytes.len());
        v.push(bytes[i..end].to_vec());
        i = end;
        k += 1;
    }
    s.stdin_pipe = Some(v);
    if let Some(seed) = c.sched {
        s.chooser = Chooser::Seeded(seed);
        s.preempt = true;
    }
    let r = vsys::run(&s);
    let ctx = |m: String| format!("{m}\nchunks {:?} sched {:?}\ninput of the interactive shell:\n{script}stderr: {:?}", c.chunks, c.sched, r.stderr);
    if let Some(p) = &r.panic {
        return Outcome::fail(ctx(format!("panic: {p}")));
    }
    if !r.finished || r.log.deadlock {
        return Outcome::fail(ctx("the interactive shell did not reach the end of its input".into()));
    }
    let got: Vec<(String, i32)> = r.main_trace().iter().map(|t| (t.args.first().cloned().unwrap_or_default(), t.status)).collect();
    let matches = |g: i32, w: S| match w {
        S::Exact(n) => g == n,
        S::NonZero => g != 0,
    };
    if got.len() != expect.len() || got.iter().zip(&expect).any(|((gi, gs), (wi, ws))| gi != wi || !matches(*gs, *ws)) {
        return Outcome::fail(ctx(format!("commands run (id, $? on entry): {got:?}\nreference: {expect:?}")));
    }
    if !matches(r.status, status) {
        return Outcome::fail(ctx(format!("exit status of the shell {} , reference {status:?} (status of the last line; a line given up for a syntax / shell error counts with its non-zero status)", r.status)));
    }
    Outcome::pass(errors > 0 && !expect.is_empty())
        .class_if(errors_before_first_good > 0, "error-line-before-any-line-parsed")
        .class_if(c.tail.is_some(), "unterminated-construct-at-end-of-input")
        .class_if(errors > 0 && good_lines > 0, "error-lines-among-good-lines")
        .class_if(errors == 0, "no-error-line")
}

pub static INTER: Driver<InterCase> = Driver::new("C18", "interactive", check_inter);

fn arb_inter() -> impl Strategy<Value = InterCase> {
    let line = prop_oneof![
        4 => Just(ILine::Mark),
        2 => (0u8..4).prop_map(ILine::St),
        4 => any::<u8>().prop_map(ILine::Syntax),
        1 => any::<u8>().prop_map(ILine::AliasDef),
        1 => any::<u8>().prop_map(ILine::AliasUse),
        1 => Just(ILine::ExpErr),
        1 => Just(ILine::AssignErr),
        1 => any::<u8>().prop_map(ILine::SpecialErr),
        1 => any::<bool>().prop_map(ILine::If),
        1 => Just(ILine::Blank),
    ];
    (
        prop::collection::vec(line, 0..8),
        prop::option::weighted(0.4, any::<u8>()),
        prop_oneof![1 => Just(vec![]), 1 => Just(vec![1u16]), 3 => prop::collection::vec(1u16..40, 1..5)],
        prop::option::weighted(0.5, any::<u64>()),
    )
        .prop_map(|(lines, tail, chunks, sched)| InterCase { lines, tail, chunks, sched })
}

pub fn run(ctx: &Ctx, st: &mut Stats) {
    let n = ctx.tier.pick(100_000, 1_500_000);
    INPUT.run_random(ctx, st, n, arb_case);
    let n = ctx.tier.pick(6_000, 300_000);
    INTER.run_random(ctx, st, n, arb_inter);
}

pub fn replay(driver: &str, case: &serde_json::Value) -> Result<(Outcome, Option<&'static str>), String> {
    match driver {
        "input" => INPUT.replay_known(case),
        "interactive" => INTER.replay_known(case),
        _ => Err(format!("unknown driver {driver}")),
    }
}
