use crate::engine::*;
use serde_json::Value;

pub mod c01;
pub mod c02;
pub mod c03;
pub mod c03_shell;
pub mod c04;
pub mod c05;
pub mod c07;
pub mod c06;
pub mod c08;
pub mod c09;
pub mod c11;
pub mod c12;
pub mod c12b;
pub mod c13;
pub mod c15;
pub mod c16a;
pub mod c16b;
pub mod c16c;
pub mod c16;
pub mod c17;
pub mod c18;
pub mod c19;
pub mod c20;
pub mod c20a;
pub mod c20b;

pub struct Prop {
    pub info: &'static PropInfo,
    pub run: fn(&Ctx, &mut Stats),
    pub replay: fn(&str, &Value) -> Result<(Outcome, Option<&'static str>), String>,
}

pub fn all() -> Vec<Prop> {
    vec![
        Prop { info: &c01::INFO, run: c01::run, replay: c01::replay },
        Prop { info: &c02::INFO, run: c02::run, replay: c02::replay },
        Prop { info: &c03::INFO, run: c03::run, replay: c03::replay },
        Prop { info: &c04::INFO, run: c04::run, replay: c04::replay },
        Prop { info: &c02::INFO10, run: c02::run10, replay: c02::replay10 },
        Prop { info: &c05::INFO, run: c05::run, replay: c05::replay },
        Prop { info: &c06::INFO, run: c06::run, replay: c06::replay },
        Prop { info: &c07::INFO, run: c07::run, replay: c07::replay },
        Prop { info: &c08::INFO, run: c08::run, replay: c08::replay },
        Prop { info: &c09::INFO, run: c09::run, replay: c09::replay },
        Prop { info: &c11::INFO, run: c11::run, replay: c11::replay },
        Prop { info: &c12::INFO, run: c12::run, replay: c12::replay },
        Prop { info: &c13::INFO, run: c13::run, replay: c13::replay },
        Prop { info: &c13::INFO14, run: c13::run14, replay: c13::replay14 },
        Prop { info: &c15::INFO, run: c15::run, replay: c15::replay },
        Prop { info: &c16::INFO, run: c16::run, replay: c16::replay },
        Prop { info: &c17::INFO, run: c17::run, replay: c17::replay },
        Prop { info: &c18::INFO, run: c18::run, replay: c18::replay },
        Prop { info: &c19::INFO, run: c19::run, replay: c19::replay },
        Prop { info: &c20::INFO, run: c20::run, replay: c20::replay },
    ]
}
