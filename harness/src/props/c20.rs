//! C20 — built-ins accept every equivalent spelling of an invocation, and only those.
//! Combines the API-level half (c20a: generic option parser vs reference parser, shell command
//! line) and the built-in catalogue half (c20b: equivalent spellings of real invocations).

use super::{c20a, c20b};
use crate::engine::*;

pub const INFO: PropInfo = PropInfo {
    id: "C20",
    level: "exploration",
    rule: "two families of cases. (api-*) argument vectors: every vector of <=4 (quick) / <=5 (thorough) tokens from a 23-token alphabet x 9 option specifications x 8 parser modes, plus proptest vectors of <=8 tokens, parsed by yash_builtin::common::syntax and by a reference parser of the POSIX utility syntax guidelines + documented extensions (same option occurrences, arguments, operands, or same error class and location); ~10k combinatorial groups of equivalent spellings of the shell's own command line that must parse to equal results, and malformed ones that must be rejected. (builtin-*) a catalogue of 222 valid invocations of 31 built-ins, each rewritten into all spellings the manual declares equivalent (grouped/separate short options, attached/separate option-argument, with/without --, long name and every unambiguous prefix, --name=arg vs --name arg, bespoke forms of set/kill/typeset/ulimit as their pages state) = 6622 spellings that must give identical stdout, stderr-emptiness, status and post-state snapshot, plus 1599 malformed variants that must be rejected with a diagnostic, non-zero status and unchanged state; proptest random operand values. Non-trivial: a vector with an option-looking token after position 0 or a grouped/abbreviated/attached form; an invocation with >= 2 distinct spellings; distinct by serialised case.",
    assumptions: &[
        "the manual (docs/src/builtins/*.md, README.md) is the source of truth for which spellings are equivalent; long names not listed there are taken from the OptionSpec tables only to compute ambiguity of prefixes",
        "options stop at the first operand in every mode; a complete long name beats a longer name sharing it as a prefix; cases the documentation leaves open are skipped and counted",
    ],
};

pub fn run(ctx: &Ctx, st: &mut Stats) {
    c20a::run(ctx, st);
    c20b::run(ctx, st);
}

pub fn replay(driver: &str, case: &serde_json::Value) -> Result<(Outcome, Option<&'static str>), String> {
    if driver.starts_with("builtin-") { c20b::replay(driver, case) } else { c20a::replay(driver, case) }
}
