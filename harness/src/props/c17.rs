//! C17 — alias substitution terminates and rewrites exactly the eligible words.
//!
//! Differential / metamorphic check. For an alias table T and a command line L the reference model
//! (`model`, below: own tokenizer, own command-position tracker, own splice buffer) performs the
//! POSIX alias substitution *textually* and yields L'. Then
//!
//!   print(parse(L, T))  ==  print(parse(L', no aliases))       (or both are syntax errors)
//!
//! where `parse` is the real parser (the alias-free parser is trusted here; it is judged by C06).
//! For a sample of the cases both `alias …; L` and `L'` are also *executed* by the complete shell on
//! the simulated OS and the probe traces, standard output and exit status are compared.
//! Termination is decided without a timer: the `Glossary` handed to the parser counts look-ups and
//! a count far above anything a terminating run needs is the violation "did not terminate".

use crate::engine::*;
use crate::vsys;
use futures_util::FutureExt as _;
use serde::{Deserialize, Serialize};
use std::cell::Cell;
use std::rc::Rc;
use yash_syntax::alias::{Alias, Glossary};
use yash_syntax::parser::Parser;
use yash_syntax::parser::lex::Lexer;
use yash_syntax::source::Location;

pub const INFO: PropInfo = PropInfo {
    id: "C17",
    level: "exploration",
    rule: "cases = (alias table, command line). Tables: every assignment of {undefined} + 23 value shapes (another name, name+blank, two names, if ! { then, ; | && (, >f, v=1, 'N', \\N, empty, `probe x`, `probe y `, own name, own name + argument, text with an inner / a leading newline, name after newline) to 3 names (quick) / 4 names (thorough), exhaustive; plus tables with global aliases (API level only). Lines: 44 (quick) / 120 (thorough) templates placing the names in command, argument, post-assignment, post-redirection, post-keyword, post-operator, for/case, quoted and line-continuation positions. Oracle: own textual substitution model, then printed parse(L,T) == printed parse(L',{}) or both syntax errors; look-up counter for termination; every substituting case parsed a second time with a glossary that returns a newly allocated equal definition on each look-up (same result required: the recursion rule is by name); driver runtime: an alias whose two-line value re-defines / removes itself or another alias on its first line and uses a name on its second, executed by the complete shell, trace compared with the by-hand reading; ~10% of the substituting cases also executed on the simulated OS (trace, stdout, status compared). Non-trivial = at least one substitution happens in the line AND (the recursion guard stops a further substitution, or a blank-ending chain of length >= 2 is followed, or a reserved word / operator recognised by the parser comes out of replacement text); distinct by (table, line) index.",
    assumptions: &[
        "POSIX.1-2024 XCU 2.3.1: a TOKEN is replaced iff it is an unquoted literal alias name that did not result from substitution of the same alias and could be the command name of a simple command, or follows an alias value ending in a blank (next TOKEN rule); the manual docs/src/language/aliases.md agrees",
        "global aliases are not documented in the manual (section commented out, no `alias -g`); they are checked at parser-API level only, with the rule 'any word token', and never in for/case headers",
        "function definitions `name ( )`, here-documents, comments, expansions, IO numbers, alias values ending in a backslash or with an unterminated quote are not generated; if one arises from substitution the case is skipped and counted",
        "the alias-free parser is trusted (property C06); both sides print with the same printer",
    ],
};

// =============================================================================================
// Reference model: textual alias substitution
// =============================================================================================

pub mod model {
    #[derive(Clone, Debug, PartialEq, Eq, Hash, serde::Serialize, serde::Deserialize)]
    pub struct Def {
        pub name: String,
        pub value: String,
        pub global: bool,
    }

    /// One character of the text being scanned, with its provenance.
    #[derive(Clone, Copy, Debug)]
    struct MC {
        ch: char,
        /// set of aliases (bit = index into the table) whose replacement text, directly or through
        /// nested substitution, this character belongs to
        chain: u32,
        /// non-zero on the last character of a replacement text that ends with a blank; the value is
        /// the length of the blank-ending chain that led here
        mark: u8,
    }

    #[derive(Clone, Debug, Default)]
    pub struct Report {
        pub text: String,
        pub substitutions: u32,
        /// substitutions refused only because of the not-within-its-own-replacement rule
        pub guard_stops: u32,
        /// largest chain length among substitutions triggered by the trailing-blank rule
        pub blank_depth: u8,
        pub keyword_from_alias: bool,
        pub operator_from_alias: bool,
        pub global_substitutions: u32,
        pub empty_value: bool,
        /// a quoted word in an eligible position whose unquoted text names an alias
        pub quoted_blocked: bool,
        /// the scan stopped at a token that is certainly a syntax error
        pub stopped_at_error: bool,
    }

    #[derive(Clone, Copy, Debug, PartialEq, Eq)]
    enum St {
        /// start of a command: reserved words are recognised, a word is the command name
        CmdStart,
        /// after an assignment or redirection, no command name yet: reserved words are ordinary
        /// words, a word is still the command name
        PreCmd,
        Args { one_word: bool },
        RedirTarget(Ret),
        /// after `)`, `}`, `fi`, `done`, `esac`
        PostCompound,
        ForName,
        ForAfterName,
        ForValues,
        ForBody,
        CaseSubject,
        CaseIn,
        CasePat,
        CasePatWord,
        CasePatSep,
    }

    #[derive(Clone, Copy, Debug, PartialEq, Eq)]
    enum Ret {
        PreCmd,
        Args,
        PostCompound,
    }

    #[derive(Debug)]
    enum Kind {
        Eof,
        Op(&'static str),
        Word {
            /// the word's text if it contains no quoting at all
            literal: Option<String>,
            /// the text with quoting removed (for statistics only)
            dequoted: String,
            /// raw prefix before the first unquoted `=` is a non-empty literal
            assignment: bool,
        },
    }

    #[derive(Debug)]
    struct Tok {
        kind: Kind,
        start: usize,
        /// one past the last character that belongs to the token proper
        end: usize,
        /// where scanning continues
        next: usize,
        chain: u32,
    }

    const OPERATORS: [&str; 25] = [
        "\n", ";", ";;", ";&", ";;&", ";|", "&", "&&", "|", "||", "(", ")", "<", "<<", "<<-", "<<<", "<&", "<>",
        "<(", ">", ">>", ">>|", ">&", ">|", ">(",
    ];
    const SUPPORTED: [&str; 12] = ["\n", ";", ";;", "&", "&&", "|", "||", "(", ")", "<", ">", ">>"];

    const KEYWORDS: [&str; 16] =
        ["if", "then", "else", "elif", "fi", "for", "in", "do", "done", "case", "esac", "while", "until", "{", "}", "!"];
    const EXTENSION_KEYWORDS: [&str; 5] = ["[[", "]]", "function", "select", "namespace"];

    fn is_blank(c: char) -> bool {
        c == ' ' || c == '\t'
    }
    fn is_op_char(c: char) -> bool {
        matches!(c, ';' | '&' | '|' | '(' | ')' | '<' | '>' | '\n')
    }

    fn line_cont_at(buf: &[MC], i: usize) -> bool {
        i + 1 < buf.len() && buf[i].ch == '\\' && buf[i + 1].ch == '\n'
    }

    fn next_token(buf: &[MC], mut pos: usize) -> Result<Tok, &'static str> {
        // blanks and line continuations between tokens
        loop {
            if pos < buf.len() && is_blank(buf[pos].ch) {
                pos += 1;
            } else if line_cont_at(buf, pos) {
                pos += 2;
            } else {
                break;
            }
        }
        if pos >= buf.len() {
            return Ok(Tok { kind: Kind::Eof, start: pos, end: pos, next: pos, chain: 0 });
        }
        let start = pos;
        let chain = buf[pos].chain;
        let c = buf[pos].ch;
        if c == '#' {
            return Err("comment");
        }
        if is_op_char(c) {
            let mut op = String::from(c);
            let mut end = pos + 1;
            let mut p = end;
            if c != '\n' {
                loop {
                    while line_cont_at(buf, p) {
                        p += 2;
                    }
                    if p >= buf.len() {
                        break;
                    }
                    let mut longer = op.clone();
                    longer.push(buf[p].ch);
                    if OPERATORS.contains(&longer.as_str()) {
                        op = longer;
                        p += 1;
                        end = p;
                    } else {
                        break;
                    }
                }
            }
            let Some(op) = SUPPORTED.iter().find(|s| **s == op) else {
                return Err("operator outside the modelled set");
            };
            return Ok(Tok { kind: Kind::Op(op), start, end, next: end, chain });
        }
        // a word
        let mut quoted = false;
        let mut text = String::new();
        let mut raw_before_eq: Option<bool> = None; // Some(ok) once the first unquoted '=' was seen
        let mut prefix_clean = true;
        let mut end = pos;
        while pos < buf.len() {
            let c = buf[pos].ch;
            if line_cont_at(buf, pos) {
                pos += 2;
                continue;
            }
            match c {
                '\\' => {
                    if pos + 1 >= buf.len() {
                        return Err("backslash at end of input");
                    }
                    quoted = true;
                    if raw_before_eq.is_none() {
                        prefix_clean = false;
                    }
                    text.push(buf[pos + 1].ch);
                    pos += 2;
                    end = pos;
                }
                '\'' => {
                    quoted = true;
                    if raw_before_eq.is_none() {
                        prefix_clean = false;
                    }
                    pos += 1;
                    loop {
                        if pos >= buf.len() {
                            return Err("unterminated single quote");
                        }
                        if buf[pos].ch == '\'' {
                            break;
                        }
                        text.push(buf[pos].ch);
                        pos += 1;
                    }
                    pos += 1;
                    end = pos;
                }
                '"' => {
                    quoted = true;
                    if raw_before_eq.is_none() {
                        prefix_clean = false;
                    }
                    pos += 1;
                    loop {
                        if pos >= buf.len() {
                            return Err("unterminated double quote");
                        }
                        match buf[pos].ch {
                            '"' => break,
                            '$' | '`' => return Err("expansion"),
                            '\\' => {
                                if pos + 1 >= buf.len() {
                                    return Err("unterminated double quote");
                                }
                                if buf[pos + 1].ch != '\n' {
                                    text.push(buf[pos + 1].ch);
                                }
                                pos += 2;
                            }
                            c => {
                                text.push(c);
                                pos += 1;
                            }
                        }
                    }
                    pos += 1;
                    end = pos;
                }
                '$' | '`' => return Err("expansion"),
                c if is_blank(c) || is_op_char(c) => break,
                c => {
                    if c == '=' && raw_before_eq.is_none() {
                        raw_before_eq = Some(prefix_clean && !text.is_empty());
                    }
                    text.push(c);
                    pos += 1;
                    end = pos;
                }
            }
        }
        if !quoted && !text.is_empty() && text.chars().all(|c| c.is_ascii_digit()) && pos < buf.len() && matches!(buf[pos].ch, '<' | '>') {
            return Err("IO number");
        }
        Ok(Tok {
            kind: Kind::Word {
                literal: if quoted { None } else { Some(text.clone()) },
                dequoted: text,
                assignment: raw_before_eq == Some(true),
            },
            start,
            end,
            next: pos,
            chain,
        })
    }

    /// Depth of the blank-ending replacement that directly precedes position `start` (only blanks
    /// and line continuations in between), if any.
    fn blank_mark_before(buf: &[MC], start: usize) -> Option<u8> {
        let mut i = start;
        while i > 0 {
            i -= 1;
            let c = buf[i];
            if c.mark != 0 {
                return Some(c.mark);
            }
            if is_blank(c.ch) {
                continue;
            }
            if c.ch == '\n' && i > 0 && buf[i - 1].ch == '\\' {
                // line continuation (none of the generated texts has an escaped backslash before a newline)
                i -= 1;
                if buf[i].mark != 0 {
                    return Some(buf[i].mark);
                }
                continue;
            }
            return None;
        }
        None
    }

    enum Next {
        To(St),
        /// certainly a syntax error at this token
        Stop,
    }
    use Next::*;

    fn on_keyword(st: St, kw: &str) -> Next {
        // st is CmdStart or PostCompound
        match kw {
            "if" | "then" | "else" | "elif" | "while" | "until" | "do" | "{" | "!" => To(St::CmdStart),
            "fi" | "done" | "esac" | "}" => To(St::PostCompound),
            "for" if st == St::CmdStart => To(St::ForName),
            "case" if st == St::CmdStart => To(St::CaseSubject),
            _ => Stop, // `in`; `for`/`case` right after a compound command
        }
    }

    fn on_word(st: St, assignment: bool) -> Next {
        match st {
            St::CmdStart | St::PreCmd => {
                if assignment {
                    To(St::PreCmd)
                } else {
                    To(St::Args { one_word: st == St::CmdStart })
                }
            }
            St::Args { .. } => To(St::Args { one_word: false }),
            St::RedirTarget(Ret::PreCmd) => To(St::PreCmd),
            St::RedirTarget(Ret::Args) => To(St::Args { one_word: false }),
            St::RedirTarget(Ret::PostCompound) => To(St::PostCompound),
            St::PostCompound => Stop,
            St::ForName => To(St::ForAfterName),
            St::ForAfterName => Stop,
            St::ForValues => To(St::ForValues),
            St::ForBody => Stop,
            St::CaseSubject => To(St::CaseIn),
            St::CaseIn => Stop,
            St::CasePat | St::CasePatWord => To(St::CasePatSep),
            St::CasePatSep => Stop,
        }
    }

    fn on_op(st: St, op: &str) -> Result<Next, &'static str> {
        let in_header = matches!(
            st,
            St::ForName | St::ForAfterName | St::ForValues | St::ForBody | St::CaseSubject | St::CaseIn | St::CasePat | St::CasePatWord | St::CasePatSep
        );
        if let St::RedirTarget(_) = st {
            return Ok(Stop); // missing redirection operand
        }
        Ok(match op {
            "<" | ">" | ">>" => match st {
                St::CmdStart | St::PreCmd => To(St::RedirTarget(Ret::PreCmd)),
                St::Args { .. } => To(St::RedirTarget(Ret::Args)),
                St::PostCompound => To(St::RedirTarget(Ret::PostCompound)),
                _ => Stop,
            },
            "\n" => match st {
                St::ForAfterName | St::ForBody | St::CaseIn | St::CasePat => To(st),
                St::ForValues => To(St::ForBody),
                _ if in_header => Stop,
                _ => To(St::CmdStart),
            },
            ";" => match st {
                St::ForAfterName | St::ForValues => To(St::ForBody),
                _ if in_header => Stop,
                _ => To(St::CmdStart),
            },
            "&" | "&&" | "||" => {
                if in_header {
                    Stop
                } else {
                    To(St::CmdStart)
                }
            }
            "|" => match st {
                St::CasePatSep => To(St::CasePatWord),
                _ if in_header => Stop,
                _ => To(St::CmdStart),
            },
            "(" => match st {
                St::CasePat => To(St::CasePatWord),
                St::CmdStart => To(St::CmdStart),
                St::Args { one_word: true } => return Err("function definition"),
                _ => Stop,
            },
            ")" => match st {
                St::CasePatSep => To(St::CmdStart),
                _ if in_header => Stop,
                _ => To(St::PostCompound),
            },
            ";;" => To(St::CasePat),
            _ => return Err("operator outside the modelled set"),
        })
    }

    /// Performs alias substitution on `line` textually.
    pub fn substitute(defs: &[Def], line: &str) -> Result<Report, &'static str> {
        let mut buf: Vec<MC> = line.chars().map(|ch| MC { ch, chain: 0, mark: 0 }).collect();
        let mut rep = Report::default();
        let mut st = St::CmdStart;
        let mut pos = 0usize;
        loop {
            let tok = next_token(&buf, pos)?;
            match &tok.kind {
                Kind::Eof => break,
                Kind::Op(op) => {
                    match on_op(st, op)? {
                        To(n) => st = n,
                        Stop => {
                            rep.stopped_at_error = true;
                            break;
                        }
                    }
                    if tok.chain != 0 {
                        rep.operator_from_alias = true;
                    }
                    pos = tok.next;
                }
                Kind::Word { literal, dequoted, assignment } => {
                    // 1. reserved words
                    if let Some(lit) = literal {
                        let lit = lit.as_str();
                        let header_kw = match (st, lit) {
                            (St::ForAfterName, "in") => Some(St::ForValues),
                            (St::ForAfterName | St::ForBody, "do") => Some(St::CmdStart),
                            (St::CaseIn, "in") => Some(St::CasePat),
                            (St::CasePat, "esac") => Some(St::PostCompound),
                            _ => None,
                        };
                        if let Some(n) = header_kw {
                            if tok.chain != 0 {
                                rep.keyword_from_alias = true;
                            }
                            st = n;
                            pos = tok.next;
                            continue;
                        }
                        if matches!(st, St::CmdStart | St::PostCompound) {
                            if EXTENSION_KEYWORDS.contains(&lit) {
                                return Err("non-POSIX reserved word");
                            }
                            if KEYWORDS.contains(&lit) {
                                match on_keyword(st, lit) {
                                    To(n) => st = n,
                                    Stop => {
                                        rep.stopped_at_error = true;
                                        break;
                                    }
                                }
                                if tok.chain != 0 {
                                    rep.keyword_from_alias = true;
                                }
                                pos = tok.next;
                                continue;
                            }
                        }
                    }
                    // 2. alias substitution
                    let command_position = matches!(st, St::CmdStart | St::PreCmd);
                    let blank = blank_mark_before(&buf, tok.start);
                    let name = literal.as_deref().unwrap_or(dequoted.as_str());
                    if let Some(idx) = defs.iter().position(|d| d.name == name) {
                        let def = &defs[idx];
                        let positioned = command_position || blank.is_some() || def.global;
                        if positioned && literal.is_none() {
                            rep.quoted_blocked = true;
                        } else if positioned && tok.chain & (1 << idx) != 0 {
                            rep.guard_stops += 1;
                        } else if positioned {
                            if def.global
                                && !command_position
                                && blank.is_none()
                                && !matches!(st, St::Args { .. } | St::RedirTarget(_))
                            {
                                return Err("global alias outside a simple command");
                            }
                            // splice the raw replacement text in place of the word
                            let chain = tok.chain | (1 << idx);
                            let depth = if command_position { 0 } else { blank.unwrap_or(0) };
                            let mut repl: Vec<MC> = def.value.chars().map(|ch| MC { ch, chain, mark: 0 }).collect();
                            if let Some(last) = repl.last_mut() {
                                if is_blank(last.ch) {
                                    last.mark = depth.saturating_add(1);
                                }
                            }
                            buf.splice(tok.start..tok.end, repl);
                            rep.substitutions += 1;
                            if !command_position {
                                if let Some(d) = blank {
                                    rep.blank_depth = rep.blank_depth.max(d);
                                } else {
                                    rep.global_substitutions += 1;
                                }
                            }
                            if def.value.is_empty() {
                                rep.empty_value = true;
                            }
                            if rep.substitutions > 5000 {
                                return Err("model: substitution bound");
                            }
                            pos = tok.start;
                            continue; // re-scan from the same place in the same state
                        }
                    }
                    // 3. an ordinary word
                    match on_word(st, *assignment && command_position) {
                        To(n) => st = n,
                        Stop => {
                            rep.stopped_at_error = true;
                            break;
                        }
                    }
                    pos = tok.next;
                }
            }
        }
        rep.text = buf.iter().map(|m| m.ch).collect();
        Ok(rep)
    }
}

use model::Def;

// =============================================================================================
// The real parser, with a counting glossary
// =============================================================================================

const LOOKUP_BOUND: u64 = 10_000;
const LINE_BOUND: usize = 500;

#[derive(Debug)]
struct CountingGlossary {
    aliases: Vec<Rc<Alias>>,
    lookups: Cell<u64>,
    /// hand out a new `Rc` (equal content) on every look-up, as a glossary does whose alias was
    /// re-defined with the same value in between; the recursion rule is about names, so nothing
    /// may depend on the identity of the definition
    fresh: bool,
}

impl CountingGlossary {
    fn new(defs: &[Def]) -> Self {
        let aliases = defs
            .iter()
            .map(|d| {
                Rc::new(Alias {
                    name: d.name.clone(),
                    replacement: d.value.clone(),
                    global: d.global,
                    origin: Location::dummy("alias"),
                })
            })
            .collect();
        CountingGlossary { aliases, lookups: Cell::new(0), fresh: false }
    }
    fn fresh(defs: &[Def]) -> Self {
        CountingGlossary { fresh: true, ..Self::new(defs) }
    }
    fn exceeded(&self) -> bool {
        self.lookups.get() > LOOKUP_BOUND
    }
}

impl Glossary for CountingGlossary {
    fn look_up(&self, name: &str) -> Option<Rc<Alias>> {
        self.lookups.set(self.lookups.get() + 1);
        if self.exceeded() {
            // stop feeding the loop so that the run ends and the violation can be reported
            return None;
        }
        let found = self.aliases.iter().find(|a| a.name == name)?;
        Some(if self.fresh { Rc::new((**found).clone()) } else { Rc::clone(found) })
    }
    fn is_empty(&self) -> bool {
        self.aliases.is_empty()
    }
}

#[derive(Debug, PartialEq, Eq)]
struct Parsed {
    /// printed form of every non-empty complete command, in order
    lists: Vec<String>,
    error: bool,
    error_text: Option<String>,
    line_bound_hit: bool,
    pending: bool,
}

fn parse_all(code: &str, glossary: Option<&CountingGlossary>) -> Parsed {
    let mut lexer = Lexer::with_code(code);
    let mut config = Parser::config();
    if let Some(g) = glossary {
        config.aliases(g);
    }
    let mut parser = config.input(&mut lexer);
    let mut out = Parsed { lists: vec![], error: false, error_text: None, line_bound_hit: false, pending: false };
    for _ in 0..LINE_BOUND {
        match parser.command_line().now_or_never() {
            None => {
                out.pending = true;
                return out;
            }
            Some(Ok(None)) => return out,
            Some(Ok(Some(list))) => {
                let s = list.to_string();
                if !s.is_empty() {
                    out.lists.push(s);
                }
            }
            Some(Err(e)) => {
                out.error = true;
                out.error_text = Some(e.to_string());
                return out;
            }
        }
        if glossary.is_some_and(|g| g.exceeded()) {
            return out;
        }
    }
    out.line_bound_hit = true;
    out
}

// =============================================================================================
// Case and check
// =============================================================================================

#[derive(Clone, Debug, PartialEq, Eq, Hash, Serialize, Deserialize)]
pub struct AliasCase {
    pub table: Vec<Def>,
    pub line: String,
    /// also run `alias …; L` and `L'` in the virtual shell
    pub exec: bool,
}

fn show_table(t: &[Def]) -> String {
    let mut s = String::new();
    for d in t {
        if !s.is_empty() {
            s.push(' ');
        }
        s.push_str(&format!("{}{}={:?}", if d.global { "-g " } else { "" }, d.name, d.value));
    }
    s
}

fn sq(s: &str) -> String {
    format!("'{}'", s.replace('\'', "'\\''"))
}

fn exec_summary(script: &str) -> Result<(Vec<(i32, Vec<String>)>, String, i32), String> {
    let mut setup = vsys::Setup::script(script);
    setup.max_steps = 50_000;
    let r = vsys::run(&setup);
    if let Some(p) = &r.panic {
        return Err(format!("panic: {p}"));
    }
    if !r.finished {
        return Err("unfinished".into());
    }
    let trace = r.trace.iter().map(|t| (t.status, t.args.clone())).collect();
    Ok((trace, r.stdout.clone(), r.status))
}

fn check_alias(c: &AliasCase) -> Outcome {
    // --- model
    let rep = match model::substitute(&c.table, &c.line) {
        Ok(r) => r,
        Err(why) => {
            // totality only: the real parser must still terminate
            let g = CountingGlossary::new(&c.table);
            let p = parse_all(&c.line, Some(&g));
            if g.exceeded() || p.line_bound_hit || p.pending {
                return Outcome::fail(format!(
                    "alias substitution did not terminate: table {{{}}} line {:?} ({} look-ups)",
                    show_table(&c.table), c.line, g.lookups.get()
                ));
            }
            return Outcome::skip(why);
        }
    };
    // --- real parser with the table
    let g = CountingGlossary::new(&c.table);
    let with = parse_all(&c.line, Some(&g));
    if g.exceeded() || with.line_bound_hit {
        return Outcome::fail(format!(
            "alias substitution did not terminate: table {{{}}} line {:?}: more than {} alias look-ups / {} command lines (a terminating run needs at most a few dozen)",
            show_table(&c.table), c.line, LOOKUP_BOUND, LINE_BOUND
        ));
    }
    if with.pending {
        return Outcome::fail(format!("parser future pending on in-memory input: table {{{}}} line {:?}", show_table(&c.table), c.line));
    }
    // --- real parser without aliases on the hand-substituted text
    let without = parse_all(&rep.text, None);
    if without.pending || without.line_bound_hit {
        return Outcome::skip("reference parse did not complete");
    }
    if rep.stopped_at_error && !without.error {
        // the model's grammar knowledge is wrong here; it cannot judge
        return Outcome::skip("model predicted a syntax error that the reference parser does not report");
    }
    if with.lists != without.lists || with.error != without.error {
        return Outcome::fail(format!(
            "table {{{}}} line {:?}: parsing with the aliases gives {:?}{}, but the textual substitution is {:?} which parses (without aliases) to {:?}{}",
            show_table(&c.table),
            c.line,
            with.lists,
            if with.error { format!(" then syntax error ({})", with.error_text.as_deref().unwrap_or("")) } else { String::new() },
            rep.text,
            without.lists,
            if without.error { format!(" then syntax error ({})", without.error_text.as_deref().unwrap_or("")) } else { String::new() },
        ));
    }
    // --- the same again with a glossary that returns a new Rc for every look-up
    if rep.substitutions > 0 {
        let g2 = CountingGlossary::fresh(&c.table);
        let again = parse_all(&c.line, Some(&g2));
        if g2.exceeded() || again.line_bound_hit {
            return Outcome::fail(format!(
                "alias substitution did not terminate when every look-up returns a newly allocated (equal) definition, as after re-defining an alias with the same value: table {{{}}} line {:?}",
                show_table(&c.table), c.line
            ));
        }
        if again.lists != with.lists || again.error != with.error {
            return Outcome::fail(format!(
                "table {{{}}} line {:?}: result depends on the identity of the alias definition: {:?} with shared definitions, {:?} when every look-up returns a newly allocated equal definition",
                show_table(&c.table), c.line, with.lists, again.lists
            ));
        }
    }
    let has_global = c.table.iter().any(|d| d.global);
    let mut executed = false;
    if c.exec && !has_global && rep.substitutions > 0 {
        let mut defs = String::from("alias");
        for d in &c.table {
            defs.push_str(&format!(" {}={}", d.name, sq(&d.value)));
        }
        let a = exec_summary(&format!("{defs}\n{}\n", c.line));
        let b = exec_summary(&format!("{}\n", rep.text));
        match (a, b) {
            (Ok(a), Ok(b)) => {
                if a != b {
                    return Outcome::fail(format!(
                        "table {{{}}} line {:?}: executing with the aliases gives trace {:?} stdout {:?} status {}, executing the substituted text {:?} gives trace {:?} stdout {:?} status {}",
                        show_table(&c.table), c.line, a.0, a.1, a.2, rep.text, b.0, b.1, b.2
                    ));
                }
                executed = true;
            }
            (Err(e), _) if e.starts_with("panic") => {
                return Outcome::fail(format!("table {{{}}} line {:?}: {e}", show_table(&c.table), c.line));
            }
            (Err(a), Err(b)) if a == b => {} // both hit the step bound (endless loop in the script)
            (a, b) => {
                return Outcome::fail(format!(
                    "table {{{}}} line {:?}: execution with aliases: {:?}; execution of the substituted text {:?}: {:?}",
                    show_table(&c.table), c.line, a.map(|x| x.2), rep.text, b.map(|x| x.2)
                ));
            }
        }
    }
    let interesting = rep.guard_stops > 0 || rep.blank_depth >= 2 || rep.keyword_from_alias || rep.operator_from_alias;
    Outcome::pass(rep.substitutions > 0 && interesting)
        .class_if(rep.substitutions > 0, "substituted")
        .class_if(rep.substitutions == 0, "no-substitution")
        .class_if(rep.substitutions >= 3, "substituted-3+")
        .class_if(rep.guard_stops > 0, "cycle-stopped")
        .class_if(rep.blank_depth >= 1, "blank-chain")
        .class_if(rep.blank_depth >= 2, "blank-chain-2+")
        .class_if(rep.keyword_from_alias, "keyword-from-alias")
        .class_if(rep.operator_from_alias, "operator-from-alias")
        .class_if(rep.global_substitutions > 0, "global-alias")
        .class_if(rep.empty_value, "empty-value")
        .class_if(rep.quoted_blocked, "quoted-not-substituted")
        .class_if(with.error, "both-syntax-error")
        .class_if(!with.error && rep.substitutions > 0, "substituted-and-valid")
        .class_if(!with.error && rep.substitutions > 0 && interesting, "nontrivial-and-valid")
        .class_if(with.lists.len() >= 2, "multi-line")
        .class_if(executed, "executed")
}

/// Genuine defects found by this check; the integrator lists them in known_findings.json.
///
/// `alias-newline-after-andor`: yash-syntax/src/parser/and_or.rs skips the newlines that may follow
/// `&&` / `||` *before* the loop that re-parses the pipeline after an alias substitution, so a
/// newline that comes out of the substituted alias (`alias a='\nprobe m'; x && a`) is not skipped
/// and "a command is missing after `&&`" is reported, although `x &&<newline>probe m` is valid.
fn known(c: &AliasCase, msg: &str) -> Option<&'static str> {
    let missing = msg.contains("a command is missing after `&&`") || msg.contains("a command is missing after `||`");
    let newline_first = c.table.iter().any(|d| d.value.trim_start_matches([' ', '\t']).starts_with('\n'));
    if missing && newline_first {
        return Some("alias-newline-after-andor");
    }
    None
}

pub static ALIAS: Driver<AliasCase> = Driver::new("C17", "alias", check_alias).with_known(known);
pub static GLOBAL: Driver<AliasCase> = Driver::new("C17", "global", check_alias).with_known(known);

// =============================================================================================
// Generators
// =============================================================================================

const NAMES: [&str; 4] = ["a", "b", "c", "d"];

/// Value shapes; `S` = the alias' own name, `N` = the next name (cyclically), `P` = the previous.
const VALUES: [&str; 26] = [
    // a loop header ending in a blank, and `do` after a newline: reserved words and newlines that
    // emerge from replacement text after a blank-ending value
    "for i in x; ", "\ndo", "do",
    "N", "N ", "N P", "if", "!", "{", "then", ";", "|", "&&", "(", ">f", "v=1", "'N'", "\\N", "", "probe x", "probe y ", "S",
    "S x", "probe n\nN", "\nprobe m",
    // blank-ending value with multi-byte characters (positions counted in characters vs bytes)
    "probe \u{e9}\u{3053} ",
];

/// Value shapes for the tables with global aliases.
const GLOBAL_VALUES: [&str; 10] = ["N", "N ", "probe x", "S", "", ";", "| probe p", "'N'", "probe N ", "N w"];

fn instantiate(shape: &str, k: usize, n: usize) -> String {
    let mut s = String::new();
    for ch in shape.chars() {
        match ch {
            'S' => s.push_str(NAMES[k]),
            'N' => s.push_str(NAMES[(k + 1) % n]),
            'P' => s.push_str(NAMES[(k + n - 1) % n]),
            c => s.push(c),
        }
    }
    s
}

fn table_from_index(mut t: u64, n: usize) -> Vec<Def> {
    let base = VALUES.len() as u64 + 1;
    let mut v = vec![];
    for k in 0..n {
        let d = t % base;
        t /= base;
        if d > 0 {
            v.push(Def { name: NAMES[k].into(), value: instantiate(VALUES[(d - 1) as usize], k, n), global: false });
        }
    }
    v
}

fn global_table_from_index(mut t: u64, n: usize) -> Option<Vec<Def>> {
    let base = 2 * GLOBAL_VALUES.len() as u64 + 1;
    let mut v = vec![];
    let mut any_global = false;
    for k in 0..n {
        let d = t % base;
        t /= base;
        if d > 0 {
            let global = (d - 1) % 2 == 1;
            any_global |= global;
            v.push(Def { name: NAMES[k].into(), value: instantiate(GLOBAL_VALUES[((d - 1) / 2) as usize], k, n), global });
        }
    }
    any_global.then_some(v)
}

/// Quick-tier line templates (names a, b, c).
const LINES_QUICK: [&str; 50] = [
    "a b probe q; done",
    "a b\nprobe q; done",
    // the word after `command` is an argument like any other
    "command a",
    "command a b",
    "command command a",
    "x command a",
    "a",
    "a x",
    "a b",
    "a b c",
    "x a",
    "x a b",
    "v=1 a",
    "v=1 a b",
    ">f a",
    "a >f b",
    ">f a b",
    "a b >f c",
    "! a",
    "{ a; }",
    "{ a; b; }",
    "( a )",
    "(a)",
    "if a; then b; fi",
    "if x; then a; else b; fi",
    "while cnt w 2; do a; done",
    "for i in a b; do a; done",
    "case a in a) a;; esac",
    "x | a",
    "a | b",
    "x && a",
    "a && b",
    "x || a",
    "x; a",
    "a;b",
    "a & b",
    "x\na",
    "a\nb",
    "'a'",
    "a'b'",
    "\\a",
    "\"a\" b",
    "a 'b' c",
    "a \\\nb",
    "a\\\n b c",
    "a\tb",
    "a x; }",
    "a x; then b; fi",
    "if x; a y; fi",
    "a x )",
];

/// Additional thorough-tier templates (names a, b, c, d).
const LINES_MORE: [&str; 76] = [
    "d",
    "a d",
    "d a",
    "a b c d",
    "a b c d x",
    "x a b c",
    "a x b",
    "a b x c",
    "  a",
    "a  b",
    "a ",
    "a\n",
    "\na",
    "a b\n",
    "a b\nc d",
    "a\n\nb",
    "v=1 w=2 a",
    "v=1 >f a b",
    ">f v=1 a",
    ">f >g a",
    "a >f",
    "a > b",
    "a < b",
    "a >> b c",
    "a b >f",
    "<f a | b",
    "! a b",
    "! a | b",
    "! ! a",
    "a ! b",
    "{ a b; }",
    "{ a; } >f",
    "{ a; } b",
    "{ a\n}",
    "{ a; }; b",
    "a { b; }",
    "( a; b )",
    "( a ) | b",
    "( a ) b",
    "((a))",
    "( ( a ) )",
    "{ ( a ); }",
    "if a; then b; elif c; then d; fi",
    "if a\nthen b\nfi",
    "if a b; then c d; fi",
    "if { a; } then b; fi",
    "while cnt w 1; do a b; done",
    "until ! cnt u 1; do a; done",
    "while cnt w 1\ndo a\ndone",
    "for a in b; do c; done",
    "for i in x; do a; b; done",
    "for i\ndo a; done",
    "for i in a\ndo b\ndone",
    "case x in x) a;; y) b;; esac",
    "case x in (a|b) c;; esac",
    "case x in\nx) a\nesac",
    "a | b | c",
    "x | a b",
    "a |\nb",
    "a && b || c",
    "a &&\nb",
    "x && a b",
    "a; b; c",
    "a;;b",
    "a & b & c",
    "a x & b y",
    "a\nb\nc",
    "a x\nb y",
    "'a' b",
    "a \"b\" c",
    "a \\b c",
    "a b'' c",
    "a \\\n\\\nb",
    "a \\\n b \\\n c",
    "a x; } ; b",
    "a x; b y; }",
];

fn line_at(i: usize, tier_lines: usize) -> &'static str {
    debug_assert!(i < tier_lines);
    if i < LINES_QUICK.len() { LINES_QUICK[i] } else { LINES_MORE[i - LINES_QUICK.len()] }
}

fn mix(i: u64) -> u64 {
    let mut x = i.wrapping_add(0x9E37_79B9_7F4A_7C15);
    x = (x ^ (x >> 30)).wrapping_mul(0xBF58_476D_1CE4_E5B9);
    x = (x ^ (x >> 27)).wrapping_mul(0x94D0_49BB_1331_11EB);
    x ^ (x >> 31)
}

/// Hand-written cases for rules that the value alphabet above does not reach.
fn catalogue() -> Vec<AliasCase> {
    let d = |name: &str, value: &str| Def { name: name.into(), value: value.into(), global: false };
    let g = |name: &str, value: &str| Def { name: name.into(), value: value.into(), global: true };
    let mut v = vec![];
    let mut add = |table: Vec<Def>, line: &str, exec: bool| v.push(AliasCase { table, line: line.into(), exec });
    // the manual's examples
    add(vec![d("dumb", "> /dev/null")], "dumb probe Hello", true);
    add(vec![d("m", "st 0 &&")], "m probe Happy", true);
    add(vec![d("ll", "probe -l"), d("l", "ll -h")], "l", true);
    add(vec![d("ls", "ls -F")], "ls", true);
    add(vec![d("greet", "probe Hello,"), d("time", "probe -p ")], "time greet World", true);
    add(vec![d("greet", "probe Hello,"), d("time", "probe -p")], "time greet World", true);
    add(vec![d("probe", "probe "), d("q", "'[ "), d("a", "b")], "probe q a ]'", true);
    // cycles of length 2..4 with and without trailing blanks and arguments
    add(vec![d("a", "b"), d("b", "a")], "a", true);
    add(vec![d("a", "b x"), d("b", "c y"), d("c", "a z")], "a; b; c", true);
    add(vec![d("a", "b "), d("b", "c "), d("c", "d "), d("d", "a ")], "a a a a a", true);
    add(vec![d("a", "b "), d("b", "c "), d("c", "d "), d("d", "a ")], "a b c d a", true);
    add(vec![d("a", "probe 1 "), d("b", "probe 2 "), d("c", "probe 3 "), d("d", "probe 4")], "a b c d a", true);
    // blank-ending chains across line continuations, tabs, and through nested replacements
    add(vec![d("a", "probe \t"), d("b", "c"), d("c", "x ")], "a \\\n\\\n b \\\n b", true);
    add(vec![d("a", "b"), d("b", "probe 1 "), d("c", "y")], "a c c", true);
    add(vec![d("a", "b c"), d("b", "probe 1 "), d("c", "y")], "a c", true);
    add(vec![d("a", "b  "), d("b", ""), d("c", "probe z")], "a c", true);
    // reserved words and operators coming out of aliases
    add(vec![d("a", "if st 0; then"), d("b", "fi")], "a probe t; b", true);
    add(vec![d("a", "{"), d("b", "}")], "a probe t; b", true);
    add(vec![d("a", "for i in"), d("b", "do")], "a x y; b probe q; done", true);
    add(vec![d("a", "probe 1 "), d("b", "; probe 2 "), d("c", "| cat")], "a b c", true);
    add(vec![d("a", "probe 1 "), d("b", "&& probe 2 "), d("c", "|| probe 3")], "a b c", true);
    add(vec![d("a", "probe 1\nprobe 2\n"), d("b", "probe 3")], "a b", true);
    add(vec![d("a", "! "), d("b", "st 1")], "a b; probe r", true);
    add(vec![d("a", "( "), d("b", "probe s )")], "a b", true);
    add(vec![d("a", "v=1 "), d("b", "w=2 "), d("c", "probe t")], "a b c", true);
    add(vec![d("a", ">f "), d("b", "g "), d("c", "probe t")], "a b c", true);
    // global aliases (API level)
    add(vec![g("N", "| cat")], "probe x N", false);
    add(vec![g("a", "b"), g("b", "a")], "x a b", false);
    add(vec![g("a", "x "), d("b", "y")], "p a b; p b a", false);
    v
}


// =============================================================================================
// Driver runtime: an alias whose value spans two lines; the first line changes the alias table
// while the second line - still part of the replacement text - is yet to be parsed
// =============================================================================================

#[derive(Clone, Debug, PartialEq, Eq, Hash, Serialize, Deserialize)]
pub struct RtCase {
    /// functions z0 / z1 defined (what an unsubstituted name finds)
    pub f0: bool,
    pub f1: bool,
    /// alias z1='mark V' defined beforehand
    pub z1: bool,
    /// first line of the value of z0: 0 `alias z0="mark W"`, 1 `unalias z0`, 2 `alias z1="mark V2"`,
    /// 3 `mark A`, 4 `unalias z1` (only when z1 is defined, otherwise as 3)
    pub l1: u8,
    /// second line: 0 `z0`, 1 `z1`, 2 `mark B`
    pub l2: u8,
}

fn check_rt(c: &RtCase) -> Outcome {
    let l1 = if c.l1 % 5 == 4 && !c.z1 { 3 } else { c.l1 % 5 };
    let l2 = c.l2 % 3;
    let line1 = ["alias z0=\"mark W\"", "unalias z0", "alias z1=\"mark V2\"", "mark A", "unalias z1"][l1 as usize];
    let line2 = ["z0", "z1", "mark B"][l2 as usize];
    let mut script = String::new();
    if c.f0 {
        script.push_str("z0() { mark F0; }\n");
    }
    if c.f1 {
        script.push_str("z1() { mark F1; }\n");
    }
    if c.z1 {
        script.push_str("alias z1='mark V'\n");
    }
    script.push_str(&format!("alias z0='{line1}\n{line2}'\nz0\nmark E\n"));
    // by hand: the line `z0` becomes the two lines; the first is executed before the second is
    // parsed; the second is replacement text of z0, so a `z0` there is never substituted again
    let mut expect: Vec<(String, Option<i32>)> = vec![];
    let mut z1_alias: Option<&str> = c.z1.then_some("V");
    match l1 {
        2 => z1_alias = Some("V2"),
        3 => expect.push(("A".into(), None)),
        4 => z1_alias = None,
        _ => {}
    }
    let mut status = 0;
    match l2 {
        0 => {
            if c.f0 {
                expect.push(("F0".into(), None));
            } else {
                status = 127;
            }
        }
        1 => match z1_alias {
            Some(v) => expect.push((v.into(), None)),
            None if c.f1 => expect.push(("F1".into(), None)),
            None => status = 127,
        },
        _ => expect.push(("B".into(), None)),
    }
    expect.push(("E".into(), Some(status)));
    let r = vsys::run(&vsys::Setup::script(&script));
    let ctx = |m: String| format!("{m}\nscript:\n{script}stderr: {:?}", r.stderr);
    if let Some(p) = &r.panic {
        return Outcome::fail(ctx(format!("panic: {p}")));
    }
    if !r.finished || r.log.deadlock {
        return Outcome::fail(ctx("shell did not finish".into()));
    }
    let got: Vec<(String, i32)> = r.main_trace().iter().map(|t| (t.args[0].clone(), t.status)).collect();
    let ok = got.len() == expect.len() && got.iter().zip(&expect).all(|(g, e)| g.0 == e.0 && e.1.is_none_or(|s| s == g.1));
    if !ok {
        return Outcome::fail(ctx(format!(
            "commands executed {got:?}, but substituting by hand gives {:?} (a name inside its own replacement text is not substituted again, whatever happened to the alias meanwhile)",
            expect
        )));
    }
    Outcome::pass(l1 != 3 || l2 != 2)
        .class(["runtime:redefine-self", "runtime:unalias-self", "runtime:define-other", "runtime:plain-first-line", "runtime:unalias-other"][l1 as usize])
        .class(["runtime:second-line-own-name", "runtime:second-line-other-name", "runtime:second-line-plain"][l2 as usize])
}

pub static RUNTIME: Driver<RtCase> = Driver::new("C17", "runtime", check_rt);

pub fn run(ctx: &Ctx, st: &mut Stats) {
    ALIAS.run_list(st, &catalogue());
    RUNTIME.run_exhaustive(ctx, st, 8 * 5 * 3, &|i| Some(RtCase { f0: i & 1 != 0, f1: i & 2 != 0, z1: i & 4 != 0, l1: ((i / 8) % 5) as u8, l2: (i / 40) as u8 }));

    let n = ctx.tier.pick(3usize, 4usize);
    let nlines = ctx.tier.pick(LINES_QUICK.len(), LINES_QUICK.len() + LINES_MORE.len());
    let base = VALUES.len() as u64 + 1;
    let tables = base.pow(n as u32);
    let total = tables * nlines as u64;
    let seed = ctx.seed;
    let decode = move |i: u64| -> Option<AliasCase> {
        let li = (i % nlines as u64) as usize;
        let t = i / nlines as u64;
        let table = table_from_index(t, n);
        Some(AliasCase { table, line: line_at(li, nlines).to_string(), exec: mix(i ^ seed.wrapping_mul(0x5851_F42D_4C95_7F2D)) % 10 == 0 })
    };
    ALIAS.run_exhaustive(ctx, st, total, &decode);

    // tables with at least one global alias: parser API only
    let gn = 3usize;
    let gbase = 2 * GLOBAL_VALUES.len() as u64 + 1;
    let gtables = gbase.pow(gn as u32);
    let gtotal = gtables * nlines as u64;
    let gdecode = move |i: u64| -> Option<AliasCase> {
        let li = (i % nlines as u64) as usize;
        let t = i / nlines as u64;
        let table = global_table_from_index(t, gn)?;
        Some(AliasCase { table, line: line_at(li, nlines).to_string(), exec: false })
    };
    GLOBAL.run_exhaustive(ctx, st, gtotal, &gdecode);

    st.extra.insert(
        "exhaustive_space".into(),
        serde_json::json!({"names": n, "value_shapes": VALUES.len(), "tables": tables, "lines": nlines, "global_tables": gtables, "executed_share": "10% of substituting cases"}),
    );
}

pub fn replay(driver: &str, case: &serde_json::Value) -> Result<(Outcome, Option<&'static str>), String> {
    match driver {
        "alias" => ALIAS.replay_known(case),
        "global" => GLOBAL.replay_known(case),
        "runtime" => RUNTIME.replay_known(case),
        _ => Err(format!("unknown driver {driver}")),
    }
}
