//! C16 — variable scope, lifetime and attributes behave as documented in every history.
//! Combines the API-level half (c16a: VariableSet vs a naive stack-of-maps model) and the
//! script-level half (c16b: generated scripts vs a stack-of-scopes model of the manual).

use super::{c16a, c16b, c16c};
use crate::engine::*;

pub const INFO: PropInfo = PropInfo {
    id: "C16",
    level: "exploration",
    rule: "three families of cases. (script-lineno) one-command-per-line scripts over LINENO, the variable whose value the shell computes: observation points `probe L $LINENO` (also on a continuation line), `readonly LINENO`, `export LINENO`, assigners that fail without ending the shell (`read`, `getopts`, `typeset`) and optionally a fatally refused last line (assignment, temporary assignment, `for`, arithmetic assignment, `unset`, `readonly`/`export` with a value); until an assignment succeeds every observation shows its own line number, a refused assigner leaves non-zero `$?`, nothing runs after a fatal refusal, and the EXIT trap observes the same `$LINENO` as when the refused line is replaced by `exit 3`; non-trivial = a refused assignment followed by an observation. (api-*) operation trees on VariableSet: push regular/volatile context (RAII, so histories are trees), get_or_new in Global/Local/Volatile scope followed by assign scalar/array, export, make read-only; unset per scope; reads get / get_scoped / get_scalar / iter(scope) / env_c_strings / positional_params; exhaustive over trees of <=4 (quick) / <=5 (thorough) mutating operations over 2 names x 2 values x 8 action lists at nesting <=3, plus proptest trees of <=30 operations at nesting <=4; executed in lock-step with a naive stack-of-maps model, every result, error and the whole observable state compared after each step. (script-*) proptest programs of <=12 statements over variables x y z and functions f g: assignments prefixed to regular built-ins, functions, special built-ins and external utilities; typeset locals, globals assigned in functions, set --/shift, nested calls, return; export/readonly/unset; for/read/getopts as assigners; run by the real shell on the simulated OS and compared at every snapshot (value, exported, read-only of x y z, positional parameters, $? class), at every execve (environment entries of x y z) and at the end (status class, nothing after a fatal error) with a stack-of-scopes model of docs/src. Non-trivial: api = a volatile context with a hidden variable, an unset in Local/Volatile scope, or a rejected read-only assign/unset; script = a temporary assignment together with a function call, a read-only violation attempt, or a local shadowing an outer variable; distinct by serialised case.",
    assumptions: &[
        "documented behaviour of VariableSet (doc comments) and of docs/src/language (simple.md, variables.md, functions.md, termination.md) is the reference",
        "whether a prefix assignment of a special built-in sets the export attribute is treated as unspecified (POSIX XCU 2.9.1; manual and code disagree, the repository's unit test pins the code's choice)",
        "a function body that modifies a variable whose visible instance is a caller's temporary assignment is skipped and counted (undocumented)",
    ],
};

pub fn run(ctx: &Ctx, st: &mut Stats) {
    c16a::run(ctx, st);
    c16b::run(ctx, st);
    c16c::run(ctx, st);
}

pub fn replay(driver: &str, case: &serde_json::Value) -> Result<(Outcome, Option<&'static str>), String> {
    if driver == "script-lineno" { c16c::replay(driver, case) } else if driver.starts_with("script-") { c16b::replay(driver, case) } else { c16a::replay(driver, case) }
}
