//! C03 — arithmetic expansion is exact 64-bit C arithmetic or an error, never wrong.
//!
//! Oracle: `model_eval`, an evaluator over the harness' own expression AST on i128 with explicit
//! classification of undefined / implementation-defined results. It never calls yash-arith.

use crate::engine::*;
use proptest::prelude::*;
use serde::{Deserialize, Serialize};
use std::collections::BTreeMap;

pub const INFO: PropInfo = PropInfo {
    id: "C03",
    level: "exploration",
    rule: "cases = (expression tree, variable environment, blank layout). Exhaustive tier: every tree of depth<=2 over 29 binary, 6 prefix, 2 postfix operators and ?: on boundary leaves (0,1,2,63,64,2^31,2^63-1,a,b) x 6 environments; random tier: proptest trees to depth 6, token soup, arbitrary Unicode text; metamorphic tier: variable holding a constant text vs the text itself; shell tier: the same through $(( )) in the virtual shell. Non-trivial = contains >=1 operator and the reference model gives a definite answer (value or error); distinct by serialised case.",
    assumptions: &[
        "C semantics for signed 64-bit integers as the reference; where C is undefined/implementation-defined but a natural two's-complement value exists (x<<n for negative x, MIN%-1, >> of negative) either an error or that value is accepted",
        "expressions with unsequenced side effects on the same variable are skipped (C: undefined)",
    ],
};

#[derive(Clone, Copy, Debug, PartialEq, Eq, Hash, Serialize, Deserialize)]
pub enum BinOp {
    LOr, LAnd, BOr, BXor, BAnd, Eq, Ne, Lt, Gt, Le, Ge, Shl, Shr, Add, Sub, Mul, Div, Rem,
    Assign, OrA, XorA, AndA, ShlA, ShrA, AddA, SubA, MulA, DivA, RemA,
}
use BinOp::*;
pub const BINOPS: [BinOp; 29] = [
    LOr, LAnd, BOr, BXor, BAnd, Eq, Ne, Lt, Gt, Le, Ge, Shl, Shr, Add, Sub, Mul, Div, Rem, Assign,
    OrA, XorA, AndA, ShlA, ShrA, AddA, SubA, MulA, DivA, RemA,
];

impl BinOp {
    pub fn text(self) -> &'static str {
        match self {
            LOr => "||", LAnd => "&&", BOr => "|", BXor => "^", BAnd => "&", Eq => "==", Ne => "!=",
            Lt => "<", Gt => ">", Le => "<=", Ge => ">=", Shl => "<<", Shr => ">>", Add => "+",
            Sub => "-", Mul => "*", Div => "/", Rem => "%", Assign => "=", OrA => "|=",
            XorA => "^=", AndA => "&=", ShlA => "<<=", ShrA => ">>=", AddA => "+=", SubA => "-=",
            MulA => "*=", DivA => "/=", RemA => "%=",
        }
    }
    /// C precedence level (higher binds tighter).
    pub fn level(self) -> u8 {
        match self {
            Assign | OrA | XorA | AndA | ShlA | ShrA | AddA | SubA | MulA | DivA | RemA => 1,
            LOr => 3, LAnd => 4, BOr => 5, BXor => 6, BAnd => 7, Eq | Ne => 8,
            Lt | Gt | Le | Ge => 9, Shl | Shr => 10, Add | Sub => 11, Mul | Div | Rem => 12,
        }
    }
    pub fn is_assign(self) -> bool {
        self.level() == 1
    }
    /// The arithmetic operator underlying a compound assignment.
    pub fn base(self) -> Option<BinOp> {
        Some(match self {
            OrA => BOr, XorA => BXor, AndA => BAnd, ShlA => Shl, ShrA => Shr, AddA => Add,
            SubA => Sub, MulA => Mul, DivA => Div, RemA => Rem,
            _ => return None,
        })
    }
}

#[derive(Clone, Copy, Debug, PartialEq, Eq, Hash, Serialize, Deserialize)]
pub enum PreOp { Plus, Minus, Not, LNot, Inc, Dec }
pub const PREOPS: [PreOp; 6] = [PreOp::Plus, PreOp::Minus, PreOp::Not, PreOp::LNot, PreOp::Inc, PreOp::Dec];
impl PreOp {
    pub fn text(self) -> &'static str {
        match self { PreOp::Plus => "+", PreOp::Minus => "-", PreOp::Not => "~", PreOp::LNot => "!", PreOp::Inc => "++", PreOp::Dec => "--" }
    }
}

#[derive(Clone, Debug, PartialEq, Eq, Hash, Serialize, Deserialize)]
pub enum Expr {
    /// non-negative constant with radix (10, 8, 16)
    Num(u64, u8),
    Var(String),
    Pre(PreOp, Box<Expr>),
    /// postfix ++ (true) or -- (false)
    Post(bool, Box<Expr>),
    Bin(BinOp, Box<Expr>, Box<Expr>),
    Cond(Box<Expr>, Box<Expr>, Box<Expr>),
    /// redundant parentheses
    Paren(Box<Expr>),
}

impl Expr {
    fn level(&self) -> u8 {
        match self {
            Expr::Num(..) | Expr::Var(_) | Expr::Paren(_) => 15,
            Expr::Post(..) => 14,
            Expr::Pre(..) => 13,
            Expr::Bin(op, ..) => op.level(),
            Expr::Cond(..) => 2,
        }
    }
    pub fn has_operator(&self) -> bool {
        !matches!(self, Expr::Num(..) | Expr::Var(_))
    }
    pub fn depth(&self) -> usize {
        match self {
            Expr::Num(..) | Expr::Var(_) => 0,
            Expr::Pre(_, e) | Expr::Post(_, e) | Expr::Paren(e) => 1 + e.depth(),
            Expr::Bin(_, l, r) => 1 + l.depth().max(r.depth()),
            Expr::Cond(c, t, e) => 1 + c.depth().max(t.depth()).max(e.depth()),
        }
    }
}

// -------------------------------------------------------------------------------------------
// Rendering with minimal parentheses

fn tokens(e: &Expr, out: &mut Vec<String>) {
    fn wrap(e: &Expr, need: bool, out: &mut Vec<String>) {
        if need {
            out.push("(".into());
            tokens(e, out);
            out.push(")".into());
        } else {
            tokens(e, out);
        }
    }
    match e {
        Expr::Num(v, radix) => out.push(match radix {
            8 => format!("0{v:o}"),
            16 => format!("0x{v:X}"),
            _ => format!("{v}"),
        }),
        Expr::Var(n) => out.push(n.clone()),
        Expr::Paren(e) => wrap(e, true, out),
        Expr::Pre(op, x) => {
            out.push(op.text().into());
            wrap(x, x.level() < 13, out);
        }
        Expr::Post(inc, x) => {
            wrap(x, x.level() < 14, out);
            out.push(if *inc { "++" } else { "--" }.into());
        }
        Expr::Bin(op, l, r) => {
            let lv = op.level();
            if op.is_assign() {
                // right associative; the left operand must be a unary expression in C
                wrap(l, l.level() < 13, out);
                out.push(op.text().into());
                wrap(r, r.level() < 1, out);
            } else {
                wrap(l, l.level() < lv, out);
                out.push(op.text().into());
                wrap(r, r.level() <= lv, out);
            }
        }
        Expr::Cond(c, t, f) => {
            wrap(c, c.level() <= 2, out);
            out.push("?".into());
            wrap(t, false, out);
            out.push(":".into());
            wrap(f, f.level() < 2, out);
        }
    }
}

fn is_op_token(t: &str) -> bool {
    !t.is_empty()
        && t != "("
        && t != ")"
        && !t.chars().next().unwrap().is_alphanumeric()
        && !t.starts_with('_')
}

/// Renders the expression. `blanks` decides pseudo-randomly where optional blanks go; blanks that
/// are needed to keep two operator tokens apart are always emitted.
pub fn render(e: &Expr, blanks: u32) -> String {
    let mut toks = vec![];
    tokens(e, &mut toks);
    let mut s = String::new();
    let mut state = blanks as u64 | 1 << 40;
    for (i, t) in toks.iter().enumerate() {
        if i > 0 {
            let prev = &toks[i - 1];
            let must = is_op_token(prev) && is_op_token(t);
            state = state.wrapping_mul(6364136223846793005).wrapping_add(1442695040888963407);
            let opt = blanks != 0 && (state >> 33) % 3 == 0;
            if must || opt {
                s.push(' ');
                if blanks != 0 && (state >> 40) % 7 == 0 {
                    s.push_str(if (state >> 45) % 2 == 0 { "\t" } else { "\n " });
                }
            }
        }
        s.push_str(t);
    }
    if blanks % 5 == 1 {
        s.insert(0, ' ');
        s.push(' ');
    }
    s
}

// -------------------------------------------------------------------------------------------
// Reference model

#[derive(Clone, Debug, PartialEq, Eq)]
pub enum Expect {
    /// must be exactly this value, with exactly this final environment
    Value(i64, BTreeMap<String, String>),
    /// must be an error
    Error,
    /// error or this natural value are both acceptable
    Either(i64, BTreeMap<String, String>),
    /// no judgement
    Unspecified(&'static str),
}

enum Stop {
    Error,
    Unspec(&'static str),
}

struct Model {
    env: BTreeMap<String, String>,
    lenient: bool,
}

fn parse_var_text(text: &str) -> Result<i64, Stop> {
    // Documented / required: decimal with optional minus sign (what the shell itself assigns),
    // and any C integer constant (decimal, octal, hexadecimal).
    let (neg, body) = match text.strip_prefix('-') {
        Some(b) => (true, b),
        None => (false, text),
    };
    if body.is_empty() || !body.chars().all(|c| c.is_ascii_alphanumeric()) {
        // empty values, blanks, "+5", nested expressions ...: shells differ
        return Err(Stop::Unspec("variable value is not a plain integer constant"));
    }
    let mag: Option<i128> = if let Some(h) = body.strip_prefix("0x").or_else(|| body.strip_prefix("0X")) {
        i128::from_str_radix(h, 16).ok()
    } else if body.len() > 1 && body.starts_with('0') {
        i128::from_str_radix(body, 8).ok()
    } else {
        body.parse::<i128>().ok()
    };
    let Some(mag) = mag else {
        if body.chars().next().unwrap().is_ascii_digit() {
            return Err(Stop::Error); // looks like a constant but is not one / too large
        }
        return Err(Stop::Unspec("variable value is a name (recursive evaluation is an extension)"));
    };
    if neg && (body.starts_with('0') && body.len() > 1) {
        return Err(Stop::Unspec("signed non-decimal variable value"));
    }
    let v = if neg { -mag } else { mag };
    i64::try_from(v).map_err(|_| Stop::Error)
}

impl Model {
    fn read(&self, name: &str) -> Result<i64, Stop> {
        match self.env.get(name) {
            None => Ok(0),
            Some(t) => parse_var_text(t),
        }
    }
    fn write(&mut self, name: &str, v: i64) {
        self.env.insert(name.to_string(), v.to_string());
    }

    fn bin(&mut self, op: BinOp, l: i64, r: i64) -> Result<i64, Stop> {
        let (a, b) = (l as i128, r as i128);
        let exact: i128 = match op {
            BOr => (l | r) as i128,
            BXor => (l ^ r) as i128,
            BAnd => (l & r) as i128,
            Eq => (l == r) as i128,
            Ne => (l != r) as i128,
            Lt => (l < r) as i128,
            Gt => (l > r) as i128,
            Le => (l <= r) as i128,
            Ge => (l >= r) as i128,
            Add => a + b,
            Sub => a - b,
            Mul => a * b,
            Div => {
                if r == 0 {
                    return Err(Stop::Error);
                }
                a / b
            }
            Rem => {
                if r == 0 {
                    return Err(Stop::Error);
                }
                if l == i64::MIN && r == -1 {
                    // C: undefined because the quotient overflows; natural value 0
                    self.lenient = true;
                    0
                } else {
                    a % b
                }
            }
            Shl => {
                if !(0..64).contains(&r) {
                    return Err(Stop::Error);
                }
                if l < 0 {
                    // C: undefined; natural value if it fits
                    let v = a << r;
                    if i64::try_from(v).is_err() {
                        return Err(Stop::Error);
                    }
                    self.lenient = true;
                    v
                } else {
                    a << r
                }
            }
            Shr => {
                if !(0..64).contains(&r) {
                    return Err(Stop::Error);
                }
                if l < 0 {
                    self.lenient = true; // implementation-defined in C
                }
                a >> r
            }
            LOr | LAnd | Assign | OrA | XorA | AndA | ShlA | ShrA | AddA | SubA | MulA | DivA
            | RemA => unreachable!(),
        };
        i64::try_from(exact).map_err(|_| Stop::Error)
    }

    fn eval(&mut self, e: &Expr) -> Result<i64, Stop> {
        match e {
            Expr::Num(v, _) => i64::try_from(*v).map_err(|_| Stop::Error),
            Expr::Var(n) => self.read(n),
            Expr::Paren(x) => self.eval(x),
            Expr::Pre(op, x) => match op {
                PreOp::Inc | PreOp::Dec => {
                    let Expr::Var(n) = &**x else { return Err(Stop::Error) };
                    let v = self.read(n)?;
                    let nv = if *op == PreOp::Inc { v.checked_add(1) } else { v.checked_sub(1) };
                    let nv = nv.ok_or(Stop::Error)?;
                    self.write(n, nv);
                    Ok(nv)
                }
                _ => {
                    let v = self.eval(x)?;
                    match op {
                        PreOp::Plus => Ok(v),
                        PreOp::Minus => v.checked_neg().ok_or(Stop::Error),
                        PreOp::Not => Ok(!v),
                        PreOp::LNot => Ok((v == 0) as i64),
                        _ => unreachable!(),
                    }
                }
            },
            Expr::Post(inc, x) => {
                let Expr::Var(n) = &**x else { return Err(Stop::Error) };
                let v = self.read(n)?;
                let nv = if *inc { v.checked_add(1) } else { v.checked_sub(1) };
                let nv = nv.ok_or(Stop::Error)?;
                self.write(n, nv);
                Ok(v)
            }
            Expr::Cond(c, t, f) => {
                if self.eval(c)? != 0 { self.eval(t) } else { self.eval(f) }
            }
            Expr::Bin(op, l, r) => match op {
                LOr => {
                    if self.eval(l)? != 0 { Ok(1) } else { Ok((self.eval(r)? != 0) as i64) }
                }
                LAnd => {
                    if self.eval(l)? == 0 { Ok(0) } else { Ok((self.eval(r)? != 0) as i64) }
                }
                Assign => {
                    let Expr::Var(n) = &**l else { return Err(Stop::Error) };
                    let v = self.eval(r)?;
                    self.write(n, v);
                    Ok(v)
                }
                _ if op.is_assign() => {
                    let Expr::Var(n) = &**l else { return Err(Stop::Error) };
                    // operands are unsequenced, but conflicting cases are excluded beforehand, so
                    // the order of these two reads does not matter for the value; it matters for
                    // *which* error is reported, which is not compared.
                    let lv = self.read(n);
                    let rv = self.eval(r);
                    let (lv, rv) = (lv?, rv?);
                    let v = self.bin(op.base().unwrap(), lv, rv)?;
                    self.write(n, v);
                    Ok(v)
                }
                _ => {
                    let lv = self.eval(l);
                    let rv = self.eval(r);
                    let (lv, rv) = match (lv, rv) {
                        (Ok(a), Ok(b)) => (a, b),
                        // an unspecified operand makes the whole thing unspecified even if the
                        // other operand is a definite error
                        (Err(Stop::Unspec(w)), _) | (_, Err(Stop::Unspec(w))) => return Err(Stop::Unspec(w)),
                        (Err(e), _) | (_, Err(e)) => return Err(e),
                    };
                    self.bin(*op, lv, rv)
                }
            },
        }
    }
}

/// Variables read and written by an expression (conservative: both branches of ?: count).
fn effects(e: &Expr, reads: &mut Vec<String>, writes: &mut Vec<String>) -> bool {
    // returns false if an unsequenced conflict is found
    match e {
        Expr::Num(..) => true,
        Expr::Var(n) => {
            reads.push(n.clone());
            true
        }
        Expr::Paren(x) => effects(x, reads, writes),
        Expr::Pre(op, x) => {
            if matches!(op, PreOp::Inc | PreOp::Dec) {
                if let Expr::Var(n) = &**x {
                    writes.push(n.clone());
                    reads.push(n.clone());
                    return true;
                }
            }
            effects(x, reads, writes)
        }
        Expr::Post(_, x) => {
            if let Expr::Var(n) = &**x {
                writes.push(n.clone());
                reads.push(n.clone());
                return true;
            }
            effects(x, reads, writes)
        }
        Expr::Cond(c, t, f) => {
            effects(c, reads, writes) && effects(t, reads, writes) && effects(f, reads, writes)
        }
        Expr::Bin(op, l, r) => {
            let (mut lr, mut lw, mut rr, mut rw) = (vec![], vec![], vec![], vec![]);
            if op.is_assign() {
                if let Expr::Var(n) = &**l {
                    if !effects(r, &mut rr, &mut rw) {
                        return false;
                    }
                    if rw.contains(n) {
                        return false;
                    }
                    reads.extend(rr);
                    writes.extend(rw);
                    writes.push(n.clone());
                    reads.push(n.clone());
                    return true;
                }
            }
            if !effects(l, &mut lr, &mut lw) || !effects(r, &mut rr, &mut rw) {
                return false;
            }
            let sequenced = matches!(op, LOr | LAnd);
            if !sequenced {
                if lw.iter().any(|w| rr.contains(w) || rw.contains(w))
                    || rw.iter().any(|w| lr.contains(w) || lw.contains(w))
                {
                    return false;
                }
            }
            reads.extend(lr);
            reads.extend(rr);
            writes.extend(lw);
            writes.extend(rw);
            true
        }
    }
}

/// Is this tree something C's grammar accepts *as rendered by `render`*? (`render` parenthesises
/// by precedence, so the only remaining grammar constraints are the lvalue ones.)
fn lvalues_ok(e: &Expr) -> bool {
    match e {
        Expr::Num(..) | Expr::Var(_) => true,
        Expr::Paren(x) => lvalues_ok(x),
        Expr::Pre(op, x) => {
            (!matches!(op, PreOp::Inc | PreOp::Dec) || matches!(**x, Expr::Var(_))) && lvalues_ok(x)
        }
        Expr::Post(_, x) => matches!(**x, Expr::Var(_)),
        Expr::Bin(op, l, r) => {
            (!op.is_assign() || matches!(**l, Expr::Var(_))) && lvalues_ok(l) && lvalues_ok(r)
        }
        Expr::Cond(c, t, f) => lvalues_ok(c) && lvalues_ok(t) && lvalues_ok(f),
    }
}

fn has_paren_lvalue(e: &Expr) -> bool {
    fn is_pv(e: &Expr) -> bool {
        match e {
            Expr::Paren(x) => matches!(**x, Expr::Var(_)) || is_pv(x),
            _ => false,
        }
    }
    match e {
        Expr::Num(..) | Expr::Var(_) => false,
        Expr::Paren(x) => has_paren_lvalue(x),
        Expr::Pre(op, x) => (matches!(op, PreOp::Inc | PreOp::Dec) && is_pv(x)) || has_paren_lvalue(x),
        Expr::Post(_, x) => is_pv(x) || has_paren_lvalue(x),
        Expr::Bin(op, l, r) => (op.is_assign() && is_pv(l)) || has_paren_lvalue(l) || has_paren_lvalue(r),
        Expr::Cond(c, t, f) => has_paren_lvalue(c) || has_paren_lvalue(t) || has_paren_lvalue(f),
    }
}

pub fn model_eval(e: &Expr, env: &BTreeMap<String, String>) -> Expect {
    if has_paren_lvalue(e) {
        // `(a)=1` is valid C; whether a shell accepts it is not pinned down by POSIX
        return Expect::Unspecified("parenthesised lvalue");
    }
    if !lvalues_ok(e) {
        // `1=2`, `++1`, `(a)++` is fine in C but never generated: constraint violation => error.
        // An error is demanded only if the offending operator would actually be evaluated; to
        // stay sound we demand an error only when the expression has no short-circuit operator.
        fn has_lazy(e: &Expr) -> bool {
            match e {
                Expr::Num(..) | Expr::Var(_) => false,
                Expr::Paren(x) | Expr::Pre(_, x) | Expr::Post(_, x) => has_lazy(x),
                Expr::Bin(op, l, r) => matches!(op, LOr | LAnd) || has_lazy(l) || has_lazy(r),
                Expr::Cond(..) => true,
            }
        }
        if has_lazy(e) {
            return Expect::Unspecified("non-lvalue operand under a lazy operator");
        }
        // also: another error may come first; any error is fine.
        return Expect::Error;
    }
    fn has_oversize_constant(e: &Expr) -> bool {
        match e {
            Expr::Num(v, _) => *v > i64::MAX as u64,
            Expr::Var(_) => false,
            Expr::Paren(x) | Expr::Pre(_, x) | Expr::Post(_, x) => has_oversize_constant(x),
            Expr::Bin(_, l, r) => has_oversize_constant(l) || has_oversize_constant(r),
            Expr::Cond(c, t, f) => has_oversize_constant(c) || has_oversize_constant(t) || has_oversize_constant(f),
        }
    }
    if has_oversize_constant(e) {
        // C: an integer constant that fits no type is a constraint violation wherever it occurs,
        // evaluated or not
        return Expect::Error;
    }
    if !effects(e, &mut vec![], &mut vec![]) {
        return Expect::Unspecified("unsequenced side effects");
    }
    let mut m = Model { env: env.clone(), lenient: false };
    match m.eval(e) {
        Ok(v) => {
            if m.lenient {
                Expect::Either(v, m.env)
            } else {
                Expect::Value(v, m.env)
            }
        }
        Err(Stop::Error) => Expect::Error,
        Err(Stop::Unspec(w)) => Expect::Unspecified(w),
    }
}

// -------------------------------------------------------------------------------------------
// Cases and checks

#[derive(Clone, Debug, Serialize, Deserialize)]
pub struct TreeCase {
    pub expr: Expr,
    pub env: BTreeMap<String, String>,
    pub blanks: u32,
}

pub fn run_real(text: &str, env: &BTreeMap<String, String>) -> (Result<i64, String>, BTreeMap<String, String>) {
    let mut e = env.clone();
    let r = yash_arith::eval(text, &mut e);
    let r = match r {
        Ok(yash_arith::Value::Integer(i)) => Ok(i),
        Ok(_) => Err("non-integer value".to_string()),
        Err(err) => {
            Err(format!("{}", err.cause))
        }
    };
    (r, e)
}

fn check_tree(c: &TreeCase) -> Outcome {
    let text = render(&c.expr, c.blanks);
    let expect = model_eval(&c.expr, &c.env);
    let (got, genv) = run_real(&text, &c.env);
    let nontrivial = c.expr.has_operator();
    let out = match (&expect, &got) {
        (Expect::Unspecified(w), _) => return Outcome::skip(w),
        (Expect::Value(v, env), Ok(g)) => {
            if g != v {
                Outcome::fail(format!("`{text}` = {g}, reference {v}"))
            } else if &genv != env {
                Outcome::fail(format!("`{text}`: variables after evaluation {genv:?}, reference {env:?}"))
            } else {
                Outcome::pass(nontrivial).class("value")
            }
        }
        (Expect::Value(v, _), Err(e)) => Outcome::fail(format!("`{text}` failed with `{e}`, reference {v}")),
        (Expect::Error, Ok(g)) => Outcome::fail(format!("`{text}` = {g}, reference says error (unrepresentable/undefined)")),
        (Expect::Error, Err(_)) => Outcome::pass(nontrivial).class("error"),
        (Expect::Either(v, env), Ok(g)) => {
            if g != v || &genv != env {
                Outcome::fail(format!("`{text}` = {g} (vars {genv:?}), reference: error or {v} (vars {env:?})"))
            } else {
                Outcome::pass(nontrivial).class("impl-defined:value")
            }
        }
        (Expect::Either(..), Err(_)) => Outcome::pass(nontrivial).class("impl-defined:error"),
    };
    out
}

pub static TREE: Driver<TreeCase> = Driver::new("C03", "tree", check_tree);

// ---- text cases: soup and arbitrary text: totality only ----

#[derive(Clone, Debug, Serialize, Deserialize)]
pub struct TextCase {
    pub text: String,
    pub env: BTreeMap<String, String>,
}

fn check_text(c: &TextCase) -> Outcome {
    // Oracle: terminates without panic (panic is caught by the driver), error location sane
    // (asserted in run_real), deterministic, and leaves variables alone when it fails in the
    // tokenizer/parser (no evaluation may have happened on a syntax error).
    let (r1, e1) = run_real(&c.text, &c.env);
    let (r2, e2) = run_real(&c.text, &c.env);
    if r1 != r2 || e1 != e2 {
        return Outcome::fail(format!("non-deterministic result for {:?}", c.text));
    }
    let mut e = c.env.clone();
    let syntax_error = matches!(
        yash_arith::eval(&c.text, &mut e),
        Err(yash_arith::Error { cause: yash_arith::ErrorCause::SyntaxError(_), .. })
    );
    if syntax_error && e1 != c.env {
        return Outcome::fail(format!("syntax error in {:?} but variables changed to {:?}", c.text, e1));
    }
    Outcome::pass(!c.text.trim().is_empty())
        .class(if r1.is_ok() { "ok" } else if syntax_error { "syntax-error" } else { "eval-error" })
}

pub static TEXT: Driver<TextCase> = Driver::new("C03", "text", check_text);

// ---- metamorphic: variable holding constant text vs the text ----

#[derive(Clone, Debug, Serialize, Deserialize)]
pub struct ConstCase {
    pub text: String,
    /// expression over the variable `x`: "x", "x+1", "x+=1", ...
    pub template: String,
    /// the same expression over `K`, to be replaced by the constant text in parentheses
    pub direct: String,
}

fn check_const(c: &ConstCase) -> Outcome {
    let env0 = BTreeMap::new();
    let direct_text = c.direct.replace('K', &format!("({})", c.text));
    let (direct, _) = run_real(&direct_text, &env0);
    let mut env = BTreeMap::new();
    env.insert("x".to_string(), c.text.clone());
    let (via_var, _) = run_real(&c.template, &env);
    match (direct, via_var) {
        (Ok(a), Ok(b)) if a == b => Outcome::pass(true).class("agree-value"),
        (Err(_), Err(_)) => Outcome::pass(true).class("agree-error"),
        (a, b) => Outcome::fail(format!(
            "x={:?}: `{}` gives {:?} but `{}` gives {:?}",
            c.text, c.template, b, direct_text, a
        )),
    }
}

pub static CONST: Driver<ConstCase> = Driver::new("C03", "const-var", check_const);

// -------------------------------------------------------------------------------------------
// Generators

const LEAF_NUMS: [u64; 7] = [0, 1, 2, 63, 64, 1 << 31, i64::MAX as u64];
const LEAF_VARS: [&str; 2] = ["a", "b"];

fn leaf(i: u64) -> Expr {
    if (i as usize) < LEAF_NUMS.len() {
        Expr::Num(LEAF_NUMS[i as usize], 10)
    } else {
        Expr::Var(LEAF_VARS[i as usize - LEAF_NUMS.len()].to_string())
    }
}
const NLEAF: u64 = (LEAF_NUMS.len() + LEAF_VARS.len()) as u64;

/// Number of trees of depth <= d in the enumeration. Assignment operators and ++/-- take only
/// variables as their lvalue operand (non-lvalue operands are covered by the random tier).
fn count(d: u32) -> u64 {
    if d == 0 {
        return NLEAF;
    }
    let s = count(d - 1);
    let nv = LEAF_VARS.len() as u64;
    let cond = if d == 1 { NLEAF * NLEAF * NLEAF } else { 3 * s * NLEAF * NLEAF };
    NLEAF + 18 * s * s + 11 * nv * s + 4 * s + 4 * nv + cond
}

fn var(i: u64) -> Expr {
    Expr::Var(LEAF_VARS[i as usize].to_string())
}

fn nth(d: u32, mut i: u64) -> Expr {
    if d == 0 || i < NLEAF {
        return leaf(i);
    }
    i -= NLEAF;
    let s = count(d - 1);
    let nv = LEAF_VARS.len() as u64;
    if i < 18 * s * s {
        let op = BINOPS[(i / (s * s)) as usize];
        let rest = i % (s * s);
        return Expr::Bin(op, Box::new(nth(d - 1, rest / s)), Box::new(nth(d - 1, rest % s)));
    }
    i -= 18 * s * s;
    if i < 11 * nv * s {
        let op = BINOPS[18 + (i / (nv * s)) as usize];
        let rest = i % (nv * s);
        return Expr::Bin(op, Box::new(var(rest / s)), Box::new(nth(d - 1, rest % s)));
    }
    i -= 11 * nv * s;
    if i < 4 * s {
        return Expr::Pre(PREOPS[(i / s) as usize], Box::new(nth(d - 1, i % s)));
    }
    i -= 4 * s;
    if i < 4 * nv {
        let v = Box::new(var(i % nv));
        return match i / nv {
            0 => Expr::Pre(PreOp::Inc, v),
            1 => Expr::Pre(PreOp::Dec, v),
            2 => Expr::Post(true, v),
            _ => Expr::Post(false, v),
        };
    }
    i -= 4 * nv;
    if d == 1 {
        let (c, t, f) = (i / (NLEAF * NLEAF), (i / NLEAF) % NLEAF, i % NLEAF);
        Expr::Cond(Box::new(leaf(c)), Box::new(leaf(t)), Box::new(leaf(f)))
    } else {
        let which = i / (s * NLEAF * NLEAF);
        let rest = i % (s * NLEAF * NLEAF);
        let big = nth(d - 1, rest / (NLEAF * NLEAF));
        let (x, y) = (leaf((rest / NLEAF) % NLEAF), leaf(rest % NLEAF));
        match which {
            0 => Expr::Cond(Box::new(big), Box::new(x), Box::new(y)),
            1 => Expr::Cond(Box::new(x), Box::new(big), Box::new(y)),
            _ => Expr::Cond(Box::new(x), Box::new(y), Box::new(big)),
        }
    }
}

fn uses_var(e: &Expr) -> bool {
    match e {
        Expr::Num(..) => false,
        Expr::Var(_) => true,
        Expr::Paren(x) | Expr::Pre(_, x) | Expr::Post(_, x) => uses_var(x),
        Expr::Bin(_, l, r) => uses_var(l) || uses_var(r),
        Expr::Cond(c, t, f) => uses_var(c) || uses_var(t) || uses_var(f),
    }
}

fn envs() -> Vec<BTreeMap<String, String>> {
    let mk = |a: Option<&str>, b: Option<&str>| {
        let mut m = BTreeMap::new();
        if let Some(a) = a {
            m.insert("a".to_string(), a.to_string());
        }
        if let Some(b) = b {
            m.insert("b".to_string(), b.to_string());
        }
        m
    };
    vec![
        mk(None, None),
        mk(Some("1"), Some("-1")),
        mk(Some("9223372036854775807"), Some("-9223372036854775808")),
        mk(Some("63"), Some("64")),
        mk(Some("-1"), Some("0")),
        mk(Some("010"), Some("0x1F")),
    ]
}

fn arb_leaf() -> impl Strategy<Value = Expr> {
    prop_oneof![
        4 => prop_oneof![
            Just(0u64), Just(1), Just(2), Just(3), Just(7), Just(31), Just(32), Just(62), Just(63), Just(64), Just(65),
            Just(1 << 31), Just((1 << 31) - 1), Just(1 << 32), Just(i64::MAX as u64), Just(i64::MAX as u64 - 1),
            Just(1u64 << 62), Just(3037000500), Just(u64::MAX), Just(1u64 << 63),
            0u64..1000, any::<u64>().prop_map(|v| v >> 1), any::<u32>().prop_map(|v| v as u64),
        ].prop_flat_map(|v| prop_oneof![4 => Just(10u8), 1 => Just(8u8), 1 => Just(16u8)].prop_map(move |r| Expr::Num(v, r))),
        3 => prop_oneof![Just("a"), Just("b"), Just("c"), Just("_x1"), Just("u")].prop_map(|s| Expr::Var(s.to_string())),
    ]
}

pub fn arb_expr(depth: u32) -> impl Strategy<Value = Expr> {
    arb_leaf().prop_recursive(depth, 64, 3, |inner| {
        prop_oneof![
            10 => (0usize..29, inner.clone(), inner.clone()).prop_map(|(o, l, r)| {
                let op = BINOPS[o];
                // assignments get a variable on the left most of the time
                Expr::Bin(op, Box::new(l), Box::new(r))
            }),
            4 => (18usize..29, prop_oneof![Just("a"), Just("b"), Just("c")], inner.clone())
                .prop_map(|(o, v, r)| Expr::Bin(BINOPS[o], Box::new(Expr::Var(v.to_string())), Box::new(r))),
            3 => (0usize..4, inner.clone()).prop_map(|(o, x)| Expr::Pre(PREOPS[o], Box::new(x))),
            2 => (4usize..6, prop_oneof![Just("a"), Just("b"), Just("c")]).prop_map(|(o, v)| Expr::Pre(PREOPS[o], Box::new(Expr::Var(v.to_string())))),
            2 => (any::<bool>(), prop_oneof![Just("a"), Just("b"), Just("c")]).prop_map(|(i, v)| Expr::Post(i, Box::new(Expr::Var(v.to_string())))),
            3 => (inner.clone(), inner.clone(), inner.clone()).prop_map(|(c, t, f)| Expr::Cond(Box::new(c), Box::new(t), Box::new(f))),
            1 => inner.clone().prop_map(|x| Expr::Paren(Box::new(x))),
        ]
    })
}

fn arb_value_text() -> impl Strategy<Value = String> {
    prop_oneof![
        Just("0".to_string()), Just("1".to_string()), Just("-1".to_string()), Just("5".to_string()),
        Just("63".to_string()), Just("64".to_string()), Just("-9223372036854775808".to_string()),
        Just("9223372036854775807".to_string()), Just("9223372036854775808".to_string()),
        Just("010".to_string()), Just("0x10".to_string()), Just("0X1f".to_string()), Just("08".to_string()),
        Just("".to_string()), Just("x".to_string()), Just("+5".to_string()), Just("-0".to_string()), Just(" 1".to_string()),
        Just("1 ".to_string()), Just("1+1".to_string()), Just("b".to_string()),
        // just outside the representable range on either side, and far outside
        Just("-9223372036854775809".to_string()), Just("-9223372036854775810".to_string()), Just("-18446744073709551615".to_string()),
        Just("-18446744073709551616".to_string()), Just("18446744073709551615".to_string()), Just("18446744073709551616".to_string()),
        any::<u64>().prop_map(|v| format!("-{v}")),
        any::<i64>().prop_map(|v| v.to_string()),
        (-100i64..100).prop_map(|v| v.to_string()),
    ]
}

pub fn arb_tree_case() -> impl Strategy<Value = TreeCase> {
    (arb_expr(6), arb_env(), any::<u32>()).prop_map(|(expr, env, blanks)| TreeCase { expr, env, blanks })
}

pub fn arb_env_pub() -> impl Strategy<Value = BTreeMap<String, String>> {
    arb_env()
}

pub fn arb_soup_pub() -> impl Strategy<Value = String> {
    arb_soup()
}

fn arb_env() -> impl Strategy<Value = BTreeMap<String, String>> {
    proptest::collection::btree_map(
        prop_oneof![Just("a".to_string()), Just("b".to_string()), Just("c".to_string()), Just("_x1".to_string())],
        arb_value_text(),
        0..4,
    )
}

const SOUP: &[&str] = &[
    "0", "1", "2", "9", "10", "077", "08", "0x", "0x1F", "0X0", "9223372036854775807", "9223372036854775808",
    "18446744073709551616", "a", "b", "_", "a1", "1a", "é", "٣", " ", "\t", "\n", "(", ")", "?", ":", "|", "||", "|=", "^", "^=",
    "&", "&&", "&=", "=", "==", "!", "!=", "<", "<=", "<<", "<<=", ">", ">=", ">>", ">>=", "+", "++", "+=", "-", "--",
    "-=", "*", "*=", "/", "/=", "%", "%=", "~", ",", "$", "#", "'", "\"", "\\", ".", "1.5", "1e3", "[", "]", "{", "}", "@", ";",
    "\u{3000}", "\u{0}", "🙂",
];

fn arb_soup() -> impl Strategy<Value = String> {
    proptest::collection::vec(0usize..SOUP.len(), 0..14).prop_map(|v| v.into_iter().map(|i| SOUP[i]).collect::<String>())
}

// -------------------------------------------------------------------------------------------

pub fn run(ctx: &Ctx, st: &mut Stats) {
    let envs = envs();
    let depth = 2;
    let total_trees = count(depth);
    let nenv = envs.len() as u64;
    // thorough: full depth-2 space; quick: every depth-1 tree and a fixed stride through depth 2
    let stride: u64 = ctx.tier.pick(37, 1);
    let offset = ctx.seed % stride;
    let envs_ref = &envs;
    let decode = move |i: u64| -> Option<TreeCase> {
        let (ti, ei) = (i / nenv, i % nenv);
        let ti = if ti < count(1) { ti } else { count(1) + (ti - count(1)) * stride + offset };
        if ti >= total_trees {
            return None;
        }
        let expr = nth(depth, ti);
        if ei != 0 && !uses_var(&expr) {
            return None;
        }
        Some(TreeCase { expr, env: envs_ref[ei as usize].clone(), blanks: 0 })
    };
    let n_indices = (count(1) + (total_trees - count(1)).div_ceil(stride)) * nenv;
    TREE.run_exhaustive(ctx, st, n_indices, &decode);
    st.extra.insert("tree_space".into(), serde_json::json!({"depth": depth, "trees": total_trees, "envs": nenv, "stride": stride}));
    if stride != 1 {
        // a strided walk is not exhaustive over the depth-2 space
        st.exhaustive_drivers.retain(|d| d != "tree");
    }

    // random deeper trees
    let n = ctx.tier.pick(200_000, 6_000_000);
    TREE.run_random(ctx, st, n, arb_tree_case);

    // token soup and arbitrary text
    let n = ctx.tier.pick(150_000, 4_000_000);
    TEXT.run_random(ctx, st, n, || (arb_soup(), arb_env()).prop_map(|(text, env)| TextCase { text, env }));
    TEXT.run_random(ctx, st, n / 3, || {
        (".{0,24}", arb_env()).prop_map(|(text, env)| TextCase { text, env })
    });
    // mutated renderings of valid expressions (drop / duplicate one char)
    TEXT.run_random(ctx, st, n / 3, || {
        (arb_expr(4), any::<u32>(), any::<u16>(), any::<bool>(), arb_env()).prop_map(|(e, b, pos, dup, env)| {
            let mut chars: Vec<char> = render(&e, b).chars().collect();
            if !chars.is_empty() {
                let p = pick_idx(pos, chars.len());
                if dup {
                    let c = chars[p];
                    chars.insert(p, c);
                } else {
                    chars.remove(p);
                }
            }
            TextCase { text: chars.into_iter().collect(), env }
        })
    });

    // metamorphic: constants through variables
    let mut consts = vec![];
    let templates: [(&str, &str); 16] = [
        ("x", "K"), ("x+1", "K+1"), ("-x", "-K"), ("x*2", "K*2"), ("x==8", "K==8"), ("y=x", "y=K"), ("x<<1", "K<<1"),
        ("x|0", "K|0"), ("!x", "!K"), ("x?x:0", "K?K:0"), ("x+=1", "K+1"), ("x++", "K+1-1"), ("++x", "K+1"), ("~x", "~K"),
        ("x--", "K-1+1"), ("x<<=2", "K<<2"),
    ];
    let mut texts: Vec<String> = vec![];
    for v in [0u64, 1, 7, 8, 9, 10, 15, 16, 17, 63, 64, 255, 4095, 1 << 31, (1 << 32) + 5, i64::MAX as u64, i64::MAX as u64 - 1] {
        texts.push(format!("{v}"));
        texts.push(format!("0{v:o}"));
        texts.push(format!("0x{v:x}"));
        texts.push(format!("0X{v:X}"));
        texts.push(format!("-{v}"));
        // a sign in front of an octal / hexadecimal constant, and superfluous leading zeros
        texts.push(format!("-0{v:o}"));
        texts.push(format!("+0{v:o}"));
        texts.push(format!("-0x{v:x}"));
        texts.push(format!("+0X{v:X}"));
        texts.push(format!("+{v}"));
        texts.push(format!("-000{v:o}"));
    }
    for t in ["08", "-08", "+09", "-0", "+0", "-00", "0x", "-0x", "-", "+"] {
        texts.push(t.into());
    }
    texts.push("00".into());
    texts.push("0x0".into());
    texts.push("007".into());
    for t in &texts {
        for (tpl, direct) in templates {
            consts.push(ConstCase { text: t.clone(), template: tpl.to_string(), direct: direct.to_string() });
        }
    }
    CONST.run_list(st, &consts);
    let n = ctx.tier.pick(20_000, 500_000);
    CONST.run_random(ctx, st, n, || {
        (any::<u64>(), 0u8..11, 0usize..16, 0u32..64).prop_map(move |(v, form, t, sh)| {
            // forms 5 and 6 keep the top bit: magnitudes up to 2^64-1, negative and positive
            let v = if form >= 5 { v >> (sh % 2) } else { (v >> sh) >> 1 };
            // `x=-9223372036854775808` is a valid value while `-(9223372036854775808)` applies the
            // minus to an unrepresentable constant: the one magnitude where the two readings differ
            let v = if form == 5 && v == 1 << 63 { v + 1 } else { v };
            let text = match form {
                5 => format!("-{v}"),
                6 => format!("{v}"),
                0 => format!("{v}"),
                1 => format!("0{v:o}"),
                2 => format!("0x{v:x}"),
                3 => format!("0X{v:X}"),
                7 => format!("-0{v:o}"),
                8 => format!("+0{v:o}"),
                9 => format!("-0x{v:x}"),
                10 => format!("+{v}"),
                _ => format!("-{v}"),
            };
            ConstCase { text, template: templates[t].0.to_string(), direct: templates[t].1.to_string() }
        })
    });
    super::c03_shell::run(ctx, st);
    // coverage-guided tier over the same oracles
    crate::fuzzing::tier_stage(ctx, st, &[("c03_text", 600_000), ("c03_tree", 300_000)]);
}

pub fn replay(driver: &str, case: &serde_json::Value) -> Result<(Outcome, Option<&'static str>), String> {
    match driver {
        "tree" => TREE.replay_known(case),
        "text" => TEXT.replay_known(case),
        "const-var" => CONST.replay_known(case),
        "shell" => super::c03_shell::SHELL.replay_known(case),
        "shell-text" => super::c03_shell::SHELL_TEXT.replay_known(case),
        _ => Err(format!("unknown driver {driver}")),
    }
}
