//! C16 (API half) — variable scope, lifetime and attributes behave as documented in every
//! history of `VariableSet` operations.
//!
//! Oracle: `Model`, a naive stack of maps (one `BTreeMap<String, ModelVar>` per context) that
//! implements the behaviour *documented* on `VariableSet::{get, get_scoped, get_or_new, unset,
//! iter, env_c_strings, positional_params}` and `VariableRefMut::{assign, export,
//! make_read_only}`. It never calls the code under test. The real set and the model are driven
//! in lock-step through an operation tree (contexts are RAII guards, so a push owns its body);
//! after every mutating operation, every push and every pop the complete observable state
//! (every name x every read function, every `iter` scope, the environment, the positional
//! parameters) is compared, and so is the result of every single operation.

use crate::engine::*;
use proptest::prelude::*;
use serde::{Deserialize, Serialize};
use std::collections::BTreeMap;
use std::panic::{AssertUnwindSafe, catch_unwind};
use yash_env::source::Location;
use yash_env::variable::{Context, PositionalParams, Scope, Value, Variable, VariableSet};

pub const INFO: PropInfo = PropInfo {
    id: "C16",
    level: "exploration",
    rule: "API half: cases = operation trees over VariableSet (PushRegular{params, body}, PushVolatile{body}, GetOrNew{name, scope, then: assign scalar/array, export(bool), make_read_only}, Unset{name, scope}, Read, ReadScoped, ReadScalar, Iter{scope}, EnvCStrings, PositionalParams) run in lock-step with a naive stack-of-maps model; after every mutating op, push and pop the whole observable state (get / get_scoped x3 / get_scalar of every name, iter x3, env_c_strings, positional_params) is compared, so read ops at every point are implied. Exhaustive tier: every tree of <=4 (quick) / <=5 (thorough) mutating ops at nesting <=3 over 2 names, 2 values, 8 action lists, Scope::Volatile creation only directly inside a volatile context; random tier: proptest trees of <=30 ops, nesting <=4, 3 names, with explicit read ops. Non-trivial = (>=1 volatile context pushed and >=1 moment where a variable is hidden by a same-named variable in a higher context) or an unset in Local/Volatile scope that finds the name defined somewhere or a rejected attempt to assign to / unset a read-only variable; distinct by serialised tree (random) or by index (exhaustive).",
    assumptions: &[
        "get_or_new(Global|Local) meeting the name in several volatile contexts: all of them are removed and the topmost (visible) one is the variable that is moved (doc: 'removes the variable from the volatile context and continues searching'; unit test lowering_volatile_variable_to_base_context)",
        "get_or_new(.., Scope::Volatile) while the topmost context is not volatile is a documented panic: generators avoid it, the check skips such an op on both sides",
        "an exported variable without a value contributes no NAME=VALUE string to env_c_strings; only the visible variable of a name counts (a non-exported local hides an exported global)",
        "UnsetError::read_only_location may be that of any read-only variable in the removal set when there are several",
    ],
};

// -------------------------------------------------------------------------------------------
// Cases

#[derive(Clone, Copy, Debug, PartialEq, Eq, Hash, Serialize, Deserialize)]
pub enum Sc {
    Global,
    Local,
    Volatile,
}
const SCOPES: [Sc; 3] = [Sc::Global, Sc::Local, Sc::Volatile];

impl Sc {
    fn real(self) -> Scope {
        match self {
            Sc::Global => Scope::Global,
            Sc::Local => Scope::Local,
            Sc::Volatile => Scope::Volatile,
        }
    }
}

#[derive(Clone, Debug, PartialEq, Eq, Hash, Serialize, Deserialize)]
pub enum VarAction {
    AssignScalar(String),
    AssignArray(Vec<String>),
    Export(bool),
    MakeReadOnly,
}

#[derive(Clone, Debug, PartialEq, Eq, Hash, Serialize, Deserialize)]
pub enum Op {
    PushRegular { params: Vec<String>, body: Vec<Op> },
    PushVolatile { body: Vec<Op> },
    GetOrNew { name: String, scope: Sc, then: Vec<VarAction> },
    Unset { name: String, scope: Sc },
    Read { name: String },
    ReadScoped { name: String, scope: Sc },
    ReadScalar { name: String },
    Iter { scope: Sc },
    EnvCStrings,
    PositionalParams,
}

#[derive(Clone, Debug, PartialEq, Eq, Hash, Serialize, Deserialize)]
pub struct Case {
    pub ops: Vec<Op>,
}

fn count_ops(ops: &[Op]) -> usize {
    ops.iter()
        .map(|o| match o {
            Op::PushRegular { body, .. } | Op::PushVolatile { body } => 1 + count_ops(body),
            _ => 1,
        })
        .sum()
}

// -------------------------------------------------------------------------------------------
// Reference model: a stack of maps

#[derive(Clone, Debug, PartialEq, Eq)]
enum MVal {
    Scalar(String),
    Array(Vec<String>),
}

/// What can be observed of a variable. Locations are represented by the label they were created
/// with (`Location::dummy(label)`).
#[derive(Clone, Debug, Default, PartialEq, Eq)]
struct ModelVar {
    value: Option<MVal>,
    assigned: Option<String>,
    exported: bool,
    read_only: Option<String>,
}

#[derive(Clone, Debug)]
struct MCtx {
    volatile: bool,
    params: Vec<String>,
    vars: BTreeMap<String, ModelVar>,
}

#[derive(Clone, Debug)]
struct Model {
    ctxs: Vec<MCtx>,
}

/// What the documented `get_or_new` did besides returning a variable.
#[derive(Clone, Copy, Debug, Default)]
struct GetInfo {
    moved_from_volatile: bool,
    overwrote_regular: bool,
    cloned_to_volatile: bool,
    created: bool,
}

impl Model {
    fn new() -> Self {
        Model { ctxs: vec![MCtx { volatile: false, params: vec![], vars: BTreeMap::new() }] }
    }
    fn push(&mut self, volatile: bool, params: Vec<String>) {
        self.ctxs.push(MCtx { volatile, params, vars: BTreeMap::new() });
    }
    fn pop(&mut self) {
        assert!(self.ctxs.len() > 1);
        self.ctxs.pop();
    }
    fn top_is_volatile(&self) -> bool {
        self.ctxs.last().unwrap().volatile
    }
    fn topmost_regular(&self) -> usize {
        self.ctxs.iter().rposition(|c| !c.volatile).expect("base context is regular")
    }
    /// Index of the lowest context a scope looks at.
    fn lower_bound(&self, scope: Sc) -> usize {
        match scope {
            Sc::Global => 0,
            Sc::Local => self.topmost_regular(),
            Sc::Volatile => self.topmost_regular() + 1,
        }
    }
    /// The visible variable: the one in the topmost context that defines the name.
    fn visible(&self, name: &str) -> Option<(usize, &ModelVar)> {
        self.ctxs.iter().enumerate().rev().find_map(|(i, c)| c.vars.get(name).map(|v| (i, v)))
    }
    fn get(&self, name: &str) -> Option<&ModelVar> {
        self.visible(name).map(|(_, v)| v)
    }
    fn get_scoped(&self, name: &str, scope: Sc) -> Option<&ModelVar> {
        let lb = self.lower_bound(scope);
        self.ctxs[lb.min(self.ctxs.len())..].iter().rev().find_map(|c| c.vars.get(name))
    }
    fn get_scalar(&self, name: &str) -> Option<&str> {
        match &self.get(name)?.value {
            Some(MVal::Scalar(s)) => Some(s),
            _ => None,
        }
    }

    /// Documented `get_or_new`. Returns the index of the context that holds the returned
    /// variable, or `None` for the documented panic (Volatile scope without a volatile top).
    fn get_or_new(&mut self, name: &str, scope: Sc) -> Option<(usize, GetInfo)> {
        let mut info = GetInfo::default();
        match scope {
            Sc::Global | Sc::Local => {
                let target = if scope == Sc::Global { 0 } else { self.topmost_regular() };
                let mut moved: Option<ModelVar> = None;
                for i in (target..self.ctxs.len()).rev() {
                    if !self.ctxs[i].vars.contains_key(name) {
                        continue;
                    }
                    if self.ctxs[i].volatile {
                        // removed from the volatile context; the search continues below
                        let v = self.ctxs[i].vars.remove(name).unwrap();
                        if moved.is_none() {
                            moved = Some(v);
                        }
                    } else {
                        // found in a regular context: returned, replaced by the moved one if any
                        if let Some(m) = moved {
                            self.ctxs[i].vars.insert(name.to_string(), m);
                            info.moved_from_volatile = true;
                            info.overwrote_regular = true;
                        }
                        return Some((i, info));
                    }
                }
                info.moved_from_volatile = moved.is_some();
                info.created = moved.is_none();
                self.ctxs[target].vars.insert(name.to_string(), moved.unwrap_or_default());
                Some((target, info))
            }
            Sc::Volatile => {
                if !self.top_is_volatile() {
                    return None;
                }
                let top = self.ctxs.len() - 1;
                match self.visible(name) {
                    Some((i, _)) if i == top => {}
                    Some((_, v)) => {
                        let copy = v.clone();
                        self.ctxs[top].vars.insert(name.to_string(), copy);
                        info.cloned_to_volatile = true;
                    }
                    None => {
                        self.ctxs[top].vars.insert(name.to_string(), ModelVar::default());
                        info.created = true;
                    }
                }
                Some((top, info))
            }
        }
    }

    fn var_mut(&mut self, ctx: usize, name: &str) -> &mut ModelVar {
        self.ctxs[ctx].vars.get_mut(name).expect("model variable exists")
    }

    /// Documented `unset`: Ok(previous topmost variable, number of contexts it was removed from)
    /// or Err(labels of the read-only variables that prevent it).
    fn unset(&mut self, name: &str, scope: Sc) -> Result<(Option<ModelVar>, usize), Vec<String>> {
        let lb = self.lower_bound(scope).min(self.ctxs.len());
        let ro: Vec<String> = self.ctxs[lb..]
            .iter()
            .filter_map(|c| c.vars.get(name).and_then(|v| v.read_only.clone()))
            .collect();
        if !ro.is_empty() {
            return Err(ro);
        }
        let mut top = None;
        let mut n = 0;
        for c in self.ctxs[lb..].iter_mut().rev() {
            if let Some(v) = c.vars.remove(name) {
                n += 1;
                if top.is_none() {
                    top = Some(v);
                }
            }
        }
        Ok((top, n))
    }

    fn names(&self) -> Vec<&String> {
        let mut names: Vec<&String> = self.ctxs.iter().flat_map(|c| c.vars.keys()).collect();
        names.sort();
        names.dedup();
        names
    }

    fn iter(&self, scope: Sc) -> Vec<(String, ModelVar)> {
        let lb = self.lower_bound(scope);
        self.names()
            .into_iter()
            .filter_map(|n| {
                let (i, v) = self.visible(n)?;
                (i >= lb).then(|| (n.clone(), v.clone()))
            })
            .collect()
    }

    fn env(&self) -> Vec<String> {
        let mut out = vec![];
        for n in self.names() {
            let Some(v) = self.get(n) else { continue };
            if !v.exported {
                continue;
            }
            match &v.value {
                None => {}
                Some(MVal::Scalar(s)) => out.push(format!("{n}={s}")),
                Some(MVal::Array(a)) => out.push(format!("{n}={}", a.join(":"))),
            }
        }
        out.sort();
        out
    }

    fn positional(&self) -> &[String] {
        &self.ctxs[self.topmost_regular()].params
    }

    /// Is some variable hidden by a same-named variable in a higher context?
    fn has_hidden(&self) -> bool {
        self.names().into_iter().any(|n| self.ctxs.iter().filter(|c| c.vars.contains_key(n)).count() >= 2)
    }
    fn defined_anywhere(&self, name: &str) -> bool {
        self.ctxs.iter().any(|c| c.vars.contains_key(name))
    }
}

// -------------------------------------------------------------------------------------------
// Observation of the real thing

fn label_of(l: &Location) -> String {
    l.code.value.borrow().clone()
}

fn observe(v: &Variable) -> ModelVar {
    ModelVar {
        value: v.value.as_ref().map(obs_value),
        assigned: v.last_assigned_location.as_ref().map(label_of),
        exported: v.is_exported,
        read_only: v.read_only_location.as_ref().map(label_of),
    }
}

fn obs_value(v: &Value) -> MVal {
    match v {
        Value::Scalar(s) => MVal::Scalar(s.clone()),
        Value::Array(a) => MVal::Array(a.clone()),
    }
}

fn real_value(v: &MVal) -> Value {
    match v {
        MVal::Scalar(s) => Value::Scalar(s.clone()),
        MVal::Array(a) => Value::Array(a.clone()),
    }
}

// -------------------------------------------------------------------------------------------
// Lock-step interpreter

const NAMES: [&str; 3] = ["x", "y", "z"];

/// Prefix of failure messages whose first divergence is an `unset` in Local/Volatile scope.
const UNSET_SCOPED_TAG: &str = "[unset-scoped]";

#[derive(Default)]
struct Run {
    /// number of ops executed so far (pre-order)
    step: usize,
    /// counter for location labels
    label: usize,
    depth: usize,
    // evidence flags
    volatile_ctx: bool,
    hidden: bool,
    unset_global: bool,
    unset_local: bool,
    unset_volatile: bool,
    unset_multi: bool,
    ro_assign: bool,
    ro_unset: bool,
    moved: bool,
    moved_over_regular: bool,
    cloned: bool,
    cloned_attr: bool,
    nested2: bool,
    env_nonempty: bool,
    env_array: bool,
    exported_hidden: bool,
    volatile_precondition: bool,
    regular_over_volatile: bool,
}

fn diff<T: std::fmt::Debug + PartialEq>(what: impl FnOnce() -> String, real: &T, model: &T) -> Result<(), String> {
    if real == model { Ok(()) } else { Err(format!("{}: actual {real:?}, documented behaviour gives {model:?}", what())) }
}

/// Compares everything that can be observed through `&VariableSet`.
fn compare_state(set: &VariableSet, model: &Model, run: &mut Run) -> Result<(), String> {
    for name in NAMES {
        let m = model.get(name);
        diff(|| format!("get({name:?})"), &set.get(name).map(observe).as_ref(), &m)?;
        for sc in SCOPES {
            diff(
                || format!("get_scoped({name:?}, {sc:?})"),
                &set.get_scoped(name, sc.real()).map(observe).as_ref(),
                &model.get_scoped(name, sc),
            )?;
        }
        diff(|| format!("get_scalar({name:?})"), &set.get_scalar(name), &model.get_scalar(name))?;
    }
    for sc in SCOPES {
        compare_iter(set, model, sc)?;
    }
    let env = compare_env(set, model)?;
    if !env.is_empty() {
        run.env_nonempty = true;
    }
    compare_positional(set, model)?;
    // evidence
    if model.has_hidden() {
        run.hidden = true;
        for n in model.names() {
            let (top, v) = model.visible(n).unwrap();
            if !v.exported && model.ctxs[..top].iter().any(|c| c.vars.get(n).is_some_and(|w| w.exported && w.value.is_some())) {
                run.exported_hidden = true;
            }
        }
    }
    for n in model.names() {
        if let Some(v) = model.get(n) {
            if v.exported && matches!(v.value, Some(MVal::Array(_))) {
                run.env_array = true;
            }
        }
    }
    Ok(())
}

fn compare_iter(set: &VariableSet, model: &Model, sc: Sc) -> Result<(), String> {
    let mut real: Vec<(String, ModelVar)> = set.iter(sc.real()).map(|(n, v)| (n.to_string(), observe(v))).collect();
    real.sort_by(|a, b| a.0.cmp(&b.0));
    diff(|| format!("iter({sc:?}) sorted by name"), &real, &model.iter(sc))
}

fn compare_env(set: &VariableSet, model: &Model) -> Result<Vec<String>, String> {
    let mut real: Vec<String> = set.env_c_strings().into_iter().map(|c| c.to_string_lossy().into_owned()).collect();
    real.sort();
    let m = model.env();
    diff(|| "env_c_strings() sorted".to_string(), &real, &m)?;
    Ok(m)
}

fn compare_positional(set: &VariableSet, model: &Model) -> Result<(), String> {
    diff(|| "positional_params().values".to_string(), &set.positional_params().values.as_slice(), &model.positional())
}

fn panic_text(p: Box<dyn std::any::Any + Send>) -> String {
    if let Some(s) = p.downcast_ref::<String>() {
        s.clone()
    } else if let Some(s) = p.downcast_ref::<&str>() {
        s.to_string()
    } else {
        "panic (no message)".to_string()
    }
}

fn exec(ops: &[Op], set: &mut VariableSet, model: &mut Model, run: &mut Run) -> Result<(), String> {
    for op in ops {
        run.step += 1;
        let step = run.step;
        let at = |e: String| format!("op #{step} {}: {e}", show_op(op));
        match op {
            Op::PushRegular { params, body } => {
                if model.top_is_volatile() {
                    run.regular_over_volatile = true;
                }
                model.push(false, params.clone());
                let mut guard = set.push_context(Context::Regular {
                    positional_params: PositionalParams { values: params.clone(), last_modified_location: None },
                });
                run.depth += 1;
                run.nested2 |= run.depth >= 2;
                compare_state(&guard, model, run).map_err(|e| at(format!("after push: {e}")))?;
                exec(body, &mut guard, model, run)?;
                run.depth -= 1;
                drop(guard);
                model.pop();
                compare_state(set, model, run).map_err(|e| at(format!("after pop: {e}")))?;
            }
            Op::PushVolatile { body } => {
                run.volatile_ctx = true;
                model.push(true, vec![]);
                let mut guard = set.push_context(Context::Volatile);
                run.depth += 1;
                run.nested2 |= run.depth >= 2;
                compare_state(&guard, model, run).map_err(|e| at(format!("after push: {e}")))?;
                exec(body, &mut guard, model, run)?;
                run.depth -= 1;
                drop(guard);
                model.pop();
                compare_state(set, model, run).map_err(|e| at(format!("after pop: {e}")))?;
            }
            Op::GetOrNew { name, scope, then } => {
                let before_flags = model.get(name).map(|v| v.exported || v.read_only.is_some()).unwrap_or(false);
                let Some((ctx, info)) = model.get_or_new(name, *scope) else {
                    // documented panic; nothing to compare
                    run.volatile_precondition = true;
                    continue;
                };
                run.moved |= info.moved_from_volatile;
                run.moved_over_regular |= info.overwrote_regular;
                run.cloned |= info.cloned_to_volatile;
                run.cloned_attr |= info.cloned_to_volatile && before_flags;
                let mut var = set.get_or_new(name.as_str(), scope.real());
                diff(|| "returned variable".to_string(), &observe(&var), &*model.var_mut(ctx, name)).map_err(&at)?;
                for (k, action) in then.iter().enumerate() {
                    run.label += 1;
                    let label = format!("L{}", run.label);
                    let mv = model.var_mut(ctx, name);
                    let act = |e: String| at(format!("action #{k} {action:?}: {e}"));
                    match action {
                        VarAction::AssignScalar(_) | VarAction::AssignArray(_) => {
                            let new = match action {
                                VarAction::AssignScalar(s) => MVal::Scalar(s.clone()),
                                VarAction::AssignArray(a) => MVal::Array(a.clone()),
                                _ => unreachable!(),
                            };
                            // documented: fails iff read-only, error carries the operands and the
                            // read-only location; otherwise returns the previous value and location
                            type R = Result<(Option<MVal>, Option<String>), (MVal, Option<String>, String)>;
                            let expect: R = match &mv.read_only {
                                Some(ro) => {
                                    run.ro_assign = true;
                                    Err((new.clone(), Some(label.clone()), ro.clone()))
                                }
                                None => {
                                    let old = (mv.value.replace(new.clone()), mv.assigned.replace(label.clone()));
                                    Ok(old)
                                }
                            };
                            let got: R = match var.assign(real_value(&new), Location::dummy(label.clone())) {
                                Ok((v, l)) => Ok((v.as_ref().map(obs_value), l.as_ref().map(label_of))),
                                Err(e) => Err((
                                    obs_value(&e.new_value),
                                    e.assigned_location.as_ref().map(label_of),
                                    label_of(&e.read_only_location),
                                )),
                            };
                            diff(|| "result of assign (Ok(previous value, location) / Err(new value, location, read-only location))".to_string(), &got, &expect).map_err(&act)?;
                        }
                        VarAction::Export(b) => {
                            mv.exported = *b;
                            var.export(*b);
                        }
                        VarAction::MakeReadOnly => {
                            if mv.read_only.is_none() {
                                mv.read_only = Some(label.clone());
                            }
                            var.make_read_only(Location::dummy(label));
                        }
                    }
                    diff(|| "variable after the action".to_string(), &observe(&var), &*model.var_mut(ctx, name)).map_err(&act)?;
                }
                compare_state(set, model, run).map_err(&at)?;
            }
            Op::Unset { name, scope } => {
                let scoped = *scope != Sc::Global;
                let tag = |e: String| if scoped { format!("{UNSET_SCOPED_TAG} {}", at(e)) } else { at(e) };
                let defined = model.defined_anywhere(name);
                match scope {
                    Sc::Global => run.unset_global = true,
                    Sc::Local => run.unset_local |= defined,
                    Sc::Volatile => run.unset_volatile |= defined,
                }
                let expect = model.unset(name, *scope);
                // Only for the sake of a precise message (which op panicked): the engine would
                // catch the panic anyway.
                let got = catch_unwind(AssertUnwindSafe(|| match set.unset(name, scope.real()) {
                    Ok(v) => Ok(v.as_ref().map(observe)),
                    Err(e) => Err(label_of(e.read_only_location)),
                }))
                .map_err(|p| tag(format!("panic: {}", panic_text(p))))?;
                match (&got, &expect) {
                    (Ok(g), Ok((m, n))) => {
                        run.unset_multi |= *n >= 2;
                        diff(|| "removed variable".to_string(), g, m).map_err(&tag)?;
                    }
                    (Err(loc), Err(ros)) => {
                        run.ro_unset = true;
                        if !ros.contains(loc) {
                            return Err(tag(format!("UnsetError.read_only_location is {loc:?}, not one of the read-only variables in range {ros:?}")));
                        }
                    }
                    (Ok(g), Err(ros)) => {
                        return Err(tag(format!("unset succeeded (returned {g:?}) although a read-only variable (made read-only at {ros:?}) is in the range to remove")));
                    }
                    (Err(loc), Ok((m, _))) => {
                        return Err(tag(format!("unset failed with UnsetError(read-only at {loc:?}) but no read-only variable is in the range to remove; expected Ok({m:?})")));
                    }
                }
                compare_state(set, model, run).map_err(|e| tag(format!("state after unset: {e}")))?;
            }
            Op::Read { name } => {
                diff(|| "get".to_string(), &set.get(name.as_str()).map(observe).as_ref(), &model.get(name)).map_err(&at)?;
            }
            Op::ReadScoped { name, scope } => {
                diff(
                    || "get_scoped".to_string(),
                    &set.get_scoped(name.as_str(), scope.real()).map(observe).as_ref(),
                    &model.get_scoped(name, *scope),
                )
                .map_err(&at)?;
            }
            Op::ReadScalar { name } => {
                diff(|| "get_scalar".to_string(), &set.get_scalar(name.as_str()), &model.get_scalar(name)).map_err(&at)?;
            }
            Op::Iter { scope } => compare_iter(set, model, *scope).map_err(&at)?,
            Op::EnvCStrings => {
                compare_env(set, model).map_err(&at)?;
            }
            Op::PositionalParams => compare_positional(set, model).map_err(&at)?,
        }
    }
    Ok(())
}

fn show_op(op: &Op) -> String {
    match op {
        Op::PushRegular { params, .. } => format!("PushRegular{{params: {params:?}}}"),
        Op::PushVolatile { .. } => "PushVolatile".to_string(),
        other => format!("{other:?}"),
    }
}

fn check(c: &Case) -> Outcome {
    let mut set = VariableSet::new();
    let mut model = Model::new();
    let mut run = Run::default();
    let r = compare_state(&set, &model, &mut run).and_then(|()| exec(&c.ops, &mut set, &mut model, &mut run));
    if let Err(msg) = r {
        return Outcome::fail(msg);
    }
    let nt_shadow = run.volatile_ctx && run.hidden;
    let nt_unset = run.unset_local || run.unset_volatile;
    let nt_ro = run.ro_assign || run.ro_unset;
    Outcome::pass(nt_shadow || nt_unset || nt_ro)
        .class_if(nt_shadow, "nt:volatile-context+hidden-variable")
        .class_if(nt_unset, "nt:unset-local-or-volatile")
        .class_if(nt_ro, "nt:read-only-violation-attempt")
        .class_if(!(nt_shadow || nt_unset || nt_ro), "trivial")
        .class_if(run.volatile_ctx, "volatile-context")
        .class_if(run.hidden, "hidden-variable")
        .class_if(run.unset_global, "unset-global")
        .class_if(run.unset_local, "unset-local")
        .class_if(run.unset_volatile, "unset-volatile")
        .class_if(run.unset_multi, "unset-removes-from-several-contexts")
        .class_if(run.ro_assign, "assign-to-read-only-rejected")
        .class_if(run.ro_unset, "unset-of-read-only-rejected")
        .class_if(run.moved, "volatile-variable-moved-to-regular")
        .class_if(run.moved_over_regular, "moved-variable-overwrites-regular")
        .class_if(run.cloned, "cloned-into-volatile")
        .class_if(run.cloned_attr, "cloned-into-volatile-with-attributes")
        .class_if(run.nested2, "nesting>=2")
        .class_if(run.regular_over_volatile, "regular-context-above-volatile")
        .class_if(run.env_nonempty, "environment-non-empty")
        .class_if(run.env_array, "exported-array")
        .class_if(run.exported_hidden, "exported-hidden-by-unexported")
        .class_if(run.volatile_precondition, "skipped-op:get_or_new-volatile-without-volatile-context")
}

/// Known finding: `VariableSet::unset` with Local/Volatile scope slices the per-name stack with a
/// *context* index. The first divergence of such a history is always at the unset itself (the
/// wrongly removed set is a suffix of the right one, so either the result or the visible variable
/// differs immediately), which is what the tag records.
fn known(_c: &Case, msg: &str) -> Option<&'static str> {
    msg.starts_with(UNSET_SCOPED_TAG).then_some("varset-unset-local-index")
}

pub static API_EXHAUSTIVE: Driver<Case> = Driver::new("C16", "api-exhaustive", check).with_known(known);
pub static API_RANDOM: Driver<Case> = Driver::new("C16", "api-random", check).with_known(known);
pub static API_CATALOGUE: Driver<Case> = Driver::new("C16", "api-catalogue", check).with_known(known);

// -------------------------------------------------------------------------------------------
// Hand-written histories: the scenarios spelled out in the documentation and unit tests of
// yash-env/src/variable.rs, and the minimal histories of the known unset finding.

fn catalogue() -> Vec<Case> {
    use VarAction::*;
    fn gon(name: &str, scope: Sc, then: Vec<VarAction>) -> Op {
        Op::GetOrNew { name: name.to_string(), scope, then }
    }
    fn set(name: &str, scope: Sc, v: &str) -> Op {
        gon(name, scope, vec![VarAction::AssignScalar(v.to_string())])
    }
    fn unset(name: &str, scope: Sc) -> Op {
        Op::Unset { name: name.to_string(), scope }
    }
    fn reg(body: Vec<Op>) -> Op {
        Op::PushRegular { params: vec!["p".to_string()], body }
    }
    fn vol(body: Vec<Op>) -> Op {
        Op::PushVolatile { body }
    }
    let reads = || vec![Op::Iter { scope: Sc::Global }, Op::Iter { scope: Sc::Local }, Op::Iter { scope: Sc::Volatile }, Op::EnvCStrings, Op::PositionalParams];
    let exported = |name: &str, scope: Sc, v: &str| gon(name, scope, vec![AssignScalar(v.to_string()), Export(true)]);
    vec![
        // module example: a local hides a global until the context is popped
        Case { ops: vec![set("x", Sc::Global, "hello"), reg(vec![Op::Read { name: "x".into() }, set("x", Sc::Local, "world"), Op::Read { name: "x".into() }]), Op::Read { name: "x".into() }] },
        // new global variable from inside regular + volatile contexts survives the pops
        Case { ops: vec![reg(vec![vol(vec![set("x", Sc::Global, "1")])]), Op::Read { name: "x".into() }] },
        // two locals in nested regular contexts
        Case { ops: vec![reg(vec![set("x", Sc::Local, "outer"), reg(vec![vol(vec![set("x", Sc::Local, "inner")]), Op::Read { name: "x".into() }]), Op::Read { name: "x".into() }])] },
        // cloning a read-only global into a volatile context; exporting the clone only
        Case { ops: vec![gon("x", Sc::Global, vec![AssignScalar("1".into()), MakeReadOnly]), vol(vec![vol(vec![gon("x", Sc::Volatile, vec![Export(true), AssignScalar("2".into())]), Op::EnvCStrings])]), Op::Read { name: "x".into() }] },
        // lowering a volatile variable to the base context (two volatile copies: the lower is dropped)
        Case { ops: vec![reg(vec![vol(vec![set("x", Sc::Volatile, "dummy"), vol(vec![exported("x", Sc::Volatile, "volatile"), set("x", Sc::Global, "new")])])]), Op::Read { name: "x".into() }, Op::EnvCStrings] },
        // lowering to a middle regular context that has the variable
        Case { ops: vec![set("x", Sc::Local, "one"), reg(vec![set("x", Sc::Local, "two"), reg(vec![vol(vec![exported("x", Sc::Volatile, "volatile"), set("x", Sc::Global, "new")])]), Op::Read { name: "x".into() }]), Op::Read { name: "x".into() }] },
        // lowering to the topmost regular context with / without an existing variable
        Case { ops: vec![reg(vec![reg(vec![vol(vec![set("x", Sc::Volatile, "dummy"), vol(vec![exported("x", Sc::Volatile, "volatile"), set("x", Sc::Local, "new")])]), Op::Read { name: "x".into() }])])] },
        Case { ops: vec![reg(vec![reg(vec![set("x", Sc::Local, "old"), vol(vec![set("x", Sc::Volatile, "dummy"), vol(vec![exported("x", Sc::Volatile, "volatile"), vol(vec![set("x", Sc::Local, "new")])])]), Op::Read { name: "x".into() }])])] },
        // scoped reads and iteration (getting_variables_with_scopes, iter_*)
        Case { ops: vec![exported("x", Sc::Global, "g"), set("y", Sc::Global, "hidden"), reg([vec![set("y", Sc::Local, "visible"), set("z", Sc::Local, "hidden"), vol([vec![set("z", Sc::Volatile, "volatile")], reads()].concat())], reads()].concat())] },
        // unset in every scope with the variable defined in every context
        Case { ops: vec![set("x", Sc::Global, "a"), reg(vec![set("x", Sc::Local, "b"), vol(vec![set("x", Sc::Volatile, "c"), unset("x", Sc::Global), Op::Read { name: "x".into() }])])] },
        Case { ops: vec![set("x", Sc::Global, "a"), reg(vec![gon("x", Sc::Local, vec![AssignScalar("b".into()), MakeReadOnly]), reg(vec![set("x", Sc::Local, "c"), vol(vec![set("x", Sc::Volatile, "d"), unset("x", Sc::Local), Op::Read { name: "x".into() }])])])] },
        Case { ops: vec![set("x", Sc::Global, "a"), reg(vec![set("x", Sc::Local, "b"), vol(vec![set("x", Sc::Volatile, "c"), vol(vec![set("x", Sc::Volatile, "d"), unset("x", Sc::Volatile), Op::Read { name: "x".into() }])])])] },
        // a read-only variable somewhere in the range prevents unsetting everything
        Case { ops: vec![set("x", Sc::Global, "a"), reg(vec![gon("x", Sc::Local, vec![AssignScalar("b".into()), MakeReadOnly]), reg(vec![set("x", Sc::Local, "d"), unset("x", Sc::Global), Op::Read { name: "x".into() }])])] },
        // environment: arrays joined with ':', valueless and unexported variables left out
        Case { ops: vec![exported("x", Sc::Global, "1"), gon("y", Sc::Global, vec![AssignArray(vec!["1".into(), "two".into(), "3".into()]), Export(true)]), gon("z", Sc::Global, vec![Export(true)]), Op::EnvCStrings] },
        // minimal histories of the known finding varset-unset-local-index
        Case { ops: vec![reg(vec![set("x", Sc::Local, "1"), unset("x", Sc::Local)])] },
        Case { ops: vec![vol(vec![set("x", Sc::Volatile, "1"), unset("x", Sc::Volatile)])] },
        Case { ops: vec![reg(vec![gon("x", Sc::Local, vec![MakeReadOnly]), unset("x", Sc::Local)])] },
        Case { ops: vec![reg(vec![reg(vec![set("x", Sc::Local, "1"), unset("x", Sc::Local)])])] },
        Case { ops: vec![gon("x", Sc::Global, vec![]), unset("x", Sc::Global), unset("x", Sc::Volatile)] },
    ]
}

// -------------------------------------------------------------------------------------------
// Exhaustive enumeration of trees of mutating operations

const EX_NAMES: [&str; 2] = ["x", "y"];

fn ex_thens() -> Vec<Vec<VarAction>> {
    use VarAction::*;
    vec![
        vec![],
        vec![AssignScalar("1".into())],
        vec![AssignScalar("2".into())],
        vec![AssignArray(vec!["1".into(), "2".into()])],
        vec![Export(true)],
        vec![Export(false)],
        vec![MakeReadOnly],
        vec![AssignScalar("1".into()), Export(true)],
    ]
}

/// Leaf alphabet; `volatile_top` = the op sits directly in a volatile context (only there may a
/// variable be created in Volatile scope).
fn ex_leaves(volatile_top: bool) -> Vec<Op> {
    let mut v = vec![];
    for sc in SCOPES {
        if sc == Sc::Volatile && !volatile_top {
            continue;
        }
        for n in EX_NAMES {
            for t in ex_thens() {
                v.push(Op::GetOrNew { name: n.to_string(), scope: sc, then: t });
            }
        }
    }
    for sc in SCOPES {
        for n in EX_NAMES {
            v.push(Op::Unset { name: n.to_string(), scope: sc });
        }
    }
    v
}

struct Space {
    max_depth: usize,
    leaves: [Vec<Op>; 2],
    /// cnt[d][v][n]: forests of exactly n ops, nesting <= d below, directly in a volatile (v=1)
    /// or regular (v=0) context
    cnt: Vec<[Vec<u64>; 2]>,
}

impl Space {
    fn new(max_ops: usize, max_depth: usize) -> Space {
        let leaves = [ex_leaves(false), ex_leaves(true)];
        let mut cnt: Vec<[Vec<u64>; 2]> = vec![];
        for d in 0..=max_depth {
            let mut both = [vec![1u64], vec![1u64]];
            for v in 0..2 {
                for n in 1..=max_ops {
                    let mut c = leaves[v].len() as u64 * both[v][n - 1];
                    if d > 0 {
                        for k in 0..n {
                            let bodies = cnt[d - 1][0][k] + cnt[d - 1][1][k];
                            c += bodies * both[v][n - 1 - k];
                        }
                    }
                    both[v].push(c);
                }
            }
            cnt.push(both);
        }
        Space { max_depth, leaves, cnt }
    }

    fn total(&self, max_ops: usize) -> u64 {
        (1..=max_ops).map(|n| self.cnt[self.max_depth][0][n]).sum()
    }

    fn decode(&self, max_ops: usize, mut i: u64) -> Option<Case> {
        for n in 1..=max_ops {
            let c = self.cnt[self.max_depth][0][n];
            if i < c {
                let mut ops = vec![];
                self.unrank(self.max_depth, 0, n, i, &mut ops);
                return Some(Case { ops });
            }
            i -= c;
        }
        None
    }

    fn unrank(&self, d: usize, v: usize, n: usize, mut i: u64, out: &mut Vec<Op>) {
        if n == 0 {
            return;
        }
        let tail = self.cnt[d][v][n - 1];
        let leaf_part = self.leaves[v].len() as u64 * tail;
        if i < leaf_part {
            out.push(self.leaves[v][(i / tail) as usize].clone());
            return self.unrank(d, v, n - 1, i % tail, out);
        }
        i -= leaf_part;
        for k in 0..n {
            let rest = self.cnt[d][v][n - 1 - k];
            for kind in 0..2 {
                let block = self.cnt[d - 1][kind][k] * rest;
                if i < block {
                    let mut body = vec![];
                    self.unrank(d - 1, kind, k, i / rest, &mut body);
                    out.push(if kind == 0 {
                        Op::PushRegular { params: vec!["p".to_string()], body }
                    } else {
                        Op::PushVolatile { body }
                    });
                    return self.unrank(d, v, n - 1 - k, i % rest, out);
                }
                i -= block;
            }
        }
        unreachable!("index out of range in unrank");
    }
}

// -------------------------------------------------------------------------------------------
// Random trees

fn arb_name() -> impl Strategy<Value = String> {
    prop_oneof![3 => Just("x"), 2 => Just("y"), 1 => Just("z")].prop_map(str::to_string)
}

fn arb_scope() -> impl Strategy<Value = Sc> {
    prop_oneof![Just(Sc::Global), Just(Sc::Local), Just(Sc::Volatile)]
}

fn arb_text() -> impl Strategy<Value = String> {
    prop_oneof![3 => Just("1"), 3 => Just("2"), 1 => Just(""), 1 => Just("a:b")].prop_map(str::to_string)
}

fn arb_action() -> impl Strategy<Value = VarAction> {
    prop_oneof![
        5 => arb_text().prop_map(VarAction::AssignScalar),
        2 => proptest::collection::vec(arb_text(), 0..3).prop_map(VarAction::AssignArray),
        3 => Just(VarAction::Export(true)),
        1 => Just(VarAction::Export(false)),
        2 => Just(VarAction::MakeReadOnly),
    ]
}

fn arb_leaf(scoped_unset: bool) -> impl Strategy<Value = Op> {
    let unset_scope = if scoped_unset {
        prop_oneof![Just(Sc::Global), Just(Sc::Local), Just(Sc::Volatile)].boxed()
    } else {
        Just(Sc::Global).boxed()
    };
    prop_oneof![
        45 => (arb_name(), arb_scope(), proptest::collection::vec(arb_action(), 0..4))
            .prop_map(|(name, scope, then)| Op::GetOrNew { name, scope, then }),
        12 => (arb_name(), unset_scope).prop_map(|(name, scope)| Op::Unset { name, scope }),
        5 => arb_name().prop_map(|name| Op::Read { name }),
        6 => (arb_name(), arb_scope()).prop_map(|(name, scope)| Op::ReadScoped { name, scope }),
        3 => arb_name().prop_map(|name| Op::ReadScalar { name }),
        5 => arb_scope().prop_map(|scope| Op::Iter { scope }),
        4 => Just(Op::EnvCStrings),
        2 => Just(Op::PositionalParams),
    ]
}

fn arb_params() -> impl Strategy<Value = Vec<String>> {
    proptest::collection::vec(prop_oneof![Just("p"), Just("q")].prop_map(str::to_string), 0..3)
}

fn arb_op(scoped_unset: bool) -> impl Strategy<Value = Op> {
    arb_leaf(scoped_unset).prop_recursive(4, 30, 5, |inner| {
        prop_oneof![
            1 => (arb_params(), proptest::collection::vec(inner.clone(), 0..7))
                .prop_map(|(params, body)| Op::PushRegular { params, body }),
            1 => proptest::collection::vec(inner, 0..7).prop_map(|body| Op::PushVolatile { body }),
        ]
    })
}

const MAX_RANDOM_OPS: usize = 30;

/// Keeps the first `budget` ops (pre-order) and rewrites a Volatile-scope `get_or_new` that would
/// hit the documented panic (topmost context not volatile) into a Local-scope one.
fn sanitize(ops: Vec<Op>, volatile_top: bool, budget: &mut usize) -> Vec<Op> {
    let mut out = vec![];
    for op in ops {
        if *budget == 0 {
            break;
        }
        *budget -= 1;
        out.push(match op {
            Op::PushRegular { params, body } => Op::PushRegular { params, body: sanitize(body, false, budget) },
            Op::PushVolatile { body } => Op::PushVolatile { body: sanitize(body, true, budget) },
            Op::GetOrNew { name, scope: Sc::Volatile, then } if !volatile_top => Op::GetOrNew { name, scope: Sc::Local, then },
            other => other,
        });
    }
    out
}

fn arb_case(scoped_unset: bool) -> impl Strategy<Value = Case> {
    proptest::collection::vec(arb_op(scoped_unset), 1..10).prop_map(|ops| {
        let mut budget = MAX_RANDOM_OPS;
        Case { ops: sanitize(ops, false, &mut budget) }
    })
}

// -------------------------------------------------------------------------------------------

pub fn run(ctx: &Ctx, st: &mut Stats) {
    API_CATALOGUE.run_list(st, &catalogue());

    // exhaustive tier
    let max_ops = ctx.tier.pick(4, 5);
    let max_depth = 3;
    let space = Space::new(max_ops, max_depth);
    let total = space.total(max_ops);
    let sp = &space;
    API_EXHAUSTIVE.run_exhaustive(ctx, st, total, &move |i| sp.decode(max_ops, i));
    st.extra.insert(
        "api_exhaustive_space".into(),
        serde_json::json!({
            "max_ops": max_ops, "max_nesting": max_depth, "names": EX_NAMES, "trees": total,
            "leaf_ops_in_regular_context": space.leaves[0].len(), "leaf_ops_in_volatile_context": space.leaves[1].len(),
        }),
    );

    // random tier: the full alphabet, and the same without Local/Volatile unsets (so that deep
    // histories stay covered while the known unset finding is open and truncates histories)
    let n = ctx.tier.pick(300_000, 15_000_000);
    API_RANDOM.run_random(ctx, st, n * 2 / 3, || arb_case(true));
    API_RANDOM.run_random(ctx, st, n / 3, || arb_case(false));
}

pub fn replay(driver: &str, case: &serde_json::Value) -> Result<(Outcome, Option<&'static str>), String> {
    match driver {
        "api-exhaustive" => API_EXHAUSTIVE.replay_known(case),
        "api-random" => API_RANDOM.replay_known(case),
        "api-catalogue" => API_CATALOGUE.replay_known(case),
        _ => Err(format!("unknown driver {driver}")),
    }
}

#[cfg(test)]
mod tests {
    use super::*;

    #[test]
    fn enumeration_is_a_bijection_on_small_space() {
        let sp = Space::new(3, 2);
        let total = sp.total(3);
        let mut seen = std::collections::HashSet::new();
        for i in 0..total {
            let c = sp.decode(3, i).unwrap();
            assert!(count_ops(&c.ops) <= 3);
            assert!(seen.insert(serde_json::to_string(&c).unwrap()), "duplicate at {i}");
        }
        assert!(sp.decode(3, total).is_none());
    }
}
