//! C01 — word expansion yields exactly the fields POSIX prescribes.

use crate::engine::*;
use crate::model::expand::*;
use crate::model::fnmatch::TrimKind;
use crate::vsys;
use proptest::prelude::*;
use serde::{Deserialize, Serialize};
use std::collections::BTreeMap;

pub const INFO: PropInfo = PropInfo {
    id: "C01",
    level: "exploration",
    rule: "cases = (word AST, shell state {a,b,c set/empty/unset, 0-3 positional parameters, IFS unset/empty/any string over {space tab newline : - a}, nounset}, noglob on/off). The word is rendered to `probe WORD`, parsed by the real lexer and run by the real shell on the simulated OS; the arguments the probe receives are compared with the reference expander (or: error => probe not run, non-zero status, diagnostic). Exhaustive tier: all words of <=2 units from a fixed unit alphabet x 24 states x 6 IFS values; random tier: proptest words of <=6 units with nested modifier words; `read` tier: read [-r] v1..vk with generated lines. Non-trivial = the word contains a parameter expansion or a quote and the expected result differs from the single field equal to the word text; distinct by serialised case.",
    assumptions: &[
        "POSIX.1-2024 XCU 2.6 as reference; unspecified corners are skipped and counted: unquoted $@/$* glued to other text with an empty positional parameter, modifiers on $@/$*, $@ inside modifier words, quoting inside a modifier word inside double quotes, \"$@\" with no parameters next to null parts in the same quotes, backslash from an unquoted expansion inside a pattern, read remainder ending in a non-white-space delimiter",
        "IFS white space limited to space/tab/newline (locale-independent subset)",
    ],
};

#[derive(Clone, Debug, PartialEq, Eq, Hash, Serialize, Deserialize)]
pub struct WordCase {
    pub word: Vec<Unit>,
    pub state: State,
    pub noglob: bool,
}

fn sq(s: &str) -> String {
    assert!(!s.contains('\''));
    format!("'{s}'")
}

pub fn script_prefix(st: &State, noglob: bool) -> String {
    let mut s = String::new();
    if noglob {
        s.push_str("set -f\n");
    }
    for name in ["a", "b", "c"] {
        match st.vars.get(name) {
            Some(v) => s.push_str(&format!("{name}={}\n", sq(v))),
            None => s.push_str(&format!("unset {name}\n")),
        }
    }
    s.push_str("set --");
    for p in &st.positional {
        s.push(' ');
        s.push_str(&sq(p));
    }
    s.push('\n');
    match &st.ifs {
        Some(v) => s.push_str(&format!("IFS={}\n", sq(v))),
        None => s.push_str("unset IFS\n"),
    }
    if st.nounset {
        s.push_str("set -u\n");
    }
    s
}

fn has_subst(word: &[Unit]) -> bool {
    fn p(p: &Param) -> bool {
        match &p.form {
            Form::Switch { word, .. } => has_subst(word),
            Form::Trim { pattern, .. } => has_subst(pattern),
            _ => false,
        }
    }
    word.iter().any(|u| match u {
        Unit::Cmd(_) | Unit::Arith(_) => true,
        Unit::DQ(ds) => ds.iter().any(|d| match d {
            DUnit::Cmd(_) | DUnit::Arith(_) => true,
            DUnit::Param(q) => p(q),
            _ => false,
        }),
        Unit::Param(q) => p(q),
        _ => false,
    })
}

fn word_is_plain_text(word: &[Unit]) -> bool {
    word.iter().all(|u| matches!(u, Unit::Lit(_)))
}

fn check_word(c: &WordCase) -> Outcome {
    let text = render_word(&c.word);
    let (expect, post) = expect(&c.word, &c.state);
    if let Expect::Unspecified(w) = expect {
        return Outcome::skip(w);
    }
    let script = format!("{}probe {}\nsnap end\n", script_prefix(&c.state, c.noglob), text);
    let r = vsys::run(&vsys::Setup::script(&script));
    if let Some(p) = &r.panic {
        return Outcome::fail(format!("panic while running `{text}`: {p}"));
    }
    if !r.finished {
        return Outcome::fail(format!("shell did not finish for `{text}`"));
    }
    let trace = r.main_trace();
    let nontrivial = !word_is_plain_text(&c.word);
    match expect {
        Expect::Fields(alts) => {
            if trace.len() != 1 {
                return Outcome::fail(format!(
                    "`probe {text}`: expected fields {:?} but the probe ran {} times; status {} stderr {:?}",
                    alts[0], trace.len(), r.status, r.stderr
                ));
            }
            let got = &trace[0].args;
            if !alts.iter().any(|a| a == got) {
                return Outcome::fail(format!(
                    "`probe {text}` with {}: got fields {:?}, POSIX prescribes {}",
                    describe(&c.state),
                    got,
                    alts.iter().map(|a| format!("{a:?}")).collect::<Vec<_>>().join(" or ")
                ));
            }
            // side effects of ${x=word}
            let Some(snap) = r.snaps.iter().find(|s| s.tag == "end") else {
                return Outcome::fail(format!("`{text}`: no final snapshot (status {} stderr {:?})", r.status, r.stderr));
            };
            for name in ["a", "b", "c"] {
                let got = snap.vars.get(name).and_then(|v| v.0.as_ref()).map(|v| v.join("\u{1}"));
                let want = post.vars.get(name).cloned();
                if got != want {
                    return Outcome::fail(format!("`{text}`: variable {name} afterwards is {got:?}, expected {want:?}"));
                }
            }
            let trivial_result = alts[0].len() == 1 && alts[0][0] == text;
            Outcome::pass(nontrivial && !trivial_result)
                .class_if(has_subst(&c.word), "with-command-substitution-or-arithmetic")
                .class(match got.len() { 0 => "fields:0", 1 => "fields:1", 2 => "fields:2", _ => "fields:3+" })
                .class_if(alts.len() > 1, "two-acceptable-results")
        }
        Expect::Error { message } => {
            if !trace.is_empty() {
                return Outcome::fail(format!(
                    "`probe {text}` with {}: POSIX says expansion error, but the command ran with {:?}",
                    describe(&c.state), trace[0].args
                ));
            }
            if r.status == 0 {
                return Outcome::fail(format!("`{text}`: expansion error but exit status 0"));
            }
            if r.stderr.is_empty() {
                return Outcome::fail(format!("`{text}`: expansion error but no diagnostic"));
            }
            if r.snaps.iter().any(|s| s.tag == "end") {
                return Outcome::fail(format!("`{text}`: expansion error but the non-interactive shell went on"));
            }
            if let Some(m) = message {
                let squeeze = |s: &str| s.chars().filter(|c| !c.is_whitespace()).collect::<String>();
                if !squeeze(&r.stderr).contains(&squeeze(&m)) {
                    return Outcome::fail(format!("`{text}`: diagnostic {:?} lacks the message {:?}", r.stderr, m));
                }
            }
            Outcome::pass(true).class("error")
        }
        Expect::Unspecified(_) => unreachable!(),
    }
}

fn describe(st: &State) -> String {
    format!(
        "vars {:?}, positional {:?}, IFS {:?}{}",
        st.vars, st.positional, st.ifs, if st.nounset { ", nounset" } else { "" }
    )
}

pub static WORD: Driver<WordCase> = Driver::new("C01", "word", check_word);

// ---- read ----

#[derive(Clone, Debug, PartialEq, Eq, Hash, Serialize, Deserialize)]
pub struct ReadCase {
    pub line: String,
    pub raw: bool,
    pub nvars: usize,
    pub ifs: Option<String>,
}

fn check_read(c: &ReadCase) -> Outcome {
    let expect = match read_split(&c.line, c.raw, c.nvars, &c.ifs) {
        ReadExpect::Values(v) => v,
        ReadExpect::Unspecified(w) => return Outcome::skip(w),
    };
    let names: Vec<String> = (1..=c.nvars).map(|i| format!("v{i}")).collect();
    let mut script = String::new();
    match &c.ifs {
        Some(v) => script.push_str(&format!("IFS={}\n", sq(v))),
        None => script.push_str("unset IFS\n"),
    }
    script.push_str(&format!("read {}{} <<'EOF'\n{}\nEOF\nsnap end\n", if c.raw { "-r " } else { "" }, names.join(" "), c.line));
    let r = vsys::run(&vsys::Setup::script(&script));
    if let Some(p) = &r.panic {
        return Outcome::fail(format!("panic: {p}"));
    }
    let Some(snap) = r.snaps.iter().find(|s| s.tag == "end") else {
        return Outcome::fail(format!("read case did not reach the end: status {} stderr {:?}", r.status, r.stderr));
    };
    if snap.status != 0 {
        return Outcome::fail(format!("read {:?} returned status {}", c.line, snap.status));
    }
    let got: Vec<String> = names
        .iter()
        .map(|n| snap.vars.get(n).and_then(|v| v.0.as_ref()).map(|v| v.join("\u{1}")).unwrap_or_else(|| "<unset>".into()))
        .collect();
    if got != expect {
        return Outcome::fail(format!(
            "read {}{} with IFS {:?} on line {:?}: got {:?}, POSIX prescribes {:?}",
            if c.raw { "-r " } else { "" }, names.join(" "), c.ifs, c.line, got, expect
        ));
    }
    let ifs = c.ifs.clone().unwrap_or_else(|| " \t\n".into());
    Outcome::pass(c.line.chars().any(|ch| ifs.contains(ch) || ch == '\\'))
        .class_if(c.line.contains('\\'), "backslash")
        .class_if(expect.last().is_some_and(|l| l.chars().any(|ch| ifs.contains(ch))), "remainder-with-delimiters")
}

pub static READ: Driver<ReadCase> = Driver::new("C01", "read", check_read);

// ---------------------------------------------------------------------------------------------
// Generators

fn var(n: &str) -> Name {
    Name::Var(n.to_string())
}

fn lits(s: &str) -> Vec<Unit> {
    s.chars().map(Unit::Lit).collect()
}

/// Parameter forms for the exhaustive alphabet. `dq` selects the modifier word variant that is
/// allowed inside double quotes (literals only).
fn param_alphabet(dq: bool) -> Vec<Param> {
    let word: Vec<Unit> = if dq {
        lits("x :y")
    } else {
        vec![Unit::Lit('x'), Unit::Lit(' '), Unit::SQ(" :".into()), Unit::Lit('y')]
    };
    let pat: Vec<Unit> = vec![Unit::Lit('a'), Unit::Lit('*')];
    let pat2: Vec<Unit> = vec![Unit::Lit('?'), Unit::Lit('b')];
    let mut v = vec![];
    for n in ["a", "b", "c"] {
        v.push(Param { name: var(n), form: Form::Plain(n == "b") });
        v.push(Param { name: var(n), form: Form::Length });
        for kind in [SwitchKind::Default, SwitchKind::Assign, SwitchKind::Error, SwitchKind::Alter] {
            for colon in [false, true] {
                v.push(Param { name: var(n), form: Form::Switch { kind, colon, word: word.clone() } });
            }
        }
        v.push(Param { name: var(n), form: Form::Trim { kind: TrimKind::PrefixShortest, pattern: pat.clone() } });
        v.push(Param { name: var(n), form: Form::Trim { kind: TrimKind::SuffixLongest, pattern: pat2.clone() } });
    }
    v.push(Param { name: Name::Pos(1), form: Form::Plain(false) });
    v.push(Param { name: Name::Pos(2), form: Form::Switch { kind: SwitchKind::Default, colon: true, word: word.clone() } });
    v.push(Param { name: Name::Hash, form: Form::Plain(false) });
    v.push(Param { name: Name::At, form: Form::Plain(false) });
    v.push(Param { name: Name::Star, form: Form::Plain(false) });
    v
}

fn unit_alphabet() -> Vec<Unit> {
    let mut v = vec![
        Unit::Lit('a'),
        Unit::Lit(':'),
        Unit::Lit('*'),
        Unit::Esc(' '),
        Unit::Esc('\\'),
        Unit::SQ(String::new()),
        Unit::SQ(" a".into()),
        Unit::DQ(vec![]),
        Unit::DQ(vec![DUnit::Lit(' ')]),
        Unit::DQ(vec![DUnit::Esc('a'), DUnit::Esc('$')]),
    ];
    for p in param_alphabet(false) {
        v.push(Unit::Param(p));
    }
    for p in param_alphabet(true) {
        v.push(Unit::DQ(vec![DUnit::Param(p)]));
    }
    // parameter with neighbours inside the same quotes
    v.push(Unit::DQ(vec![DUnit::Lit('x'), DUnit::Param(Param { name: Name::At, form: Form::Plain(false) }), DUnit::Lit('y')]));
    v.push(Unit::DQ(vec![DUnit::Param(Param { name: Name::At, form: Form::Plain(false) }), DUnit::Param(Param { name: var("c"), form: Form::Plain(false) })]));
    // results of command substitutions and arithmetic expansions are split like parameter values
    v.push(Unit::Cmd(Cmd { text: " a: b\n\n".into(), backquote: false }));
    v.push(Unit::Cmd(Cmd { text: ":".into(), backquote: true }));
    v.push(Unit::DQ(vec![DUnit::Cmd(Cmd { text: " a: b\n".into(), backquote: true })]));
    v.push(Unit::Arith(-11));
    v.push(Unit::DQ(vec![DUnit::Arith(-11)]));
    v
}

fn states() -> Vec<State> {
    let mut v = vec![];
    for a in ["a b", " a:", ":"] {
        for pos in [vec![], vec!["x"], vec!["x y", ""], vec!["", "p:q", " "]] {
            for nounset in [false, true] {
                let mut vars = BTreeMap::new();
                vars.insert("a".to_string(), a.to_string());
                vars.insert("b".to_string(), String::new());
                v.push(State { vars, positional: pos.iter().map(|s| s.to_string()).collect(), ifs: None, nounset });
            }
        }
    }
    v
}

const IFS_VALUES: [Option<&str>; 6] = [None, Some(""), Some(" "), Some(":"), Some(": "), Some("a-\n")];

/// Text printed by the command of a command substitution (no single quote).
fn arb_cmd() -> impl Strategy<Value = Cmd> {
    (prop::collection::vec(prop::sample::select(vec!['a', 'b', ' ', '\t', '\n', ':', '*', '-', '1', '\\']), 0..5), 0usize..3, any::<bool>()).prop_map(
        |(t, nl, backquote)| {
            let mut text: String = t.into_iter().filter(|c| !(backquote && *c == '\\')).collect();
            for _ in 0..nl {
                text.push('\n');
            }
            Cmd { text, backquote }
        },
    )
}

fn arb_arith() -> impl Strategy<Value = i32> {
    prop::sample::select(vec![0, 1, 7, 10, 11, 101, 110, -1, -11, -101])
}

// two multi-byte characters: ${#x} counts characters, the trims cut at character boundaries
const VAL_ALPHA: [char; 11] = ['a', 'b', ' ', '\t', '\n', ':', '*', '\\', '-', 'é', 'あ'];

fn arb_value() -> impl Strategy<Value = String> {
    prop::collection::vec(prop::sample::select(VAL_ALPHA.to_vec()), 0..5).prop_map(|v| v.into_iter().collect())
}

fn arb_ifs() -> impl Strategy<Value = Option<String>> {
    prop_oneof![
        2 => Just(None),
        1 => Just(Some(String::new())),
        6 => prop::collection::vec(prop::sample::select(vec![' ', '\t', '\n', ':', '-', 'a']), 1..4)
            .prop_map(|v| Some(v.into_iter().collect())),
        // a digit as separator: the results of ${#x}, $# and $((...)) are split as well
        1 => prop::collection::vec(prop::sample::select(vec![' ', '1', '0', '-', ':']), 1..4)
            .prop_map(|v| Some(v.into_iter().collect())),
    ]
}

fn arb_state() -> impl Strategy<Value = State> {
    (
        prop::option::weighted(0.8, arb_value()),
        prop::option::weighted(0.6, arb_value()),
        prop::option::weighted(0.3, arb_value()),
        prop::collection::vec(arb_value(), 0..4),
        arb_ifs(),
        prop::bool::weighted(0.3),
    )
        .prop_map(|(a, b, c, positional, ifs, nounset)| {
            let mut vars = BTreeMap::new();
            for (n, v) in [("a", a), ("b", b), ("c", c)] {
                if let Some(v) = v {
                    vars.insert(n.to_string(), v);
                }
            }
            State { vars, positional, ifs, nounset }
        })
}

fn arb_name() -> impl Strategy<Value = Name> {
    prop_oneof![
        6 => prop::sample::select(vec!["a", "b", "c"]).prop_map(var),
        2 => (1u8..4).prop_map(Name::Pos),
        1 => Just(Name::Hash),
        2 => Just(Name::At),
        2 => Just(Name::Star),
    ]
}

/// Units allowed inside a modifier word / pattern in unquoted context (one level of nesting).
fn arb_inner_units(dq: bool) -> impl Strategy<Value = Vec<Unit>> {
    let simple_param = prop::sample::select(vec!["a", "b", "c"])
        .prop_map(|n| Unit::Param(Param { name: var(n), form: Form::Plain(false) }));
    let lit = prop::sample::select(vec!['a', 'b', ' ', ':', '*', '-', '?', 'é', '*', '?']).prop_map(Unit::Lit);
    if dq {
        prop::collection::vec(prop_oneof![4 => lit, 1 => simple_param], 0..4).boxed()
    } else {
        let quoted = prop_oneof![
            prop::sample::select(vec![' ', 'a', '*', '\\', ':']).prop_map(Unit::Esc),
            prop::sample::select(vec!["", " ", "a b", ":", "*"]).prop_map(|s| Unit::SQ(s.to_string())),
            prop::sample::select(vec!["", " ", "a:"]).prop_map(|s| Unit::DQ(s.chars().map(DUnit::Lit).collect())),
            prop::sample::select(vec!["a", "b", "c"]).prop_map(|n| Unit::DQ(vec![DUnit::Param(Param { name: var(n), form: Form::Plain(false) })])),
        ];
        let subst = prop_oneof![arb_cmd().prop_map(Unit::Cmd), arb_arith().prop_map(Unit::Arith)];
        prop::collection::vec(prop_oneof![8 => lit, 4 => quoted, 2 => simple_param, 1 => subst], 0..4).boxed()
    }
}

fn arb_param(dq: bool) -> impl Strategy<Value = Param> {
    let form = prop_oneof![
        4 => any::<bool>().prop_map(Form::Plain),
        1 => Just(Form::Length),
        5 => (prop::sample::select(vec![SwitchKind::Default, SwitchKind::Assign, SwitchKind::Error, SwitchKind::Alter]), any::<bool>(), arb_inner_units(dq))
            .prop_map(|(kind, colon, word)| Form::Switch { kind, colon, word }),
        3 => (prop::sample::select(vec![TrimKind::PrefixShortest, TrimKind::PrefixLongest, TrimKind::SuffixShortest, TrimKind::SuffixLongest]), arb_inner_units(false))
            .prop_map(|(kind, pattern)| Form::Trim { kind, pattern }),
    ];
    (arb_name(), form).prop_map(|(name, form)| {
        // keep the renderer unambiguous: ${#} forms only on variables/positionals
        let form = match (&name, form) {
            (Name::At | Name::Star, Form::Length) => Form::Plain(true),
            (Name::Hash, Form::Length | Form::Trim { .. } | Form::Switch { .. }) => Form::Plain(true),
            (_, f) => f,
        };
        Param { name, form }
    })
}

fn arb_unit() -> impl Strategy<Value = Unit> {
    let dunit = prop_oneof![
        3 => prop::sample::select(vec!['a', ' ', ':', '*', '\t', '-']).prop_map(DUnit::Lit),
        1 => prop::sample::select(vec!['$', '"', '\\', 'a', ' ']).prop_map(DUnit::Esc),
        4 => arb_param(true).prop_map(DUnit::Param),
        1 => arb_cmd().prop_map(DUnit::Cmd),
        1 => arb_arith().prop_map(DUnit::Arith),
    ];
    prop_oneof![
        3 => prop::sample::select(vec!['a', 'b', ':', '*', '-']).prop_map(Unit::Lit),
        1 => prop::sample::select(vec![' ', 'a', '*', '\\', '$', '"', '\'']).prop_map(Unit::Esc),
        1 => prop::sample::select(vec!["", " ", "a b", "\t", "*", "\\", "$a", "\"", ":"]).prop_map(|s| Unit::SQ(s.to_string())),
        3 => prop::collection::vec(dunit, 0..4).prop_map(Unit::DQ),
        6 => arb_param(false).prop_map(Unit::Param),
        1 => arb_cmd().prop_map(Unit::Cmd),
        1 => arb_arith().prop_map(Unit::Arith),
    ]
}

/// The renderer must not glue `$a` to a following name character, or `$1` to a digit.
fn glue_safe(word: &[Unit]) -> bool {
    fn ends_open(u: &Unit) -> bool {
        matches!(u, Unit::Param(Param { form: Form::Plain(false), name: Name::Var(_) | Name::Pos(_) | Name::Hash, .. }))
    }
    fn starts_name_char(u: &Unit) -> bool {
        match u {
            Unit::Lit(c) => c.is_alphanumeric() || *c == '_',
            _ => false,
        }
    }
    fn d_ok(ds: &[DUnit]) -> bool {
        ds.windows(2).all(|w| {
            !(matches!(&w[0], DUnit::Param(Param { form: Form::Plain(false), name: Name::Var(_) | Name::Pos(_) | Name::Hash, .. }))
                && matches!(&w[1], DUnit::Lit(c) if c.is_alphanumeric() || *c == '_'))
        }) && ds.iter().all(|d| match d {
            DUnit::Param(p) => p_ok(p),
            _ => true,
        })
    }
    fn p_ok(p: &Param) -> bool {
        match &p.form {
            Form::Switch { word, .. } => glue_safe(word),
            Form::Trim { pattern, .. } => glue_safe(pattern),
            _ => true,
        }
    }
    word.windows(2).all(|w| !(ends_open(&w[0]) && starts_name_char(&w[1])))
        && word.iter().all(|u| match u {
            Unit::DQ(ds) => d_ok(ds),
            Unit::Param(p) => p_ok(p),
            _ => true,
        })
        // `$#` followed by anything that makes `$#x`... is fine; `$*`/`$@` are single chars.
        // a word starting with a literal that makes an assignment (a=...) cannot occur: no '='.
}

pub fn arb_word_case() -> impl Strategy<Value = WordCase> {
    (prop::collection::vec(arb_unit(), 1..6), arb_state(), any::<bool>())
        .prop_filter("renderer would glue a name to the next character", |(w, _, _)| glue_safe(w))
        .prop_map(|(word, state, noglob)| WordCase { word, state, noglob })
}

fn arb_read_case() -> impl Strategy<Value = ReadCase> {
    (
        prop::collection::vec(prop::sample::select(vec!['a', 'b', ' ', '\t', ':', '-', '\\', 'c']), 0..10),
        any::<bool>(),
        1usize..4,
        arb_ifs(),
    )
        .prop_map(|(l, raw, nvars, ifs)| ReadCase { line: l.into_iter().collect(), raw, nvars, ifs })
}

pub fn run(ctx: &Ctx, st: &mut Stats) {
    // exhaustive: words of <= 2 units
    let alpha = unit_alphabet();
    let states = states();
    let na = alpha.len() as u64;
    let ns = states.len() as u64;
    let nifs = IFS_VALUES.len() as u64;
    let words = na + na * na;
    let total = words * ns * nifs;
    let (alpha_r, states_r) = (&alpha, &states);
    let decode = move |i: u64| -> Option<WordCase> {
        let ifs = IFS_VALUES[(i % nifs) as usize].map(|s| s.to_string());
        let rest = i / nifs;
        let mut state = states_r[(rest % ns) as usize].clone();
        state.ifs = ifs;
        let wi = rest / ns;
        let word = if wi < na {
            vec![alpha_r[wi as usize].clone()]
        } else {
            let wi = wi - na;
            vec![alpha_r[(wi / na) as usize].clone(), alpha_r[(wi % na) as usize].clone()]
        };
        if !glue_safe(&word) {
            return None;
        }
        Some(WordCase { word, state, noglob: true })
    };
    match ctx.tier {
        Tier::Thorough => WORD.run_exhaustive(ctx, st, total, &decode),
        Tier::Quick => {
            // quick: all single-unit words, and pairs on a fixed stride (a complete pass is the
            // thorough tier)
            let stride = 5;
            let off = ctx.seed % stride;
            let singles = na * ns * nifs;
            let dec2 = |i: u64| -> Option<WordCase> {
                if i < singles {
                    decode(i)
                } else {
                    let j = singles + (i - singles) * stride + off;
                    if j < total { decode(j) } else { None }
                }
            };
            let n = singles + (total - singles).div_ceil(stride);
            WORD.run_exhaustive(ctx, st, n, &dec2);
            st.exhaustive_drivers.retain(|d| d != "word");
        }
    }
    st.extra.insert("exhaustive_space".into(), serde_json::json!({"unit_alphabet": na, "states": ns, "ifs_values": nifs, "words": words, "cases": total}));

    let n = ctx.tier.pick(400_000, 6_000_000);
    WORD.run_random(ctx, st, n, arb_word_case);

    let n = ctx.tier.pick(150_000, 2_000_000);
    READ.run_random(ctx, st, n, arb_read_case);
}

pub fn replay(driver: &str, case: &serde_json::Value) -> Result<(Outcome, Option<&'static str>), String> {
    match driver {
        "word" => WORD.replay_known(case),
        "read" => READ.replay_known(case),
        _ => Err(format!("unknown driver {driver}")),
    }
}
